#!/venv/bin/python
"""atheris / libFuzzer target for C20: bytes -> token sequence -> Expression, with the
Python-eval oracle inside the target.  Writes a JSON summary to $C20_FUZZ_OUT at exit
(atexit does not run under libFuzzer, so the summary is rewritten periodically and in
the final iteration accounting)."""
import json, os, sys
from pathlib import Path

VERIF = Path(__file__).resolve().parent.parent
sys.path.insert(0, str(VERIF))
sys.path.insert(0, str(VERIF / ".deps"))

import atheris  # noqa: E402

from lib import bootstrap  # noqa: E402

bootstrap.load()

with atheris.instrument_imports(include=["piquasso.core._expressions"]):
    import piquasso.core._expressions as ex
from piquasso.api.exceptions import InvalidExpression  # noqa: E402

from checks import c20_expressions as c20  # noqa: E402
from lib.harness import case_hash  # noqa: E402

TOKENS = [
    "x", "x[0]", "x[1]", "x[-1]", "x[9]", "[", "]", "(", ")", ",", ":", "0", "1", "2", "3",
    "0.5", "2.0", "True", "False", "+", "-", "*", "/", "%", "**", "^", "==", "!=", "<", "<=",
    ">", ">=", " and ", " or ", "not ", " ", "1/0",
    # hostile
    "y", ".real", ".__class__", "f(", "lambda:", "'a'", "None", "...", "//", "<<", "|", "&",
    "~", "@", " in ", " is ", " if ", " else ", ":=", "for i in ", "{", "}", "1j", "\x00",
    "import ", ";", "=", "__import__", "\n", "\\", "\"", "*x", "await ", "ｘ",
]
STATE = {"execs": 0, "accepted": 0, "rejected": 0, "hashes": set(), "failures": []}
OUT = os.environ.get("C20_FUZZ_OUT")
XS = [(), (1,), (0, 2), (1, 0.5, True), (2, 2, -1, 0)]


def dump():
    if OUT:
        d = dict(STATE)
        d["hashes"] = sorted(STATE["hashes"])[:200000]
        Path(OUT).write_text(json.dumps(d))


def fail(kind, bucket, case, message):
    if all(f["bucket"] != bucket for f in STATE["failures"]):
        STATE["failures"].append({"kind": kind, "bucket": bucket, "case": case, "message": message})
        dump()


def one(data: bytes):
    STATE["execs"] += 1
    if STATE["execs"] % 5000 == 0:
        dump()
    if not data:
        return
    x = XS[data[0] % len(XS)]
    if data[0] & 0x80:
        try:
            src = data[1:].decode("utf-8")
        except UnicodeDecodeError:
            return
    else:
        src = "".join(TOKENS[b % len(TOKENS)] for b in data[1:])
    plain = c20.python_accepts_as_plain(src)
    try:
        e = ex.Expression(src)
    except InvalidExpression:
        STATE["rejected"] += 1
        if plain:
            fail("eval", "C20:grammar:rejected-valid", {"src": src, "x": list(x)},
                 f"{src!r} is inside the documented language but was rejected")
        return
    except RecursionError:
        return  # CPython parser/AST depth limits: same failure mode as eval()
    except MemoryError:
        return
    except Exception as err:  # noqa: BLE001
        fail("hostile", f"C20:hostile:wrong-exception:{type(err).__name__}", {"src": src},
             f"{src!r}: construction raised {err!r} instead of InvalidExpression")
        return
    STATE["accepted"] += 1
    if not plain:
        fail("hostile", "C20:hostile:accepted-forbidden", {"src": src},
             f"{src!r} was accepted at construction")
        return
    feats, depth = c20.features(src)
    if depth >= 3 and feats & {"chain", "slice", "boolop_raising_operand"}:
        STATE["hashes"].add(case_hash([src.strip(), list(x)]))
    if "**" in src or "*" in src and len(src) > 40:
        return  # unbounded powers / repetitions: Python itself may not terminate quickly
    try:
        want, e1 = c20.py_eval(src, x), None
    except (RecursionError, MemoryError):
        return
    except Exception as err:  # noqa: BLE001
        want, e1 = None, err
    try:
        got, e2 = e(x), None
    except (RecursionError, MemoryError):
        return
    except Exception as err:  # noqa: BLE001
        got, e2 = None, err
    case = {"src": src, "x": list(x)}
    if e1 is None and e2 is not None:
        fail("eval", "C20:eval:raises-where-python-returns", case,
             f"{src!r} x={x!r}: Python -> {want!r}, Expression raised {e2!r}")
    elif e1 is not None and e2 is None:
        fail("eval", "C20:eval:returns-where-python-raises", case,
             f"{src!r} x={x!r}: Python raised {e1!r}, Expression -> {got!r}")
    elif e1 is None and not c20.same_value(want, got):
        fail("eval", "C20:eval:value-differs", case,
             f"{src!r} x={x!r}: Python -> {want!r}, Expression -> {got!r}")


def main():
    argv = [sys.argv[0]] + sys.argv[1:]
    atheris.Setup(argv, one)
    try:
        atheris.Fuzz()
    finally:
        dump()


if __name__ == "__main__":
    main()
