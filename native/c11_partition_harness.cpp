// C11 — standalone harness: the native permanent must not depend on how its Gray-code
// range is partitioned among workers, i.e. on the value returned by
// std::thread::hardware_concurrency().  The symbol is defined here (link-time
// interposition: the executable's definition wins over libstdc++'s), so the harness owns
// the schedule.  Links <repo>/src/permanent.cpp and permanent_laplace.cpp directly.
//
// stdin : lines  "n  r_1..r_n  c_1..c_n  re im re im ... (n*n entries, row major)"
// stdout: one JSON object per line with the results for every forced concurrency value.
#include <complex>
#include <cstdio>
#include <cstdlib>
#include <iostream>
#include <sstream>
#include <string>
#include <thread>
#include <vector>

#include "matrix.hpp"
#include "permanent.hpp"
#include "permanent_laplace.hpp"

static unsigned int g_hc = 1;

unsigned int std::thread::hardware_concurrency() noexcept { return g_hc; }

using cd = std::complex<double>;
using cld = std::complex<long double>;

// reference: Ryser formula on the multiplicity-expanded matrix, long double
static cld ref_permanent(const std::vector<cd> &a, int n, const std::vector<int> &rows,
                         const std::vector<int> &cols) {
  std::vector<int> ri, ci;
  for (int i = 0; i < n; i++)
    for (int k = 0; k < rows[i]; k++) ri.push_back(i);
  for (int j = 0; j < n; j++)
    for (int k = 0; k < cols[j]; k++) ci.push_back(j);
  int m = (int)ri.size();
  if (m != (int)ci.size()) return cld(0, 0);
  if (m == 0) return cld(1, 0);
  cld total(0, 0);
  for (unsigned long s = 1; s < (1ul << m); s++) {
    cld prod(1, 0);
    for (int i = 0; i < m; i++) {
      cld rowsum(0, 0);
      for (int j = 0; j < m; j++)
        if (s & (1ul << j)) rowsum += cld(a[ri[i] * n + ci[j]]);
      prod *= rowsum;
    }
    int bits = __builtin_popcountl(s);
    if ((m - bits) % 2) total -= prod; else total += prod;
  }
  return total;
}

int main(int argc, char **argv) {
  std::vector<unsigned int> hcs;
  for (int i = 1; i < argc; i++) hcs.push_back((unsigned int)atoi(argv[i]));
  if (hcs.empty()) hcs = {1};
  std::string line;
  while (std::getline(std::cin, line)) {
    std::istringstream in(line);
    int n;
    if (!(in >> n)) continue;
    std::vector<int> rows(n), cols(n);
    for (auto &r : rows) in >> r;
    for (auto &c : cols) in >> c;
    std::vector<cd> a(n * n), absa(n * n);
    for (int i = 0; i < n * n; i++) {
      double re, im;
      in >> re >> im;
      a[i] = cd(re, im);
      absa[i] = cd(std::abs(a[i]), 0);
    }
    cld ref = ref_permanent(a, n, rows, cols);
    cld scale = ref_permanent(absa, n, rows, cols);
    std::printf("{\"ref\": [%.17Lg, %.17Lg], \"scale\": %.17Lg, \"results\": [", ref.real(),
                ref.imag(), scale.real());
    bool first = true;
    for (unsigned int hc : hcs) {
      g_hc = hc;
      Matrix<cd> A(n, n);
      for (int i = 0; i < n * n; i++) A[i] = a[i];
      Vector<int> R(n), C(n);
      for (int i = 0; i < n; i++) { R[i] = rows[i]; C[i] = cols[i]; }
      cd p = permanent_cpp<double>(A, R, C);
      Matrix<cd> A2(n, n);
      for (int i = 0; i < n * n; i++) A2[i] = a[i];
      Vector<int> R2(n), C2(n);
      for (int i = 0; i < n; i++) { R2[i] = rows[i]; C2[i] = cols[i]; }
      Vector<cd> lap = permanent_laplace_cpp<double>(A2, R2, C2);
      std::printf("%s{\"hc\": %u, \"perm\": [%.17g, %.17g], \"laplace\": [", first ? "" : ", ",
                  hc, p.real(), p.imag());
      for (size_t k = 0; k < lap.size(); k++)
        std::printf("%s[%.17g, %.17g]", k ? ", " : "", lap[k].real(), lap[k].imag());
      std::printf("]}");
      first = false;
    }
    std::printf("]}\n");
    std::fflush(stdout);
  }
  return 0;
}
