// libFuzzer target of C04: decodes bytes into (kernel, dims <= 6, multiplicities, matrix
// entries, precision, fake hardware_concurrency), runs the kernel of <repo>/src and compares
// with the long-double defining sums of ref_kernels.hpp INSIDE the target; a mismatch
// prints "C04-MISMATCH kernel=<name> ..." and aborts.  Sanitizer reports abort by
// themselves (-fno-sanitize-recover).
//
// Environment:
//   C04_SKIP      comma separated exclusion tokens (regions already known to crash):
//                   perm_ovf / lap_ovf   permanent / Laplace whose binomial product exceeds 2^31
//                                        (former F3 region; nothing is skipped unless a crash
//                                        was recorded there in this campaign)
//                   tor_d2 / ltor_d2     (loop) torontonian with >= 2 modes
//                   k:<kernel>[:f32|:f64] a whole kernel (optionally one precision)
//   C04_ONLY      comma separated kernel names to run (others are skipped, not counted)
//   C04_STATS     path of a file that receives counters (rewritten every 256 executions
//                 and at exit)
//   C04_DESCRIBE  print the decoded case of every input to stderr (used for replays)
//   C04_NO_HWC0   keep the fake hardware_concurrency() >= 1 (0 is a legal value: F7)
#include <cinttypes>
#include <cstdio>
#include <cstdlib>
#include <cstring>
#include <set>
#include <string>
#include <thread>
#include <unordered_set>

#include "matrix.hpp"
#include "permanent.hpp"
#include "permanent_laplace.hpp"
#include "torontonian.hpp"
#include "loop_torontonian.hpp"
#include "pfaffian.hpp"

#include "ref_kernels.hpp"

extern "C" void __sanitizer_set_death_callback(void (*callback)(void));

using ref::cld;
using ref::ld;

// ---- interposed: the library asks the C++ runtime for the number of hardware threads ----
static unsigned g_fake_hwc = 4;
#ifdef C04_INTERPOSE_HWC
unsigned int std::thread::hardware_concurrency() noexcept { return g_fake_hwc; }
#endif

// Byte reader with the interface of FuzzedDataProvider, but consuming strictly from the
// front, one byte per decision (value = lo + byte % range; 0 when the input is exhausted),
// so that seed inputs and replays can be written by hand.
struct Reader {
    const uint8_t *p;
    size_t n, i = 0;
    Reader(const uint8_t *d, size_t s) : p(d), n(s) {}
    uint8_t next() { return i < n ? p[i++] : 0; }
    template <typename T> T ConsumeIntegralInRange(T lo, T hi) {
        return (T)(lo + (int)(next() % (unsigned)(hi - lo + 1)));
    }
    bool ConsumeBool() { return next() & 1; }
};
using FuzzedDataProvider = Reader;

static const char *KNAMES[5] = {"permanent", "permanent_laplace", "torontonian",
                                "loop_torontonian", "pfaffian"};

static const double DICT[] = {0.0, 1.0, -1.0, 0.5, -0.5, 0.25, 2.0, -2.0, 0.1, -0.3, 0.7,
                              1.5, -1.25, 3.0, 0.001, -0.75, 0.333251953125, 1.0e-2, 0.875,
                              -0.0625, 1.25, -1.5, 0.6, 0.05};
static const int NDICT = sizeof(DICT) / sizeof(DICT[0]);
// magnitude family: all entries are multiplied by a power of two (exact); byte 0 = 1 so that
// short inputs and the hand-written seeds keep their meaning
static const int SCALE_EXP[8] = {0, -27, -17, -7, 0, 7, 13, -40};

struct Stats {
    uint64_t inputs = 0, executed = 0, nontrivial = 0;
    uint64_t per_kernel[5][2] = {{0}};
    uint64_t skipped_perm_ovf = 0, skipped_lap_ovf = 0, skipped_tor_d2 = 0, skipped_ltor_d2 = 0,
             skipped_kernel = 0, skipped_overflow_f32 = 0, out_of_domain = 0, hwc_ge1 = 0;
    uint64_t mult_ge17 = 0, total_ge20 = 0, mult_gt1 = 0, small_norm = 0, range_skipped = 0;
    std::unordered_set<uint64_t> hashes;
};
static Stats g_stats;
static std::set<std::string> g_skip, g_only;
static bool g_describe = false, g_hwc0 = false;
static const char *g_stats_path = nullptr;

static void write_stats(bool with_hashes = true) {
    if (!g_stats_path) return;
    std::string tmp = std::string(g_stats_path) + ".tmp";
    FILE *f = fopen(tmp.c_str(), "w");
    if (!f) return;
    fprintf(f, "inputs %" PRIu64 "\nexecuted %" PRIu64 "\nnontrivial %" PRIu64 "\n",
            g_stats.inputs, g_stats.executed, g_stats.nontrivial);
    for (int k = 0; k < 5; k++)
        for (int p = 0; p < 2; p++)
            fprintf(f, "kernel:%s:%s %" PRIu64 "\n", KNAMES[k], p ? "f32" : "f64",
                    g_stats.per_kernel[k][p]);
    fprintf(f, "skip:perm_ovf %" PRIu64 "\nskip:lap_ovf %" PRIu64 "\nskip:tor_d2 %" PRIu64
               "\nskip:ltor_d2 %" PRIu64 "\nskip:kernel %" PRIu64 "\nf32_overflow_skipped %" PRIu64
               "\nout_of_domain %" PRIu64 "\nmult_ge17 %" PRIu64 "\ntotal_ge20 %" PRIu64
               "\nmult_gt1 %" PRIu64 "\nsmall_norm %" PRIu64 "\nrange_skipped %" PRIu64 "\n",
            g_stats.skipped_perm_ovf, g_stats.skipped_lap_ovf, g_stats.skipped_tor_d2,
            g_stats.skipped_ltor_d2, g_stats.skipped_kernel, g_stats.skipped_overflow_f32,
            g_stats.out_of_domain, g_stats.mult_ge17, g_stats.total_ge20, g_stats.mult_gt1,
            g_stats.small_norm, g_stats.range_skipped);
    size_t n = 0;
    if (with_hashes)
    for (uint64_t h : g_stats.hashes) {
        if (n++ >= 50000) break;
        fprintf(f, "hash %" PRIx64 "\n", h);
    }
    fclose(f);
    rename(tmp.c_str(), g_stats_path);
}

static void split_env(const char *name, std::set<std::string> &out) {
    const char *v = getenv(name);
    if (!v) return;
    std::string s(v), cur;
    for (char c : s) {
        if (c == ',') { if (!cur.empty()) out.insert(cur); cur.clear(); }
        else cur.push_back(c);
    }
    if (!cur.empty()) out.insert(cur);
}

extern "C" int LLVMFuzzerInitialize(int *, char ***) {
    split_env("C04_SKIP", g_skip);
    split_env("C04_ONLY", g_only);
    g_describe = getenv("C04_DESCRIBE") != nullptr;
    g_hwc0 = getenv("C04_NO_HWC0") == nullptr;
    g_stats_path = getenv("C04_STATS");
    atexit([]() { write_stats(true); });
    __sanitizer_set_death_callback([]() { write_stats(true); });
    return 0;
}

[[noreturn]] static void mismatch(const char *kernel, const std::string &desc, cld got, cld want,
                                  ld tol) {
    fprintf(stderr, "C04-MISMATCH kernel=%s %s got=(%.17Lg,%.17Lg) ref=(%.17Lg,%.17Lg) "
                    "diff=%.3Lg tol=%.3Lg\n",
            kernel, desc.c_str(), got.real(), got.imag(), want.real(), want.imag(),
            std::abs(got - want), tol);
    write_stats();
    abort();
}

static bool kernel_skipped(int k, bool f32) {
    std::string n = std::string("k:") + KNAMES[k];
    return g_skip.count(n) || g_skip.count(n + (f32 ? ":f32" : ":f64"));
}

static uint64_t fnv(const std::string &s) {
    uint64_t h = 1469598103934665603ull;
    for (unsigned char c : s) { h ^= c; h *= 1099511628211ull; }
    return h;
}

template <typename T>
static void run_perm(bool laplace, const std::vector<int> &rows, const std::vector<int> &cols,
                     const std::vector<std::vector<cld>> &Ain, const std::string &desc) {
    int nr = (int)rows.size(), nc = (int)cols.size();
    // the input of this overload: entries rounded to T
    std::vector<std::vector<cld>> A(nr, std::vector<cld>(nc));
    for (int i = 0; i < nr; i++)
        for (int j = 0; j < nc; j++)
            A[i][j] = cld((ld)(T)Ain[i][j].real(), (ld)(T)Ain[i][j].imag());
    const ld u = sizeof(T) == 4 ? std::ldexp(1.0L, -24) : std::ldexp(1.0L, -53);
    int n = 0;
    for (int r : rows) n += r;

    auto call = [&](std::vector<std::complex<T>> &out) {
        Matrix<std::complex<T>> M(nr, nc);
        for (int i = 0; i < nr; i++)
            for (int j = 0; j < nc; j++)
                M(i, j) = std::complex<T>((T)A[i][j].real(), (T)A[i][j].imag());
        Vector<int> r(nr), c(nc);
        for (int i = 0; i < nr; i++) r[i] = rows[i];
        for (int j = 0; j < nc; j++) c[j] = cols[j];
        if (laplace) {
            Vector<std::complex<T>> v = permanent_laplace_cpp<T>(M, r, c);
            for (size_t i = 0; i < v.size(); i++) out.push_back(v[i]);
        } else {
            out.push_back(permanent_cpp<T>(M, r, c));
        }
    };

    if (!laplace) {
        ld mx = 0;
        ld S = ref::glynn_abs_sum(A, rows, cols, &mx);
        if (sizeof(T) == 4 && (mx > 1e30L || S < 1e-25L)) { g_stats.skipped_overflow_f32++; return; }
        if (mx > 1e280L || S < 1e-280L) { g_stats.range_skipped++; return; }
        cld want = ref::permanent(A, rows, cols);
        std::vector<std::complex<T>> out;
        call(out);
        cld got((ld)out[0].real(), (ld)out[0].imag());
        ld tol = 64 * u * S + 2 * u * std::abs(want);
        if (!(std::abs(got - want) <= tol)) mismatch("permanent", desc, got, want, tol);
        if (nr >= 2 && nc >= 2 && std::abs(want) > 1e-6L * S) g_stats.nontrivial++;
        return;
    }
    // Laplace: result[l] = per(A; rows, cols - e_l) for every l with cols[l] >= 1
    std::vector<cld> wants(nc);
    std::vector<ld> Ss(nc, 0);
    for (int l = 0; l < nc; l++) {
        if (cols[l] == 0) continue;
        std::vector<int> c2 = cols;
        c2[l] -= 1;
        ld mx = 0;
        Ss[l] = ref::glynn_abs_sum(A, rows, c2, &mx);
        if (sizeof(T) == 4 && (mx > 1e30L || Ss[l] < 1e-25L)) { g_stats.skipped_overflow_f32++; return; }
        if (mx > 1e280L || Ss[l] < 1e-280L) { g_stats.range_skipped++; return; }
        wants[l] = ref::permanent(A, rows, c2);
    }
    std::vector<std::complex<T>> out;
    call(out);
    if (n == 0 || nr == 0 || nc == 0) return;  // documented degenerate return value
    if ((int)out.size() != nc) mismatch("permanent_laplace", desc + " result-size", cld(out.size()), cld(nc), 0);
    for (int l = 0; l < nc; l++) {
        if (cols[l] == 0) continue;
        cld got((ld)out[l].real(), (ld)out[l].imag());
        ld tol = 64 * u * Ss[l] + 2 * u * std::abs(wants[l]);
        if (!(std::abs(got - wants[l]) <= tol))
            mismatch("permanent_laplace", desc + " l=" + std::to_string(l), got, wants[l], tol);
    }
    if (nr >= 2 && nc >= 2) g_stats.nontrivial++;
}

template <typename T>
static void run_tor(bool loop, const ref::Mat &Ain, const std::vector<ld> &gin,
                    const std::string &desc) {
    int dim = (int)Ain.size();
    ref::Mat A(dim, std::vector<ld>(dim));
    std::vector<ld> g(dim);
    for (int i = 0; i < dim; i++) {
        g[i] = (ld)(T)gin[i];
        for (int j = 0; j < dim; j++) A[i][j] = (ld)(T)Ain[i][j];
    }
    const ld u = sizeof(T) == 4 ? std::ldexp(1.0L, -24) : std::ldexp(1.0L, -53);
    ld want, S;
    if (!ref::torontonian(A, loop ? &g : nullptr, want, S) || !(S < 1e12L)) {
        g_stats.out_of_domain++;
        return;
    }
    Matrix<T> M(dim, dim);
    for (int i = 0; i < dim; i++)
        for (int j = 0; j < dim; j++) M(i, j) = (T)A[i][j];
    T got;
    if (loop) {
        Vector<T> v(dim);
        for (int i = 0; i < dim; i++) v[i] = (T)g[i];
        got = loop_torontonian_cpp<T>(M, v);
    } else {
        got = torontonian_cpp<T>(M);
    }
    ld tol = 64 * u * S + 2 * u * std::fabs(want);
    if (!(std::fabs((ld)got - want) <= tol))
        mismatch(loop ? "loop_torontonian" : "torontonian", desc, cld((ld)got), cld(want), tol);
    if (dim >= 4 && std::fabs(want) > 1e-6L * S) g_stats.nontrivial++;
}

template <typename T>
static void run_pf(const ref::Mat &Ain, const std::string &desc) {
    int n = (int)Ain.size();
    ref::Mat A(n, std::vector<ld>(n));
    for (int i = 0; i < n; i++)
        for (int j = 0; j < n; j++) A[i][j] = (ld)(T)Ain[i][j];
    const ld u = sizeof(T) == 4 ? std::ldexp(1.0L, -24) : std::ldexp(1.0L, -53);
    ld want = ref::pfaffian(A), S = ref::pfaffian(A, true);
    if (sizeof(T) == 4 && n >= 2 && S > 0 && (S < 1e-28L || S > 1e30L)) { g_stats.range_skipped++; return; }
    Matrix<T> M(n, n);
    for (int i = 0; i < n; i++)
        for (int j = 0; j < n; j++) M(i, j) = (T)A[i][j];
    T got = pfaffian_cpp<T>(M);
    ld tol = 64 * ref::pfaffian_error_bound(A, u) + 2 * u * std::fabs(want);
    if (!(std::fabs((ld)got - want) <= tol)) mismatch("pfaffian", desc, cld((ld)got), cld(want), tol);
    if (n >= 4 && n % 2 == 0 && std::fabs(want) > 1e-6L * S) g_stats.nontrivial++;
}

extern "C" int LLVMFuzzerTestOneInput(const uint8_t *data, size_t size) {
    FuzzedDataProvider fdp(data, size);
    g_stats.inputs++;
    if ((g_stats.inputs & 1023) == 0) write_stats(false);
    int kernel = fdp.ConsumeIntegralInRange<int>(0, 4);
    bool f32 = fdp.ConsumeBool();
    g_fake_hwc = (unsigned)fdp.ConsumeIntegralInRange<int>(0, 64);
    if (!g_hwc0 && g_fake_hwc == 0) g_fake_hwc = 1;
    if (!g_only.empty() && !g_only.count(KNAMES[kernel])) return 0;
    std::string desc = std::string(KNAMES[kernel]) + (f32 ? " f32" : " f64") +
                       " hwc=" + std::to_string(g_fake_hwc);
    auto dict = [&]() { return DICT[fdp.ConsumeIntegralInRange<int>(0, NDICT - 1)]; };

    if (kernel <= 1) {
        bool laplace = kernel == 1;
        int nr = fdp.ConsumeIntegralInRange<int>(0, 6), nc = fdp.ConsumeIntegralInRange<int>(0, 6);
        bool few = nr <= 3 && nc <= 3;
        // few rows: any split of up to 40 photons (e.g. [36,2], [20,20]); many rows: up to 8
        int cap_each = few ? 40 : 3, cap_total = few ? 40 : 8;
        std::vector<int> rows(nr), cols(nc, 0);
        int tot = 0;
        for (int i = 0; i < nr; i++) {
            int m = fdp.ConsumeIntegralInRange<int>(0, cap_each);
            m = std::min(m, cap_total - tot);
            rows[i] = m;
            tot += m;
        }
        if (nc == 0) { for (int &r : rows) r = 0; tot = 0; }
        int want_cols = tot + (laplace ? 1 : 0);
        if (nc > 0) {
            int acc = 0;
            for (int j = 0; j < nc; j++) {
                int m = fdp.ConsumeIntegralInRange<int>(0, few ? 40 : 19);
                m = std::min(m, want_cols - acc);
                cols[j] = m;
                acc += m;
            }
            cols[fdp.ConsumeIntegralInRange<int>(0, nc - 1)] += want_cols - acc;
        } else if (laplace) {
            return 0;
        }
        std::vector<std::vector<cld>> A(nr, std::vector<cld>(nc));
        bool real_only = fdp.ConsumeBool();
        for (int i = 0; i < nr; i++)
            for (int j = 0; j < nc; j++) {
                double re = dict(), im = real_only ? 0.0 : dict();
                A[i][j] = cld(re, im);
            }
        int sexp = SCALE_EXP[fdp.ConsumeIntegralInRange<int>(0, 7)];
        for (auto &row : A) for (auto &z : row) z = cld(std::ldexp(z.real(), sexp), std::ldexp(z.imag(), sexp));
        desc += " scale=2^" + std::to_string(sexp);
        desc += " rows=[";
        for (int r : rows) desc += std::to_string(r) + ",";
        desc += "] cols=[";
        for (int c : cols) desc += std::to_string(c) + ",";
        desc += "]";
        bool ovf = ref::binomial_overflow_bound(rows) >= 2147483648.0L;
        desc += ovf ? " region=binomial-int-overflow" : " region=main";
        if (g_describe) {
            fprintf(stderr, "C04-DESC %s A=", desc.c_str());
            for (auto &row : A) for (auto &z : row) fprintf(stderr, "(%.17Lg,%.17Lg) ", z.real(), z.imag());
            fprintf(stderr, "\n");
        }
        if (ovf && g_skip.count(laplace ? "lap_ovf" : "perm_ovf")) {
            (laplace ? g_stats.skipped_lap_ovf : g_stats.skipped_perm_ovf)++;
            return 0;
        }
        if (kernel_skipped(kernel, f32)) { g_stats.skipped_kernel++; return 0; }
        g_stats.executed++;
        g_stats.per_kernel[kernel][f32]++;
        int mx = 0;
        for (int r : rows) mx = std::max(mx, r);
        if (mx >= 17) g_stats.mult_ge17++;
        if (sexp <= -17) g_stats.small_norm++;
        if (mx > 1) g_stats.mult_gt1++;
        if (tot >= 20) g_stats.total_ge20++;
        uint64_t before = g_stats.nontrivial;
        if (f32) run_perm<float>(laplace, rows, cols, A, desc);
        else run_perm<double>(laplace, rows, cols, A, desc);
        if (g_stats.nontrivial != before && g_stats.hashes.size() < 200000)
            g_stats.hashes.insert(fnv(desc + std::string((const char *)data, size)));
        return 0;
    }

    if (kernel <= 3) {
        bool loop = kernel == 3;
        int d = fdp.ConsumeIntegralInRange<int>(0, 6);
        int dim = 2 * d;
        static const double DIAGS[] = {0.25, 0.5, 0.75, 1.0, 1.25, 1.5};
        double dg = DIAGS[fdp.ConsumeIntegralInRange<int>(0, 5)];
        ref::Mat L(dim, std::vector<ld>(dim, 0)), A(dim, std::vector<ld>(dim, 0));
        for (int i = 0; i < dim; i++)
            for (int j = 0; j <= i; j++) L[i][j] = dict();
        // 1 - A = dg * 1 + L L^T / 8  (symmetric positive definite by construction)
        for (int i = 0; i < dim; i++)
            for (int j = 0; j < dim; j++) {
                ld s = 0;
                for (int k = 0; k < dim; k++) s += L[i][k] * L[j][k];
                ld m = (i == j ? (ld)dg : 0.0L) + s / 8;
                A[i][j] = (i == j ? 1.0L : 0.0L) - (ld)(double)m;
            }
        std::vector<ld> g(dim, 0);
        if (loop)
            for (int i = 0; i < dim; i++) g[i] = dict() * 0.5;
        desc += " d=" + std::to_string(d);
        if (g_describe) {
            fprintf(stderr, "C04-DESC %s A=", desc.c_str());
            for (auto &row : A) for (ld z : row) fprintf(stderr, "%.17Lg ", z);
            fprintf(stderr, " gamma=");
            for (ld z : g) fprintf(stderr, "%.17Lg ", z);
            fprintf(stderr, "\n");
        }
        if (d >= 2 && g_skip.count(loop ? "ltor_d2" : "tor_d2")) {
            (loop ? g_stats.skipped_ltor_d2 : g_stats.skipped_tor_d2)++;
            return 0;
        }
        if (kernel_skipped(kernel, f32)) { g_stats.skipped_kernel++; return 0; }
        g_stats.executed++;
        g_stats.per_kernel[kernel][f32]++;
        uint64_t before = g_stats.nontrivial;
        if (f32) run_tor<float>(loop, A, g, desc);
        else run_tor<double>(loop, A, g, desc);
        if (g_stats.nontrivial != before && g_stats.hashes.size() < 200000)
            g_stats.hashes.insert(fnv(desc + std::string((const char *)data, size)));
        return 0;
    }

    {
        int n = fdp.ConsumeIntegralInRange<int>(0, 12);
        ref::Mat A(n, std::vector<ld>(n, 0));
        for (int i = 0; i < n; i++)
            for (int j = i + 1; j < n; j++) {
                double v = dict();
                A[i][j] = v;
                A[j][i] = -v;
            }
        int sexp = SCALE_EXP[fdp.ConsumeIntegralInRange<int>(0, 7)];
        if (f32 && (sexp < -17 || sexp > 7)) sexp = sexp < 0 ? -17 : 7;   // float32 exponent range, n <= 12
        for (auto &row : A) for (ld &z : row) z = std::ldexp(z, sexp);
        if (sexp <= -17) g_stats.small_norm++;
        desc += " n=" + std::to_string(n) + " scale=2^" + std::to_string(sexp);
        if (g_describe) {
            fprintf(stderr, "C04-DESC %s A=", desc.c_str());
            for (auto &row : A) for (ld z : row) fprintf(stderr, "%.17Lg ", z);
            fprintf(stderr, "\n");
        }
        if (kernel_skipped(kernel, f32)) { g_stats.skipped_kernel++; return 0; }
        g_stats.executed++;
        g_stats.per_kernel[kernel][f32]++;
        uint64_t before = g_stats.nontrivial;
        if (f32) run_pf<float>(A, desc);
        else run_pf<double>(A, desc);
        if (g_stats.nontrivial != before && g_stats.hashes.size() < 200000)
            g_stats.hashes.insert(fnv(desc + std::string((const char *)data, size)));
    }
    return 0;
}
