// Reference ("defining sum") implementations in long double for the native fuzz target of
// C04.  Deliberately naive: sums over contingency tables / mode subsets / signed perfect
// matchings, no sharing of structure with the library algorithms (Glynn + Gray code,
// recursive Cholesky reuse, Parlett-Reid).
#pragma once

#include <algorithm>
#include <cmath>
#include <complex>
#include <cstdint>
#include <map>
#include <vector>

namespace ref {

using ld = long double;
using cld = std::complex<long double>;

inline ld binom(int n, int k) {
    if (k < 0 || k > n) return 0;
    ld r = 1;
    for (int i = 1; i <= k; i++) r = r * (ld)(n - k + i) / (ld)i;
    return std::round(r);
}

inline ld factorial(int n) {
    ld r = 1;
    for (int i = 2; i <= n; i++) r *= (ld)i;
    return r;
}

// ---------------------------------------------------------------------------------------
// permanent with multiplicities: sum over contingency tables M (row sums r, column sums c)
//   prod r_i! prod c_j! / prod m_ij!  prod A_ij^m_ij , evaluated row by row.
// ---------------------------------------------------------------------------------------
struct PermDP {
    const std::vector<std::vector<cld>> &A;
    int nc;
    std::map<std::vector<int>, cld> cur, nxt;
    std::vector<std::vector<cld>> pw;

    void rec(int j, int left, const std::vector<int> &state, cld acc, std::vector<int> &out) {
        if (j == nc - 1) {
            if (left > state[j]) return;
            out[j] = state[j] - left;
            nxt[out] += acc * pw[j][left];
            return;
        }
        int cap = 0;
        for (int t = j + 1; t < nc; t++) cap += state[t];
        int lo = std::max(0, left - cap), hi = std::min(left, state[j]);
        for (int m = lo; m <= hi; m++) {
            out[j] = state[j] - m;
            rec(j + 1, left - m, state, acc * pw[j][m] * binom(left, m), out);
        }
    }
};

inline cld permanent(const std::vector<std::vector<cld>> &A, const std::vector<int> &rows,
                     const std::vector<int> &cols) {
    int nr = (int)rows.size(), nc = (int)cols.size();
    int tot = 0;
    for (int r : rows) tot += r;
    if (tot == 0) return cld(1, 0);
    if (nc == 0) return cld(0, 0);
    PermDP dp{A, nc, {}, {}, {}};
    dp.cur[cols] = cld(1, 0);
    for (int i = 0; i < nr; i++) {
        int r = rows[i];
        if (r == 0) continue;
        dp.pw.assign(nc, {});
        for (int j = 0; j < nc; j++) {
            dp.pw[j].push_back(cld(1, 0));
            for (int k = 1; k <= std::min(r, cols[j]); k++) dp.pw[j].push_back(dp.pw[j].back() * A[i][j]);
        }
        dp.nxt.clear();
        std::vector<int> out(nc);
        for (auto &kv : dp.cur) dp.rec(0, r, kv.first, kv.second, out);
        dp.cur.swap(dp.nxt);
    }
    std::vector<int> zero(nc, 0);
    auto it = dp.cur.find(zero);
    cld v = it == dp.cur.end() ? cld(0, 0) : it->second;
    for (int c : cols) v *= factorial(c);
    return v;
}

// magnitude sum of the Glynn formula with row multiplicities (all sign patterns, / 2^n)
inline ld glynn_abs_sum(const std::vector<std::vector<cld>> &A, const std::vector<int> &rows,
                        const std::vector<int> &cols, ld *max_addend = nullptr) {
    int nr = (int)rows.size(), nc = (int)cols.size();
    int n = 0;
    for (int r : rows) n += r;
    if (n == 0) return 1;
    std::vector<int> k(nr, 0);
    ld total = 0, mx = 0;
    while (true) {
        ld w = 1;
        for (int i = 0; i < nr; i++) w *= binom(rows[i], k[i]);
        for (int j = 0; j < nc; j++) {
            if (cols[j] == 0) continue;
            cld s(0, 0);
            for (int i = 0; i < nr; i++) s += A[i][j] * (ld)(rows[i] - 2 * k[i]);
            w *= std::pow(std::abs(s), (ld)cols[j]);
        }
        total += w;
        mx = std::max(mx, w);
        int i = 0;
        while (i < nr) {
            if (k[i] < rows[i]) { k[i]++; break; }
            k[i] = 0;
            i++;
        }
        if (i == nr) break;
    }
    if (max_addend) *max_addend = mx;
    return std::ldexp(total, -n);
}

// the bound of lib/oracles.py:binomial_overflow_bound
inline ld binomial_overflow_bound(std::vector<int> rows) {
    std::vector<int> rp;
    int m = 0, mi = -1;
    for (int i = 0; i < (int)rows.size(); i++)
        if (rows[i] > 0 && (m == 0 || rows[i] < m)) { m = rows[i]; mi = i; }
    if (mi < 0) return 1;
    rows[mi] -= 1;
    for (int r : rows) if (r > 0) rp.push_back(r);
    if (rp.empty()) return 1;
    ld best = 0;
    for (size_t i = 0; i < rp.size(); i++) {
        ld p = 0;
        for (int k = 0; k <= rp[i]; k++) p = std::max(p, (ld)k * binom(rp[i], k));
        for (size_t j = 0; j < rp.size(); j++)
            if (j != i) p *= binom(rp[j], rp[j] / 2);
        best = std::max(best, p);
    }
    return best;
}

// ---------------------------------------------------------------------------------------
// dense helpers (Gauss-Jordan with partial pivoting, long double)
// ---------------------------------------------------------------------------------------
using Mat = std::vector<std::vector<ld>>;

inline bool inverse_det(Mat M, Mat &inv, ld &det) {
    int n = (int)M.size();
    inv.assign(n, std::vector<ld>(n, 0));
    for (int i = 0; i < n; i++) inv[i][i] = 1;
    det = 1;
    for (int c = 0; c < n; c++) {
        int p = c;
        for (int r = c + 1; r < n; r++)
            if (std::fabs(M[r][c]) > std::fabs(M[p][c])) p = r;
        if (M[p][c] == 0) { det = 0; return false; }
        if (p != c) { std::swap(M[p], M[c]); std::swap(inv[p], inv[c]); det = -det; }
        ld piv = M[c][c];
        det *= piv;
        for (int j = 0; j < n; j++) { M[c][j] /= piv; inv[c][j] /= piv; }
        for (int r = 0; r < n; r++) {
            if (r == c) continue;
            ld f = M[r][c];
            if (f == 0) continue;
            for (int j = 0; j < n; j++) { M[r][j] -= f * M[c][j]; inv[r][j] -= f * inv[c][j]; }
        }
    }
    return true;
}

inline ld frob(const Mat &M) {
    ld s = 0;
    for (auto &r : M) for (ld x : r) s += x * x;
    return std::sqrt(s);
}

// (loop) torontonian in piquasso's xpxp ordering: sum over subsets Z of the d modes of
//   (-1)^(d-|Z|) exp(g_Z^T (1-A_Z)^-1 g_Z / 2) / sqrt(det(1 - A_Z)).
// Returns false if some det <= 0 (outside the domain).  S = sum |term| cond_F (1 + y/2).
inline bool torontonian(const Mat &A, const std::vector<ld> *gamma, ld &value, ld &S) {
    int d = (int)A.size() / 2;
    value = 0;
    S = 0;
    for (unsigned mask = 0; mask < (1u << d); mask++) {
        std::vector<int> ix;
        for (int m = 0; m < d; m++)
            if (mask >> m & 1) { ix.push_back(2 * m); ix.push_back(2 * m + 1); }
        int k = (int)ix.size() / 2;
        ld sign = ((d - k) % 2) ? -1 : 1;
        if (k == 0) { value += sign; S += 1; continue; }
        Mat M(2 * k, std::vector<ld>(2 * k));
        for (int a = 0; a < 2 * k; a++)
            for (int b = 0; b < 2 * k; b++) M[a][b] = (a == b ? 1.0L : 0.0L) - A[ix[a]][ix[b]];
        Mat inv;
        ld det;
        if (!inverse_det(M, inv, det) || !(det > 0)) return false;
        ld y = 0;
        if (gamma) {
            for (int a = 0; a < 2 * k; a++)
                for (int b = 0; b < 2 * k; b++) y += (*gamma)[ix[a]] * inv[a][b] * (*gamma)[ix[b]];
        }
        ld term = sign * std::exp(y / 2) / std::sqrt(det);
        value += term;
        S += std::fabs(term) * frob(M) * frob(inv) * (1 + std::fabs(y) / 2);
    }
    return true;
}

// Pfaffian: signed sum over perfect matchings (expansion along the first remaining row,
// memoised over vertex subsets); abs=true gives haf(|A|).
inline ld pfaffian(const Mat &A, bool abs_sum = false) {
    int n = (int)A.size();
    if (n % 2) return 0;
    if (n == 0) return 1;
    std::vector<ld> memo(1u << n, 0);
    std::vector<char> done(1u << n, 0);
    struct R {
        const Mat &A; int n; bool abs_sum; std::vector<ld> &memo; std::vector<char> &done;
        ld go(unsigned mask) {
            if (mask == 0) return 1;
            if (done[mask]) return memo[mask];
            int a = __builtin_ctz(mask);
            unsigned rest = mask & ~(1u << a);
            ld total = 0;
            int pos = 0;  // position of b among the remaining vertices after a
            for (int b = a + 1; b < n; b++) {
                if (!(rest >> b & 1)) continue;
                ld w = abs_sum ? std::fabs(A[a][b]) : A[a][b];
                if (w != 0) {
                    ld t = w * go(rest & ~(1u << b));
                    total += (abs_sum || pos % 2 == 0) ? t : -t;
                }
                pos++;
            }
            done[mask] = 1;
            memo[mask] = total;
            return total;
        }
    } r{A, n, abs_sum, memo, done};
    return r.go((1u << n) - 1);
}

// Bound of |Pf(A + dA) - Pf(A)| for the normwise backward error of an elimination
// algorithm: every off-diagonal entry (structural zeros included -- elimination fills in)
// is perturbed by at most eps = n u max|A|:
//     haf(|A| + eps J) - haf(|A|) = sum_{k>=1} eps^k c_k ,
// c_k = sum over perfect matchings with exactly k edges weighted 1 and the others |a_ij|.
// The coefficients are accumulated separately (no cancellation).
inline ld pfaffian_error_bound(const Mat &A, ld u) {
    int n = (int)A.size();
    if (n % 2) return 0;
    if (n == 0) return u;
    ld amax = 0;
    for (auto &r : A) for (ld x : r) amax = std::max(amax, std::fabs(x));
    int h = n / 2;
    std::vector<std::vector<ld>> memo(1u << n);
    struct R {
        const Mat &A; int n, h; std::vector<std::vector<ld>> &memo;
        const std::vector<ld> &go(unsigned mask) {
            std::vector<ld> &m = memo[mask];
            if (!m.empty()) return m;
            m.assign(h + 1, 0);
            if (mask == 0) { m[0] = 1; return m; }
            int a = __builtin_ctz(mask);
            unsigned rest = mask & ~(1u << a);
            for (int b = a + 1; b < n; b++) {
                if (!(rest >> b & 1)) continue;
                std::vector<ld> sub = go(rest & ~(1u << b));
                ld w = std::fabs(A[a][b]);
                std::vector<ld> &mm = memo[mask];
                for (int k = 0; k <= h; k++) {
                    mm[k] += w * sub[k];
                    if (k + 1 <= h) mm[k + 1] += sub[k];
                }
            }
            return memo[mask];
        }
    } r{A, n, h, memo};
    std::vector<ld> c = r.go((1u << n) - 1);
    ld eps = n * u * amax, p = 1, total = 0;
    for (int k = 1; k <= h; k++) { p *= eps; total += p * c[k]; }
    return total;
}

}  // namespace ref
