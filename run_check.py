#!/venv/bin/python
"""Single entry point of the verification machinery.

    run_check.py C07 --tier quick            run the check (shards over subprocesses)
    run_check.py C07 --replay FILE           re-run the property function on a saved case
    run_check.py C07 --tier quick --part X   run one part only (debugging)

Exit codes: 0 held (KNOWN-FINDING lines allowed), 1 VIOLATION, 2 harness error.
"""

from __future__ import annotations

import argparse
import glob
import importlib
import json
import os
import subprocess
import sys
import tempfile
import time
from collections import Counter
from pathlib import Path

VERIF = Path(__file__).resolve().parent
sys.path.insert(0, str(VERIF))

from lib import evidence as ev  # noqa: E402
from lib import harness  # noqa: E402


def find_module(pid: str):
    hits = glob.glob(str(VERIF / "checks" / f"{pid.lower()}_*.py"))
    if len(hits) != 1:
        raise SystemExit(f"no unique check module for {pid}: {hits}")
    return importlib.import_module("checks." + Path(hits[0]).stem)


def ensure_warm():
    """numba's cache is keyed by a digest of the Python sources (lib.bootstrap): after any
    source edit every shard would compile the same kernels inside its wall-clock part
    budgets.  Compile once here, before the budgets start (best effort, never fatal)."""
    cache = os.environ.get("NUMBA_CACHE_DIR")
    if not cache or os.environ.get("VERIF_NO_WARMUP"):
        return
    marker, lock = Path(cache) / ".warm", Path(cache) / ".warming"
    if marker.exists():
        return
    try:
        fd = os.open(str(lock), os.O_CREAT | os.O_EXCL | os.O_WRONLY)
        os.close(fd)
    except FileExistsError:
        # another run is warming the same cache: wait for it (at most 15 minutes)
        t_end = time.monotonic() + 900
        while time.monotonic() < t_end and not marker.exists() and lock.exists():
            time.sleep(2)
        return
    try:
        subprocess.run([sys.executable, str(VERIF / "lib" / "warmup.py")], timeout=900,
                       stdout=subprocess.DEVNULL, stderr=subprocess.DEVNULL, cwd=str(VERIF))
    except Exception:  # noqa: BLE001
        pass
    finally:
        try:
            lock.unlink()
        except OSError:
            pass


def main() -> int:
    ap = argparse.ArgumentParser()
    ap.add_argument("pid")
    ap.add_argument("--tier", default=os.environ.get("VERIF_TIER", "quick"),
                    choices=["quick", "thorough"])
    ap.add_argument("--replay")
    ap.add_argument("--part")
    ap.add_argument("--shard", type=int)
    ap.add_argument("--nshards", type=int)
    ap.add_argument("--shard-out")
    ap.add_argument("--shards", type=int, help="override number of shards")
    args = ap.parse_args()
    pid = args.pid.upper()
    seed = int(os.environ.get("VERIF_SEED", "1"))
    known = harness.load_known(pid)

    if args.shard is not None:  # ---- worker ------------------------------------
        mod = find_module(pid)
        out = harness.run_shard(mod, args.tier, seed, args.shard, args.nshards, known,
                                args.part)
        Path(args.shard_out).write_text(json.dumps(out))
        return 0

    if args.replay:  # ------------------------------------------------------------
        try:
            mod = find_module(pid)
            return harness.replay(mod, Path(args.replay), known)
        except harness.Violation:
            raise
        except Exception:
            import traceback

            traceback.print_exc()
            return 2

    # ---- parent -----------------------------------------------------------------
    t0 = time.monotonic()
    try:
        # build native modules once, before the shards race for it
        from lib import native_build

        native_build.build_parallel()
        mod = find_module(pid)
        ensure_warm()
    except Exception:
        import traceback

        traceback.print_exc()
        print(f"HARNESS-ERROR property={pid} setup failed")
        return 2

    nshards = args.shards or mod.SHARDS.get(args.tier, 1)
    env = dict(os.environ)
    env.setdefault("PYTHONHASHSEED", "0")
    env["VERIF_SEED"] = str(seed)
    tmpdir = Path(tempfile.mkdtemp(prefix=f"shards-{pid}-", dir=str(VERIF / ".build")))
    procs = []
    for i in range(nshards):
        outp = tmpdir / f"shard{i}.json"
        cmd = [sys.executable, str(VERIF / "run_check.py"), pid, "--tier", args.tier,
               "--shard", str(i), "--nshards", str(nshards), "--shard-out", str(outp)]
        if args.part:
            cmd += ["--part", args.part]
        logf = open(tmpdir / f"shard{i}.log", "w")
        procs.append((i, outp, subprocess.Popen(cmd, env=env, stdout=logf,
                                                stderr=subprocess.STDOUT, cwd=str(VERIF)),
                      logf))
    shards, errors = [], []
    for i, outp, p, logf in procs:
        rc = p.wait()
        logf.close()
        if rc != 0 or not outp.exists():
            log = (tmpdir / f"shard{i}.log").read_text()[-4000:]
            errors.append(f"shard {i} exited {rc}:\n{log}")
            continue
        s = json.loads(outp.read_text())
        if s.get("error"):
            errors.append(f"shard {i} harness error:\n{s['error']}")
        shards.append(s)
    import shutil

    shutil.rmtree(tmpdir, ignore_errors=True)

    # ---- merge ------------------------------------------------------------------
    evaluations = sum(s["evaluations"] for s in shards)
    hashes = set()
    classes, excluded, known_hits, notes = Counter(), Counter(), Counter(), Counter()
    samples, failures, known_examples = [], [], {}
    for s in shards:
        hashes.update(s["hashes"])
        classes.update(s["classes"])
        excluded.update(s["excluded"])
        known_hits.update(s["known_hits"])
        notes.update(s["notes"])
        for k, v in s["known_examples"].items():
            known_examples.setdefault(k, v)
        failures.extend(s["failures"])
    for k in range(8):  # round-robin samples over the shards
        for s in shards:
            if k < len(s["samples"]) and len(samples) < 10:
                samples.append(s["samples"][k])

    # one failure per bucket; known ones become KNOWN-FINDING lines
    by_bucket: dict[str, dict] = {}
    for f in failures:
        cur = by_bucket.get(f["bucket"])
        if cur is None or len(json.dumps(f["case"])) < len(json.dumps(cur["case"])):
            by_bucket[f["bucket"]] = f
    violations = []
    for b, f in sorted(by_bucket.items()):
        e = known.get(b)
        if e and e.get("status") == "known":
            known_hits[b] += 1
            known_examples.setdefault(b, {"case": f["case"], "message": f["message"]})
        else:
            violations.append(f)

    floors_failed = []
    # floors only judge a complete, quiet run: a failing part stops early (and shrinking
    # adds evaluations), which would turn a detected violation into a harness error
    incomplete = bool(notes.get("skipped_time_budget") or notes.get("enumeration_incomplete"))
    if incomplete and getattr(mod, "FLOORS", {}):
        notes["floors_not_judged_run_cut_by_time_budget"] = 1
    for cls, frac in ({} if (args.part or violations or incomplete)
                      else getattr(mod, "FLOORS", {})).items():
        if evaluations and classes.get(cls, 0) < frac * evaluations:
            floors_failed.append(f"class {cls}: {classes.get(cls, 0)} < {frac}*{evaluations}")

    wall = time.monotonic() - t0
    coverage = {
        "evaluations": evaluations,
        "distinct_nontrivial": len(hashes),
        "rule": mod.RULE,
        "samples": samples,
        "classes": dict(sorted(classes.items())),
        "excluded_by_known_findings": dict(excluded),
        "known_finding_hits": dict(known_hits),
        "notes": dict(notes),
        "shards": nshards,
    }
    if getattr(mod, "EXHAUSTIVE", {}).get(args.tier) and not notes.get("enumeration_incomplete"):
        coverage["exhaustive"] = True
        coverage["exhaustive_domain"] = mod.EXHAUSTIVE[args.tier]
    doc = {
        "property_id": pid,
        "tier": args.tier,
        "seed": seed,
        "level": mod.LEVEL,
        "coverage": coverage,
        "assumptions": list(mod.ASSUMPTIONS),
        "wall_s": round(wall, 2),
        "violations": len(violations),
    }
    try:
        if not args.part and not os.environ.get("VERIF_NO_EVIDENCE"):
            ev.write(pid, doc)
    except Exception as e:
        errors.append(f"evidence not written: {e!r}")

    for b in sorted(known_hits):
        print(f"KNOWN-FINDING: property={pid} {known[b]['what']} "
              f"[bucket {b}, hit {known_hits[b]}x]")
    print(f"{pid} tier={args.tier} seed={seed} evaluations={evaluations} "
          f"distinct_nontrivial={len(hashes)} wall={wall:.1f}s shards={nshards}")
    if classes:
        print("  classes: " + ", ".join(f"{k}={v}" for k, v in sorted(classes.items())))
    if notes:
        print("  notes: " + ", ".join(f"{k}={v}" for k, v in sorted(notes.items())))
    if errors:
        for e in errors:
            print("HARNESS-ERROR", e)
        return 2
    if floors_failed:
        print("HARNESS-ERROR generator degenerate: " + "; ".join(floors_failed))
        return 2
    if violations:
        for f in violations:
            p = harness.write_replay(pid, f)
            print(f"VIOLATION property={pid} replay={p}")
            print(f"  part={f['part']} bucket={f['bucket']}")
            print("  " + f["message"].replace("\n", "\n  ")[:1500])
        return 1
    if len(hashes) < 2:
        print("HARNESS-ERROR fewer than 2 distinct non-trivial cases")
        return 2
    return 0


if __name__ == "__main__":
    sys.exit(main())
