#!/venv/bin/python
"""Regenerate MANIFEST.json from the check modules present (keeps it valid at all times)."""
import glob, importlib, json, sys
from pathlib import Path

VERIF = Path(__file__).resolve().parent
sys.path.insert(0, str(VERIF))
props = [json.loads(l) for l in (VERIF / "properties.jsonl").read_text().splitlines() if l.strip()]
meta = json.loads((VERIF / "manifest_meta.json").read_text())

checks, na = [], []
for p in props:
    pid = p["id"]
    hits = glob.glob(str(VERIF / "checks" / f"{pid.lower()}_*.py"))
    m = meta["checks"].get(pid)
    if not hits or not m or m.get("disabled"):
        na.append({"property_id": pid, "reason": (m or {}).get("na_reason", "check not built yet in this session; planned per DESIGN.md section 2")})
        continue
    checks.append({
        "property_id": pid,
        "quick_cmd": f"/venv/bin/python run_check.py {pid} --tier quick",
        "thorough_cmd": f"/venv/bin/python run_check.py {pid} --tier thorough",
        "evidence_file": f"/verif/evidence/{pid}.json",
        "replay_cmd_template": f"/venv/bin/python run_check.py {pid} --replay {{path}}",
        "engine": "pbt-runner",
        "level_claimed": {"category": m["level"], "text": m["text"], "design_ref": f"DESIGN.md section 2, {pid}"},
        "level_note": m["note"],
        "technique": m["technique"],
    })
doc = {
    "version": 1,
    "setup_cmd": "/venv/bin/python setup_verif.py",
    "hooks": {
        "guard": "PIQUASSO_VERIF",
        "enable": "no source hooks are needed: checks import /repo's working tree directly and rebuild the native modules from /repo/src into /verif/.build; PIQUASSO_VERIF=1 is exported by lib/bootstrap.py for completeness",
        "baseline_off_cmd": "cd /repo && env -u PIQUASSO_VERIF /venv/bin/python -m pytest -ra -q -p no:cacheprovider --timeout=900 --continue-on-collection-errors",
        "source_commits": [],
        "add_only": True,
    },
    "engines": [{
        "name": "pbt-runner",
        "path": "/verif/run_check.py",
        "serves_properties": [c["property_id"] for c in checks],
        "kind_free_text": "Hypothesis strategies / exhaustive enumeration / libFuzzer+atheris fuzz targets with explicit oracles, sharded over subprocesses; collect-then-shrink; JSON replay files",
    }],
    "checks": checks,
    "notes": meta.get("notes", ""),
    "not_applicable": na,
}
(VERIF / "MANIFEST.json").write_text(json.dumps(doc, indent=1) + "\n")
import jsonschema
jsonschema.validate(doc, json.loads(Path("/root/.vp/MANIFEST.schema.json").read_text()))
print("MANIFEST.json:", len(checks), "checks,", len(na), "not_applicable")
