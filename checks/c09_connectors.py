"""C09 — results do not depend on the numerical connector.

(A) Differential execution.  A generated program description is executed on the same
    simulator class under the NumPy connector (reference, eager) and under the TensorFlow
    or the JAX connector, eagerly and compiled:

        tf  : eager | decorated (TensorflowConnector(decorate_with=tf.function(jit_compile=
              False)), program executed eagerly) | function (whole simulation inside
              tf.function(jit_compile=False), gate parameters are symbolic tensors)
        jax : eager | jit (whole simulation inside jax.jit, gate parameters are tracers)

    Simulators, restricted to the documented connector support
    (`_extra_builtin_connectors`): PF = PureFockSimulator (NumPy/TF/JAX), G =
    GaussianSimulator, P = PassiveSimulator, FG / FF = fermionic Gaussian / pure Fock
    simulators (NumPy/JAX).  Observables: state_vector *with phases*, fock_probabilities,
    norm, Gaussian mean / covariance / density_matrix, passive detection probabilities,
    fermionic covariance, plus a few expectation values.

(B) The connector primitives on generated matrices (degenerate ones included) against the
    NumPy connector and against their defining identity.

One (connector, mode) slice is handled by a given shard only (see `_shares`), so the
TensorFlow / JAX imports are paid once per shard.  Bucket = C09:<sim>:<conn>:<mode>:<observable>
for programs, C09:prim:<conn>:<primitive>[:<clause>] for primitives.
"""

from __future__ import annotations

import itertools
import math
import os
import warnings

import numpy as np
from hypothesis import strategies as st

from lib import bootstrap, progs
from lib import harness
from lib.harness import Part, Violation

pq = bootstrap.load()
os.environ.setdefault("TF_CPP_MIN_LOG_LEVEL", "3")
os.environ.setdefault("TF_ENABLE_ONEDNN_OPTS", "0")
os.environ.setdefault("JAX_PLATFORMS", "cpu")
warnings.filterwarnings("ignore", category=DeprecationWarning)

from lib.c09_common import (  # noqa: E402
    PRIMS, TRACEABLE, EXCLUDED, prim_case, run_primitive,
)

PID = "C09"
LEVEL = "exploration"
SHARDS = {"quick": 9, "thorough": 16}
RULE = (
    "Hypothesis-generated program descriptions (bosonic: d<=3, cutoff 1..6, vacuum / "
    "number / superposition input, 1..6 gates on ordered mode subsets; Gaussian: vacuum "
    "input, d<=3; passive: d<=4; fermionic: d<=4 occupation / equal-parity superposition "
    "input, gates on consecutive modes), float64 and float32 configs, executed under the "
    "NumPy connector and under TensorFlow (eager / decorate_with=tf.function / whole "
    "program in tf.function) or JAX (eager / jax.jit) and compared observable by "
    "observable.  Non-trivial = the program has an active gate or a gate on >= 2 modes, "
    "and a non-vacuum input or an active gate.  Primitive cases: (primitive, connector, "
    "matrix kind, size, seed), every one non-trivial; distinct by hash of the description."
)
ASSUMPTIONS = [
    "reference = NumpyConnector executed eagerly with the same Config (same dtype)",
    "tolerance 1e-8*(1+max|ref|) for float64 configs (JAX x64 enabled before first use), "
    "5e-4*(1+max|ref|) for Config(dtype=float32)",
    "compiled modes only use the instructions that can be traced at all (TRACEABLE in "
    "lib/c09_common.py; a gate that raises at trace time is loud, not a wrong result); the "
    "part `trace_support` re-measures that table and fails if a traceable entry stops "
    "tracing",
    "primitives are exercised on the argument domains piquasso feeds them (invertible "
    "matrices for polar, normal matrices for TensorFlow schur/logm/expm/powm as stated in "
    "the connector's own comments); excluded classes are counted in excluded_by_known_findings",
    "fresh connector object per case (so a case is a pure function of its description)",
]
FLOORS = {}

TOL = {"f64": 1e-8, "f32": 5e-4}
DTYPE = {"f64": np.float64, "f32": np.float32}

SIM_CONNS = {"PF": ("tf", "jax"), "G": ("jax",), "P": ("jax",), "FG": ("jax",),
             "FF": ("jax",)}
COMPILED = ("decorated", "function", "jit")

# ------------------------------------------------------------------ connectors (lazy)

_jax = None
_tf = None


def jax_mod():
    global _jax
    if _jax is None:
        import jax

        jax.config.update("jax_enable_x64", True)
        _jax = jax
    return _jax


def tf_mod():
    global _tf
    if _tf is None:
        import tensorflow as tf

        _tf = tf
    return _tf


def make_connector(conn: str, mode: str):
    if conn == "numpy":
        return pq.NumpyConnector()
    if conn == "jax":
        jax_mod()
        return pq.JaxConnector()
    if conn == "tf":
        tf = tf_mod()
        if mode == "decorated":
            return pq.TensorflowConnector(decorate_with=tf.function(jit_compile=False))
        return pq.TensorflowConnector()
    raise KeyError(conn)


# ------------------------------------------------------------------ program building

FERMI_GATES = {
    "FG": ["Interferometer", "Beamsplitter", "Phaseshifter", "Squeezing2", "IsingXX",
           "GaussianHamiltonian"],
    "FF": ["Interferometer", "Beamsplitter", "Phaseshifter", "Squeezing2", "IsingXX",
           "ControlledPhase", "Fourier", "MachZehnder", "Beamsplitter5050"],
}
FERMI_PASSIVE = {"Interferometer", "Beamsplitter", "Phaseshifter", "Fourier", "MachZehnder",
                 "Beamsplitter5050"}
ACTIVE = set(progs.ACTIVE_GAUSS + progs.DISPLACE + progs.FOCK_ONLY
             + ["ControlledX", "ControlledZ", "IsingXX", "GaussianHamiltonian"])

BOSON_GATES = {
    "PF": progs.PASSIVE + progs.ACTIVE_GAUSS + progs.DISPLACE + progs.KERR + progs.FOCK_ONLY,
    "G": progs.PASSIVE + progs.ACTIVE_GAUSS + progs.DISPLACE
    + ["ControlledX", "ControlledZ", "Attenuator"],
    "P": progs.PASSIVE + progs.KERR,
}


def quadratic_hamiltonian(k: int, seed: int, scale: float) -> np.ndarray:
    rng = progs.rng_of(seed)
    a = rng.normal(size=(k, k)) + 1j * rng.normal(size=(k, k))
    a = (a + a.conj().T) / 2 * scale
    b = rng.normal(size=(k, k)) + 1j * rng.normal(size=(k, k))
    b = (b - b.T) / 2 * scale
    return np.block([[-a.conj(), b], [-b.conj(), a]])


def payload(g: dict, cutoff) -> dict:
    """Concrete constructor arguments of a gate (floats and numpy arrays)."""
    name, p, k = g["g"], g["p"], len(g["modes"])
    if name == "Interferometer":
        return {"matrix": progs.haar_unitary(k, p["seed"], p.get("kind", "haar"))}
    if name == "GaussianTransform":
        pas, act = progs.gaussian_transform_blocks(k, p["seed"], p["rmax"])
        return {"passive": pas, "active": act}
    if name == "SNAP":
        return {"theta": progs.rng_of(p["seed"]).uniform(-np.pi, np.pi, cutoff)}
    if name == "GaussianHamiltonian":
        return {"hamiltonian": quadratic_hamiltonian(k, p["seed"], p["scale"])}
    return {key: float(v) for key, v in p.items()}


def instantiate(name: str, pl: dict):
    if name == "Interferometer":
        return pq.Interferometer(pl["matrix"])
    if name == "GaussianTransform":
        return pq.GaussianTransform(passive=pl["passive"], active=pl["active"])
    if name == "SNAP":
        return pq.SNAP(pl["theta"])
    if name == "GaussianHamiltonian":
        return pq.fermionic.GaussianHamiltonian(pl["hamiltonian"])
    if name in ("IsingXX", "ControlledPhase"):
        return getattr(pq.fermionic, name)(**pl)
    return getattr(pq, name)(**pl)


def add_prep(sim: str, prep: dict, d: int):
    if sim in ("PF", "P", "G"):
        progs.add_prep(pq, sim, prep, d)
        return
    if prep["kind"] == "number":
        pq.Q() | pq.NumberState(list(prep["occ"]))
    elif prep["kind"] == "vacuum":
        pq.Q() | pq.NumberState([0] * d)
    else:
        pq.Q() | pq.FockStateVector(
            {tuple(o): complex(a[0], a[1]) for o, a in prep["terms"]})


def simulator(case: dict, connector):
    kw = {"hbar": case.get("hbar", 2.0), "dtype": DTYPE[case.get("dtype", "f64")]}
    if case.get("cutoff") is not None:
        kw["cutoff"] = case["cutoff"]
    cls = {"PF": pq.PureFockSimulator, "G": pq.GaussianSimulator, "P": pq.PassiveSimulator,
           "FG": pq.fermionic.GaussianSimulator, "FF": pq.fermionic.PureFockSimulator}
    return cls[case["sim"]](d=case["d"], config=pq.Config(**kw), connector=connector)


def build_program(case: dict, payloads):
    with pq.Program() as program:
        add_prep(case["sim"], case["prep"], case["d"])
        for g, pl in zip(case["gates"], payloads):
            pq.Q(*g["modes"]) | instantiate(g["g"], pl)
    return program


# ------------------------------------------------------------------ observables

def probe_occupation(case):
    from piquasso._math.fock import get_fock_space_basis

    basis = get_fock_space_basis(case["d"], case["cutoff"])
    return np.array(basis[case.get("probe", 0) % len(basis)])


# observables that cannot be traced (raise at trace time under jax.jit): left out of the
# compiled function, compared in the eager modes only
UNTRACEABLE_OBS = {("G", "fock_probabilities"), ("FG", "density_matrix")}


def core_observables(case):
    """name -> function(state, sim); computed inside the compiled function too."""
    obs = _core_observables(case)
    if case.get("mode") in ("jit", "function"):
        obs = {k: v for k, v in obs.items() if (case["sim"], k) not in UNTRACEABLE_OBS}
    return obs


def _core_observables(case):
    sim = case["sim"]
    if sim == "PF":
        return {"state_vector": lambda s, m: s.state_vector,
                "fock_probabilities": lambda s, m: s.fock_probabilities,
                "norm": lambda s, m: s.norm}
    if sim == "G":
        obs = {"xpxp_mean_vector": lambda s, m: s.xpxp_mean_vector,
               "xpxp_covariance_matrix": lambda s, m: s.xpxp_covariance_matrix,
               "fock_probabilities": lambda s, m: s.fock_probabilities,
               "mean_photon_number": lambda s, m: s.mean_photon_number()}
        if math.comb(case["d"] + case["cutoff"] - 1, case["d"]) <= 15:
            obs["density_matrix"] = lambda s, m: s.density_matrix
        return obs
    if sim == "P":
        occ = probe_occupation(case)
        return {"state_vector": lambda s, m: s.state_vector,
                "fock_probabilities": lambda s, m: s.fock_probabilities,
                "get_particle_detection_probability":
                    lambda s, m: s.get_particle_detection_probability(occ)}
    if sim == "FG":
        d = case["d"]
        obs = {"covariance_matrix": lambda s, m: s.covariance_matrix,
               "fock_probabilities": lambda s, m: s.fock_probabilities,
               "mean_particle_numbers":
                   lambda s, m: s.mean_particle_numbers(modes=tuple(range(d)))}
        if d <= 3:
            obs["density_matrix"] = lambda s, m: s.density_matrix
        return obs
    if sim == "FF":
        return {"state_vector": lambda s, m: s.state_vector,
                "fock_probabilities": lambda s, m: s.fock_probabilities,
                "covariance_matrix": lambda s, m: s.covariance_matrix}
    raise KeyError(sim)


def extra_observables(case):
    """Eager-only expectation values (each is compared in a bucket of its own)."""
    sim = case["sim"]
    if sim == "G":
        d = case["d"]

        def fidelity(s, m):
            with pq.Program() as vac:
                pq.Q() | pq.Vacuum()
            return s.fidelity(m.execute(vac).state)

        return {
            "fidelity": fidelity,
            "wigner_function": lambda s, m: s.wigner_function(
                positions=[[0.1 * (i + 1) for i in range(d)]],
                momentums=[[-0.2 * (i + 1) for i in range(d)]]),
            "variance_photon_number": lambda s, m: s.variance_photon_number(),
            "get_purity": lambda s, m: s.get_purity(),
        }
    if sim == "PF":
        return {"mean_photon_number": lambda s, m: s.mean_photon_number(),
                "mean_position": lambda s, m: s.mean_position(0)}
    return {}


# ------------------------------------------------------------------ execution

def to_numpy(x):
    if isinstance(x, dict):
        return {k: to_numpy(v) for k, v in x.items()}
    if hasattr(x, "numpy") and not isinstance(x, np.ndarray):
        try:
            return np.asarray(x.numpy())
        except Exception:
            pass
    return np.asarray(x)


def run_eager(case, conn, mode, names):
    """-> ({observable: ndarray | Exception}, execute-exception | None)."""
    connector = make_connector(conn, mode)
    payloads = [payload(g, case.get("cutoff")) for g in case["gates"]]
    try:
        sim = simulator(case, connector)
        state = sim.execute(build_program(case, payloads)).state
    except Exception as e:  # noqa: BLE001
        return {}, e
    out = {}
    for name, fn in names.items():
        try:
            out[name] = to_numpy(fn(state, sim))
        except Exception as e:  # noqa: BLE001
            out[name] = e
    return out, None


def flatten(case, payloads):
    """Traced leaves: every float parameter; matrices too when case['trace_arrays']."""
    leaves, slots = [], []
    for gi, pl in enumerate(payloads):
        for key in sorted(pl):
            v = pl[key]
            # arrays: only the Interferometer matrix (GaussianHamiltonian / GaussianTransform
            # / SNAP arrays cannot be traced: TracerArrayConversionError at trace time)
            if isinstance(v, float) or (case.get("trace_arrays") and key == "matrix"):
                slots.append((gi, key))
                leaves.append(v)
    return leaves, slots


def run_compiled(case, conn, mode, names):
    payloads = [payload(g, case.get("cutoff")) for g in case["gates"]]
    leaves, slots = flatten(case, payloads)
    connector = make_connector(conn, mode)

    def fn(*args):
        pls = [dict(pl) for pl in payloads]
        for (gi, key), a in zip(slots, args):
            pls[gi][key] = a
        sim = simulator(case, connector)
        state = sim.execute(build_program(case, pls)).state
        return {name: f(state, sim) for name, f in names.items()}

    try:
        if conn == "jax":
            out = jax_mod().jit(fn)(*leaves)
        else:
            tf = tf_mod()
            real = tf.float32 if case.get("dtype") == "f32" else tf.float64
            args = [tf.constant(v, dtype=real) if isinstance(v, float)
                    else tf.constant(v) for v in leaves]
            out = tf.function(fn, jit_compile=False)(*args)
        return to_numpy(out), None
    except Exception as e:  # noqa: BLE001
        return {}, e


def short(e) -> str:
    """Exception text without the TensorFlow / JAX traceback lines."""
    lines = [ln.strip() for ln in str(e).splitlines()]
    lines = [ln for ln in lines if ln and not ln.startswith(("File ", "~", "^"))]
    return " | ".join(lines)[:400]


def maxdiff(ref, got):
    ref, got = np.asarray(ref), np.asarray(got)
    if ref.shape != got.shape:
        if ref.size == got.size == 1:
            ref, got = ref.reshape(()), got.reshape(())
        else:
            return float("inf")
    if not ref.size:
        return 0.0
    dlt = np.abs(ref.astype(complex) - got.astype(complex))
    if np.any(np.isnan(dlt)):
        return float("inf")
    return float(np.max(dlt))


def nontrivial(case):
    gates = case["gates"]
    act = any(g["g"] in ACTIVE for g in gates)
    return (act or any(len(g["modes"]) >= 2 for g in gates)) and (
        act or case["prep"]["kind"] != "vacuum")


EULER_GATES = {"QuadraticPhase", "Squeezing2", "GaussianTransform"}
MATRIX_GATES = {"Displacement", "PositionDisplacement", "MomentumDisplacement", "Squeezing",
                "CubicPhase"}

# Confirmed findings: the trigger region of an OPEN finding is skipped (and counted) by the
# search parts and checked by the part `findings` under one bucket per root cause.  Fixed
# findings stay in `findings` as regression probes (they must pass) and are searched again.
SQ2_BUCKET = "C09:PF:tf:squeezing2:degenerate-takagi:truncation-dependent"
G_PROBE = {"sim": "G", "conn": "jax", "mode": "eager", "d": 2, "cutoff": 3, "dtype": "f64",
           "hbar": 2.0, "prep": {"kind": "vacuum"},
           "gates": [{"g": "Squeezing", "modes": [1], "p": {"r": 0.3, "phi": 0.4}},
                     {"g": "Beamsplitter", "modes": [1, 0], "p": {"theta": 0.3, "phi": 0.9}}]}
# regression probes that keep the bucket of the search part (fixed findings)
PASSTHROUGH = {"regress:G:jax:fidelity+wigner_function", "probe:graph-modes",
               "probe:primitives", "probe:tf:graph-modes:float32:unaffected"}
F32_BUCKET = "C09:PF:tf:graph-modes:float32:active-gate-matrix:raises"
# Config(dtype=float32) + TensorFlow graph modes: these steps produce complex128 / float64
# intermediates (python complex scalars, float64 lookup tables) and write them into
# complex64 tensors (TensorArray.write, tensor_scatter_nd_update, loop-carried variables),
# which TensorFlow refuses and NumPy casts silently.  Measured one by one; the other
# instructions (all preparations incl. complex superpositions, Phaseshifter, Beamsplitter,
# MachZehnder, Fourier, Interferometer, Kerr, CrossKerr, SNAP) work.
F32_GRAPH_GATES = MATRIX_GATES | EULER_GATES | {"Beamsplitter5050"}
_F32_PARAMS = {
    "Beamsplitter5050": {}, "Squeezing": {"r": 0.2, "phi": 0.4}, "QuadraticPhase": {"s": 0.15},
    "Squeezing2": {"r": 0.2, "phi": 0.4}, "GaussianTransform": {"seed": 5, "rmax": 0.3},
    "Displacement": {"r": 0.2, "phi": 0.4}, "PositionDisplacement": {"x": 0.2},
    "MomentumDisplacement": {"p": 0.1}, "CubicPhase": {"gamma": 0.05},
}
_CSUP = {"kind": "superposition", "terms": [[[1, 0], [0.6, 0.0]], [[0, 0], [0.0, 0.8]]]}


def _f32(mode, name):
    k = progs.ARITY[name] or 2
    return {"sim": "PF", "conn": "tf", "mode": mode, "d": 2, "cutoff": 3, "dtype": "f32",
            "hbar": 2.0, "prep": {"kind": "number", "occ": [1, 0]},
            "gates": [{"g": name, "modes": [1, 0][:k], "p": _F32_PARAMS[name]}]}



def _pf(conn, mode, d, cutoff, prep, gates):
    return {"sim": "PF", "conn": conn, "mode": mode, "d": d, "cutoff": cutoff, "dtype": "f64",
            "hbar": 2.0, "prep": prep, "gates": gates}


_DISP = {"g": "Displacement", "modes": [0], "p": {"r": 0.3, "phi": 0.7}}
_SQ = {"g": "Squeezing", "modes": [0], "p": {"r": 0.3, "phi": 0.7}}
_BS = {"g": "Beamsplitter", "modes": [1, 0], "p": {"theta": 0.4, "phi": 1.1}}
_IF = {"g": "Interferometer", "modes": [1, 0], "p": {"seed": 7, "kind": "haar"}}
_N11 = {"kind": "number", "occ": [1, 1]}
REGIONS = {
    "regress:G:jax:fidelity+wigner_function": [G_PROBE],
    # fixed anchors of the compiled modes: they always run, whatever the wall-clock budget
    # leaves of the generated compiled-mode cases on a loaded machine
    "probe:primitives": [
        {"prim": "polar", "conn": "jax", "kind": "symplectic", "n": 4, "seed": 3,
         "side": "default", "graph": False},
        {"prim": "polar", "conn": "jax", "kind": "symplectic", "n": 4, "seed": 3,
         "side": "left", "graph": True},
        {"prim": "polar", "conn": "tf", "kind": "symplectic", "n": 4, "seed": 3,
         "side": "left", "graph": False},
        {"prim": "polar", "conn": "tf", "kind": "general", "n": 3, "seed": 4,
         "side": "right", "graph": True},
        {"prim": "fock_rep", "conn": "jax", "kind": "haar", "n": 2, "seed": 5, "cutoff": 4,
         "graph": False},
        {"prim": "fock_rep", "conn": "tf", "kind": "haar", "n": 2, "seed": 5, "cutoff": 4,
         "graph": True},
        {"prim": "assign", "conn": "tf", "kind": "general", "n": 3, "seed": 6,
         "form": "index_matrix", "graph": True},
        {"prim": "assign", "conn": "tf", "kind": "general", "n": 2, "seed": 6,
         "form": "index_matrix_batch", "graph": False},
    ],
    "probe:graph-modes": [
        _pf("tf", "decorated", 1, 4, {"kind": "vacuum"}, [_DISP]),
        _pf("tf", "function", 1, 4, {"kind": "vacuum"}, [_SQ]),
        _pf("tf", "decorated", 2, 3, _N11, [_BS, _IF]),
        _pf("tf", "function", 2, 3, _N11, [_IF, _DISP]),
        _pf("jax", "jit", 2, 3, _N11, [_DISP, _BS]),
    ],
    SQ2_BUCKET: [
        # both Euler decompositions are valid; takagi's U is not unique for the repeated
        # singular value of Squeezing2 and the truncated gate sequence depends on the choice
        {"sim": "PF", "conn": "tf", "mode": "eager", "d": 3, "cutoff": 4, "dtype": "f64",
         "prep": {"kind": "number", "occ": [1, 0, 1]},
         "gates": [{"g": "Squeezing2", "modes": [2, 0], "p": {"r": 0.4, "phi": 2.0}}]},
    ],
    "C09:PF:tf:euler-gates:polar-conjugated": [
        {"sim": "PF", "conn": "tf", "mode": "eager", "d": 1, "cutoff": 3, "dtype": "f64",
         "prep": {"kind": "vacuum"},
         "gates": [{"g": "QuadraticPhase", "modes": [0], "p": {"s": 0.25}}]},
        {"sim": "PF", "conn": "tf", "mode": "eager", "d": 2, "cutoff": 4, "dtype": "f64",
         "prep": {"kind": "vacuum"},
         "gates": [{"g": "Squeezing2", "modes": [0, 1], "p": {"r": 0.3, "phi": 0.7}}]},
        {"sim": "PF", "conn": "tf", "mode": "decorated", "d": 2, "cutoff": 4, "dtype": "f64",
         "prep": {"kind": "number", "occ": [1, 0]},
         "gates": [{"g": "GaussianTransform", "modes": [1, 0], "p": {"seed": 5, "rmax": 0.3}}]},
    ],
    # every instruction class of the region, in both graph modes (function: traceable ones)
    F32_BUCKET: [
        _f32(mode, name) for mode in ("decorated", "function") for name in sorted(F32_GRAPH_GATES)
        if mode == "decorated" or name in TRACEABLE[("PF", "tf", "function")]
    ],
    # ... and everything else of the float32 instruction set passes in the graph modes
    "probe:tf:graph-modes:float32:unaffected": [
        {**_pf("tf", mode, 2, 3, _CSUP, gates), "dtype": "f32"}
        for mode in ("decorated", "function")
        for gates in (
            [{"g": "Phaseshifter", "modes": [1], "p": {"phi": 0.4}}, _BS, _IF],
            [{"g": "Fourier", "modes": [0], "p": {}},
             {"g": "Kerr", "modes": [1], "p": {"xi": 0.3}},
             {"g": "CrossKerr", "modes": [1, 0], "p": {"xi": 0.3}},
             {"g": "SNAP", "modes": [1], "p": {"seed": 762}}]
            + ([{"g": "MachZehnder", "modes": [0, 1], "p": {"int_": 0.3, "ext": 0.9}}]
               if mode == "decorated" else []),
        )
    ],
    "C09:PF:tf:cutoff1:squeezing:tf.range": [
        {"sim": "PF", "conn": "tf", "mode": "eager", "d": 1, "cutoff": 1, "dtype": "f64",
         "prep": {"kind": "vacuum"},
         "gates": [{"g": "Squeezing", "modes": [0], "p": {"r": 0.1, "phi": 0.0}}]},
    ],
}


def region_of(case):
    names = {g["g"] for g in case["gates"]}
    if case["conn"] == "tf":
        if case.get("cutoff") == 1 and names & (EULER_GATES | {"Squeezing"}):
            return "C09:PF:tf:cutoff1:squeezing:tf.range"
        gates = [g["g"] for g in case["gates"]]
        if "Squeezing2" in gates and (case["prep"]["kind"] != "vacuum"
                                      or gates.index("Squeezing2") > 0
                                      or gates.count("Squeezing2") > 1):
            return SQ2_BUCKET
        if (case["mode"] in ("decorated", "function") and case.get("dtype") == "f32"
                and names & F32_GRAPH_GATES):
            return F32_BUCKET
    return None


def region_cases(tier):
    return [{**c, "_region": b} for b, cs in REGIONS.items() for c in cs]


def prop_region(case, ctx):
    try:
        if "prim" in case:
            prop_primitive(case, ctx)
        else:
            prop_program(case, ctx)
    except Violation as v:
        if case["_region"] in PASSTHROUGH:
            raise
        raise Violation(case["_region"], f"[{v.bucket}] {v.message}")


def prop_program(case, ctx):
    sim, conn, mode = case["sim"], case["conn"], case["mode"]
    tag = f"C09:{sim}:{conn}:{mode}"
    region = region_of(case)
    if region and not case.get("_region"):
        ctx.exclude(region)
        ctx.case(case, False, ["excluded_by_finding"])
        return
    if conn not in SIM_CONNS[sim]:
        raise harness.HarnessError(f"{sim} does not document connector {conn}")
    core = core_observables(case)
    extras = extra_observables(case) if mode == "eager" else {}
    ref, err = run_eager(case, "numpy", "eager", {**core, **extras})
    cl = [f"{sim}:{conn}:{mode}", "prep_" + case["prep"]["kind"],
          "dtype_" + case.get("dtype", "f64")]
    cl += sorted({"gate_" + g["g"] for g in case["gates"]})
    if err is not None:
        # the reference itself refuses the program: nothing to compare
        ctx.case(case, False, cl + ["numpy_reference_raises"])
        return
    ctx.case(case, nontrivial(case), cl)
    if mode in COMPILED and mode != "decorated":
        got, err = run_compiled(case, conn, mode, core)
    else:
        got, err = run_eager(case, conn, mode, {**core, **extras})
    if err is not None:
        raise Violation(f"{tag}:execute:raises:{type(err).__name__}",
                        f"NumPy connector runs the program, {conn}/{mode} raises "
                        f"{type(err).__name__}: {short(err)}")
    tol = TOL[case.get("dtype", "f64")]
    order = list(extras)
    k = len(case["gates"]) % max(1, len(order))
    for name in list(core) + order[k:] + order[:k]:
        r, g = ref.get(name), got.get(name)
        if isinstance(r, Exception):
            ctx.count(f"numpy_raises:{name}")
            continue
        if isinstance(g, Exception):
            raise Violation(f"{tag}:{name}:raises:{type(g).__name__}",
                            f"{name} is computed under NumPy but raises under {conn}/{mode}: "
                            f"{type(g).__name__}: {short(g)}")
        scale = float(np.max(np.abs(r))) if np.size(r) else 0.0
        if not np.isfinite(scale):
            ctx.count(f"numpy_nonfinite:{name}")
            continue
        dlt = maxdiff(r, g)
        if dlt > tol * (1 + scale):
            where = ""
            if np.shape(r) == np.shape(g) and np.ndim(r):
                i = np.unravel_index(int(np.nanargmax(np.abs(np.asarray(r, complex)
                                                             - np.asarray(g, complex)))),
                                     np.shape(r))
                where = f" at {tuple(int(x) for x in i)}: numpy={np.asarray(r)[i]!r} " \
                        f"{conn}={np.asarray(g)[i]!r}"
            raise Violation(f"{tag}:{name}",
                            f"max|numpy - {conn}/{mode}| = {dlt:.3e} > {tol:g}*(1+{scale:.3g})"
                            f"{where} (shapes {np.shape(r)} / {np.shape(g)})")


# ------------------------------------------------------------------ strategies

def _gate_names(sim, conn, mode):
    names = list(BOSON_GATES[sim]) if sim in BOSON_GATES else list(FERMI_GATES[sim])
    names = [n for n in names if (sim, conn, n) not in EXCLUDED]
    if mode in ("function", "jit"):
        names = [n for n in names if n in TRACEABLE[(sim, conn, mode)]]
    return names


@st.composite
def fermi_gate(draw, d, names, compiled):
    avail = [n for n in names if d >= 2 or n in ("Interferometer", "Phaseshifter", "Fourier",
                                                 "GaussianHamiltonian")]
    name = draw(st.sampled_from(avail))
    if name == "Interferometer":
        k = draw(st.integers(1, d))
        lo = draw(st.integers(0, d - k))
        return {"g": name, "modes": list(range(lo, lo + k)),
                "p": {"seed": draw(st.integers(0, 2 ** 32)),
                      "kind": draw(st.sampled_from(["haar", "haar", "haar", "perm", "diag",
                                                    "real", "identity"]))}}
    if name == "GaussianHamiltonian":
        modes = draw(progs.ordered_modes(d))
        return {"g": name, "modes": modes,
                "p": {"seed": draw(st.integers(0, 2 ** 32)),
                      "scale": draw(st.sampled_from([0.1, 0.5, 1.0]))}}
    if name in ("Phaseshifter", "Fourier"):
        p = {"phi": draw(progs.angle())} if name == "Phaseshifter" else {}
        return {"g": name, "modes": [draw(st.integers(0, d - 1))], "p": p}
    lo = draw(st.integers(0, d - 2))
    p = {
        "Beamsplitter": lambda: {"theta": draw(progs.angle()), "phi": draw(progs.angle())},
        "Squeezing2": lambda: {"r": draw(progs.angle()), "phi": draw(progs.angle())},
        "IsingXX": lambda: {"phi": draw(progs.angle())},
        "ControlledPhase": lambda: {"phi": draw(progs.angle())},
        "MachZehnder": lambda: {"int_": draw(progs.angle()), "ext": draw(progs.angle())},
        "Beamsplitter5050": lambda: {},
    }[name]()
    return {"g": name, "modes": [lo, lo + 1], "p": p}


@st.composite
def fermi_prep(draw, d, allow_super):
    if allow_super and d >= 2 and draw(st.booleans()):
        parity = draw(st.integers(0, 1))
        pool = [list(o) for o in itertools.product((0, 1), repeat=d) if sum(o) % 2 == parity]
        idx = draw(st.lists(st.integers(0, len(pool) - 1), min_size=2, max_size=2,
                            unique=True))
        terms = []
        for i in idx:
            re = draw(st.floats(-1, 1, allow_nan=False, width=32))
            im = draw(st.floats(-1, 1, allow_nan=False, width=32))
            if abs(re) + abs(im) < 1e-2:
                re = 1.0
            terms.append([pool[i], [re, im]])
        nrm = math.sqrt(sum(a[0] ** 2 + a[1] ** 2 for _, a in terms))
        return {"kind": "superposition",
                "terms": [[o, [a[0] / nrm, a[1] / nrm]] for o, a in terms]}
    occ = draw(st.lists(st.integers(0, 1), min_size=d, max_size=d))
    if sum(occ) == 0 and draw(st.booleans()):
        occ[draw(st.integers(0, d - 1))] = 1
    return {"kind": "number", "occ": occ}


@st.composite
def program_case(draw, conn, mode, sims):
    sim = draw(st.sampled_from(sims))
    compiled = mode in COMPILED
    heavy = mode in ("function", "jit")
    names = _gate_names(sim, conn, mode)
    case = {"sim": sim, "conn": conn, "mode": mode}
    maxg = 3 if heavy else (4 if compiled or conn == "jax" else 6)
    if sim == "PF":
        d = draw(st.integers(1, 2 if heavy else 3))
        cutoff = draw(st.integers(1, 4 if heavy else (5 if conn == "jax" else 6)))
        prep = draw(progs.prep(d, min(cutoff - 1, 3)))
        gates = draw(st.lists(progs.gate(d, names, scale=0.6), min_size=1, max_size=maxg))
        if conn == "tf" and cutoff == 1 and any(
                g["g"] in EULER_GATES | {"Squeezing"} for g in gates):
            cutoff = 2  # region of a confirmed finding (tf.range), see REGIONS
        case.update(d=d, cutoff=cutoff, prep=prep, gates=gates,
                    hbar=draw(st.sampled_from([2.0, 2.0, 1.0, 3.7])))
    elif sim == "G":
        d = draw(st.integers(1, 2 if heavy else 3))
        cutoff = draw(st.integers(1, 3 if heavy else 4))
        gates = draw(st.lists(progs.gate(d, names, scale=0.6), min_size=1, max_size=maxg))
        case.update(d=d, cutoff=cutoff, prep={"kind": "vacuum"}, gates=gates,
                    hbar=draw(st.sampled_from([2.0, 2.0, 1.0, 3.7])))
    elif sim == "P":
        d = draw(st.integers(1, 3 if heavy else 4))
        prep = draw(progs.prep(d, 3, kinds=("number", "number", "superposition")))
        n = progs.prep_max_photons(prep, d)
        gates = draw(st.lists(progs.gate(d, names), min_size=1, max_size=maxg))
        case.update(d=d, cutoff=n + draw(st.sampled_from([1, 1, 2])), prep=prep, gates=gates,
                    probe=draw(st.integers(0, 200)))
    else:
        d = draw(st.integers(1, 3 if heavy else 4))
        prep = draw(fermi_prep(d, allow_super=(sim == "FF")))
        gates = draw(st.lists(fermi_gate(d, names, compiled), min_size=1, max_size=maxg))
        case.update(d=d, prep=prep, gates=gates)
        if sim == "FF":
            nmax = max(sum(o) for o, _ in progs.prep_terms(prep, d))
            if all(g["g"] in FERMI_PASSIVE for g in gates):
                case["cutoff"] = draw(st.sampled_from(sorted({nmax + 1, d + 1, d + 2})))
            else:
                case["cutoff"] = d + 1
    case["dtype"] = draw(st.sampled_from(["f64", "f64", "f64", "f32"])) \
        if sim in ("PF", "G", "P") else "f64"
    if (conn == "tf" and compiled and case["dtype"] == "f32"
            and any(g["g"] in F32_GRAPH_GATES for g in case["gates"])):
        case["dtype"] = "f64"  # region of a confirmed finding, see REGIONS
    if heavy and case["dtype"] == "f64":
        case["trace_arrays"] = draw(st.booleans())
    return case


# ------------------------------------------------------------------ trace support table

def trace_cases(tier):
    out = []
    for (sim, conn, mode), names in sorted(TRACEABLE.items()):
        allg = BOSON_GATES[sim] if sim in BOSON_GATES else FERMI_GATES[sim]
        for name in allg:
            if (sim, conn, name) in EXCLUDED:
                continue
            if tier == "quick" and name not in names:
                continue  # the negative entries are only re-measured in the thorough tier
            out.append({"sim": sim, "conn": conn, "mode": mode, "gate": name})
    if tier == "quick":
        out = out[:: 4]
    return out


def single_gate_case(c):
    sim, name = c["sim"], c["gate"]
    d = 2
    k = progs.ARITY.get(name, None)
    modes = {1: [1], 2: [0, 1], None: [0, 1]}[k if name in progs.ARITY else
                                              (1 if name in ("Phaseshifter", "Fourier") else 2)]
    fixed = {"phi": 0.4, "theta": 0.7, "int_": 0.3, "ext": 0.9, "r": 0.2, "s": 0.15,
             "x": 0.2, "p": 0.1, "xi": 0.3, "gamma": 0.05}
    import hypothesis

    if name in ("IsingXX", "ControlledPhase"):
        p = {"phi": 0.4}
    elif name == "GaussianHamiltonian":
        p = {"seed": 5, "scale": 0.5}
    else:
        p = hypothesis.find(progs.gate_params(name), lambda x: True)
        p = {key: (fixed.get(key, v) if isinstance(v, float) else v) for key, v in p.items()}
        if name == "Interferometer":
            p = {"seed": 5, "kind": "haar"}
        if name in ("GaussianTransform", "SNAP"):
            p = {**p, "seed": 5}
    case = {"sim": sim, "conn": c["conn"], "mode": c["mode"], "d": d,
            "gates": [{"g": name, "modes": modes, "p": p}], "dtype": "f64"}
    if sim == "G":
        case.update(prep={"kind": "vacuum"}, cutoff=3)
    elif sim in ("PF", "P"):
        case.update(prep={"kind": "number", "occ": [1, 1]}, cutoff=3)
    elif sim == "FF":
        case.update(prep={"kind": "number", "occ": [1, 0]}, cutoff=3)
    else:
        case.update(prep={"kind": "number", "occ": [1, 0]})
    return case


def prop_trace_support(c, ctx):
    """The table of instructions that can be traced is a measured fact of the check."""
    case = single_gate_case(c)
    expected = c["gate"] in TRACEABLE[(c["sim"], c["conn"], c["mode"])]
    _, err = run_compiled(case, c["conn"], c["mode"], core_observables(case))
    ok = err is None
    ctx.case(c, True, [f"trace:{c['sim']}:{c['conn']}:{c['mode']}:"
                       f"{'ok' if ok else 'raises'}"])
    if expected and not ok:
        raise Violation(
            f"C09:{c['sim']}:{c['conn']}:{c['mode']}:trace:{c['gate']}",
            f"{c['gate']} used to be traceable under {c['conn']}/{c['mode']}, now raises "
            f"{type(err).__name__}: {short(err)}")
    if not expected and ok:
        ctx.count(f"trace_table_stale:{c['sim']}:{c['conn']}:{c['mode']}:{c['gate']}")


# ------------------------------------------------------------------ primitives

def prop_primitive(case, ctx):
    run_primitive(case, ctx, make_connector, to_numpy)


# ------------------------------------------------------------------ sharding by slice

# (part name, weight): one unit of weight = one shard's worth of work in the quick tier
SLICES = [
    ("prog_tf_eager", 1), ("prim_tf", 1), ("prog_tf_decorated", 1), ("prog_tf_function", 1),
    ("prog_jax_eager", 2), ("prog_jax_jit", 2), ("prim_jax", 1), ("trace_support", 0),
]


def _shares(nshards):
    """{part: {shard: fraction of the part's examples}}; TF slices stay together."""
    units = [n for n, w in SLICES for _ in range(w)]
    U = len(units)
    shares = {n: {} for n, _ in SLICES}
    if nshards <= U:
        for k, n in enumerate(units):
            s = (k * nshards) // U
            shares[n][s] = shares[n].get(s, 0) + 1
    else:
        for s in range(nshards):
            n = units[(s * U) // nshards]
            shares[n][s] = shares[n].get(s, 0) + 1
    for n in shares:
        tot = sum(shares[n].values())
        shares[n] = {s: c / tot for s, c in shares[n].items()}
    return shares


def sliced(name, prop, strategy, examples, budget_s, shrink=True):
    def run(ctx, tier):
        share = _shares(ctx.nshards)[name].get(ctx.shard)
        if not share:
            return
        n = max(1, round(examples[tier] * share))
        sub = Part(name, prop, kind="hyp", strategy=strategy,
                   examples={tier: n * ctx.nshards}, budget_s=budget_s, shrink=shrink)
        harness.run_hyp_part(ctx, sub, tier)

    return Part(name, prop, kind="custom", run=run, budget_s=budget_s)


def trace_part():
    def run(ctx, tier):
        # spread over the shards that already import the framework in question
        sh = _shares(ctx.nshards)
        owners = {"tf": sorted(sh["prog_tf_function"]), "jax": sorted(sh["prog_jax_jit"])}
        seen: set = set()
        for i, c in enumerate(trace_cases(tier)):
            own = owners[c["conn"]]
            if own[i % len(own)] != ctx.shard:
                continue
            if ctx.out_of_time():
                ctx.notes["skipped_time_budget"] += 1
                continue
            v = harness.guarded(prop_trace_support, c, ctx, seen)
            if v is not None:
                ctx.add_failure("trace_support", v.bucket, c, v.message)
                seen.add(v.bucket)

    return Part("trace_support", prop_trace_support, kind="custom", run=run,
                budget_s={"quick": 60, "thorough": 1500})


def findings_part():
    def run(ctx, tier):
        sh = _shares(ctx.nshards)
        seen: set = set()
        for c in region_cases(tier):
            slice_ = "prog_tf_eager" if c["conn"] == "tf" else "prog_jax_eager"
            if min(sh[slice_]) != ctx.shard:
                continue
            v = harness.guarded(prop_region, c, ctx, seen)
            if v is not None:
                ctx.add_failure("findings", v.bucket, c, v.message)
                seen.add(v.bucket)

    return Part("findings", prop_region, kind="custom", run=run,
                budget_s={"quick": 200, "thorough": 600})


def parts(tier):
    B = {"quick": 150, "thorough": 3000}
    return [
        sliced("prog_tf_eager", prop_program, program_case("tf", "eager", ["PF"]),
               {"quick": 40, "thorough": 600}, B),
        sliced("prim_tf", prop_primitive, prim_case("tf"),
               {"quick": 300, "thorough": 5000}, B),
        sliced("prog_tf_decorated", prop_program, program_case("tf", "decorated", ["PF"]),
               {"quick": 16, "thorough": 300}, B, shrink=False),
        sliced("prog_tf_function", prop_program, program_case("tf", "function", ["PF"]),
               {"quick": 16, "thorough": 300}, B, shrink=False),
        sliced("prog_jax_eager", prop_program,
               program_case("jax", "eager", ["PF", "PF", "G", "G", "P", "FG", "FF"]),
               {"quick": 40, "thorough": 600}, B),
        sliced("prog_jax_jit", prop_program,
               program_case("jax", "jit", ["PF", "PF", "G", "P", "FG", "FF"]),
               {"quick": 16, "thorough": 300}, B, shrink=False),
        sliced("prim_jax", prop_primitive, prim_case("jax"),
               {"quick": 300, "thorough": 5000}, B),
        trace_part(),
        findings_part(),
    ]
