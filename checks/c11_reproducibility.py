"""C11 — seeded runs are reproducible and independent of parallel scheduling.

The harness owns the three sources of scheduling it can own:
 1. the job partition of the native permanent: standalone C++ harness with an interposed
    std::thread::hardware_concurrency(), every value in 0..20 and {24,32,48,64,96,128,255},
    built with and without OpenMP;
 2. thread counts: child processes with OMP_NUM_THREADS / NUMBA_NUM_THREADS in {1,2,5,16}
    computing kernel values and seeded samples;
 3. the history of the process between seeding and sampling: generated interleavings of
    other Config/simulator creations, repr/as_code, global RNG use, other executions.
dask's thread scheduler is not owned; it is attacked by repetition.
"""

from __future__ import annotations

import json
import math
import os
import random
import subprocess
import sys
import warnings
from pathlib import Path

import numpy as np
from hypothesis import strategies as st

from lib import aprogs, bootstrap, native_build, progs
from lib.harness import HarnessError, Part, Violation, derive_seed

pq = bootstrap.load()

from piquasso.api.exceptions import NotImplementedCalculation, PiquassoException  # noqa: E402

PID = "C11"
LEVEL = "exploration"
SHARDS = {"quick": 12, "thorough": 16}
VERIF = Path(__file__).resolve().parent.parent
RULE = (
    "partition: PRNG-generated complex matrices (n<=4) and multiplicity vectors (incl. "
    "Gray-code ranges smaller than, equal to and not divisible by the job count) run "
    "through the native permanent / Laplace permanent for every forced "
    "hardware_concurrency value, with and without OpenMP; threads: kernel values and "
    "seeded samples recomputed in child processes with 1/2/5/16 threads; history: "
    "Hypothesis-generated (program, seed, interleaved actions) triples on all samplers, "
    "seed given to the Config constructor or through the seed_sequence setter; dask: mixing "
    "passive boson-sampling programs (lossless/lossy/partially distinguishable) with 1..1100 "
    "shots executed sequentially and twice with use_dask=True, compared shot by shot "
    "(non-trivial = samples vary); "
    "seeds: distinct seeds must give distinct sample sequences when the outcome entropy is "
    ">=1 bit and shots>=16. Non-trivial = job count != default or >=1 interleaved action, "
    "measurement not deterministic. Distinct by hash of the case."
)
ASSUMPTIONS = [
    "kernel values under different partitions / thread counts may differ by reassociation: "
    "tolerance 1e-9 * permanent(|A|) (partition) and 1e-12 relative (threads)",
    "dask's scheduler and OpenMP runtime interleavings are sampled by repetition only",
    "two sample sequences of >=16 shots from a distribution with >=1 bit of entropy collide "
    "with probability < 2^-16; a collision is retried with a third seed before it is reported",
]

HC_QUICK = list(range(0, 21)) + [24, 32, 48, 64, 96, 128, 255]
HC_THOROUGH = list(range(0, 65)) + [96, 128, 255]


# ------------------------------------------------------------------ 1. partition

def build_partition_harness(openmp: bool) -> Path:
    repo = native_build.repo_root()
    src = [VERIF / "native" / "c11_partition_harness.cpp", repo / "src" / "permanent.cpp",
           repo / "src" / "permanent_laplace.cpp"]
    import hashlib

    h = hashlib.sha256()
    for p in src + [repo / "src" / "n_aryGrayCodeCounter.hpp", repo / "src" / "utils.hpp",
                    repo / "src" / "matrix.hpp"]:
        h.update(p.read_bytes())
    out_dir = VERIF / ".build" / "c11"
    out_dir.mkdir(parents=True, exist_ok=True)
    out = out_dir / f"partition_{'omp' if openmp else 'seq'}_{h.hexdigest()[:16]}"
    if out.exists():
        return out
    tmp = out.with_suffix(f".{os.getpid()}.tmp")
    cmd = ["g++", "-O2", "-std=c++17", f"-I{repo / 'src'}"] + (["-fopenmp"] if openmp else ["-Wno-unknown-pragmas"]) \
        + [str(s) for s in src] + ["-o", str(tmp)]
    p = subprocess.run(cmd, capture_output=True, text=True)
    if p.returncode != 0:
        raise HarnessError(f"partition harness build failed: {p.stderr[-2000:]}")
    os.replace(tmp, out)
    return out


def partition_cases(seed, count):
    rng = progs.rng_of(seed)
    cases = []
    for k in range(count):
        n = int(rng.integers(1, 5))
        style = k % 5
        if style == 0:      # tiny ranges: idx_max below the job count
            rows = rng.integers(0, 2, size=n)
        elif style == 1:    # one heavy row
            rows = np.zeros(n, dtype=int)
            rows[int(rng.integers(0, n))] = int(rng.integers(2, 9))
        elif style == 2:    # prime-ish ranges, not divisible by job counts
            rows = rng.choice([0, 1, 2, 4, 6], size=n)
        else:
            rows = rng.integers(0, 4, size=n)
        rows = [int(x) for x in rows]
        if sum(rows) == 0:
            rows[0] = 1
        if sum(rows) > 11:  # keep the long-double Ryser reference cheap
            while sum(rows) > 11:
                i = int(np.argmax(rows))
                rows[i] -= 1
        # column multiplicities: a random vector with the same total
        cols = [0] * n
        for _ in range(sum(rows)):
            cols[int(rng.integers(0, n))] += 1
        a = rng.normal(size=(n, n)) + 1j * rng.normal(size=(n, n))
        if k % 3 == 0:
            a = np.abs(a.real) + 0j
        cases.append({"n": n, "rows": rows, "cols": cols,
                      "a": [[float(z.real), float(z.imag)] for z in a.flatten()]})
    return cases


def partition_enum(tier):
    hcs = HC_QUICK if tier == "quick" else HC_THOROUGH
    count = {"quick": 240, "thorough": 6000}[tier]
    seed = derive_seed(os.environ.get("VERIF_SEED", "1"), "partition")
    return [{**c, "hcs": hcs} for c in partition_cases(seed, count)]


def prop_partition(case, ctx):
    check_partition_cases(ctx, [case], case["hcs"])


def check_partition_cases(ctx, cases, hcs):
    lines = []
    for c in cases:
        flat = " ".join(f"{re!r} {im!r}" for re, im in c["a"])
        lines.append(f"{c['n']} {' '.join(map(str, c['rows']))} {' '.join(map(str, c['cols']))} {flat}")
    for openmp in (True, False):
        exe = build_partition_harness(openmp)
        for omp_threads in (["1", "3"] if openmp else ["1"]):
            env = dict(os.environ, OMP_NUM_THREADS=omp_threads)
            p = subprocess.run([str(exe)] + [str(h) for h in hcs], input="\n".join(lines) + "\n",
                               capture_output=True, text=True, env=env, timeout=1200)
            if p.returncode != 0:
                raise Violation(f"C11:partition:harness-crash:{'omp' if openmp else 'seq'}",
                                f"exit {p.returncode}: {p.stderr[-500:]}")
            import re as _re

            # printf prints non-finite values as nan / -nan / inf: make them JSON
            outs = []
            for line in p.stdout.splitlines():
                if not line.strip():
                    continue
                try:
                    outs.append(json.loads(_re.sub(r"-?nan|-?inf", "NaN", line)))
                except json.JSONDecodeError:
                    # the library wrote a diagnostic of its own into the output (e.g.
                    # "n_aryGrayCodeCounter::initialize: Wrong value of initial_offset"):
                    # the partition handed an impossible job to the Gray-code counter
                    m = _re.search(r"[A-Za-z_:]+: [A-Za-z ]{8,80}", line)
                    raise Violation(
                        f"C11:partition:kernel-diagnostic:{'omp' if openmp else 'seq'}",
                        f"forced hardware_concurrency values {hcs}: the native kernel printed "
                        f"{(m.group(0) if m else line[-120:])!r}")
            if len(outs) != len(cases):
                raise HarnessError("partition harness output truncated")
            for c, o in zip(cases, outs):
                check_partition_output(ctx, c, o, openmp, omp_threads)


def far(x, y, tol):
    """NaN-safe: a non-finite value is never close to anything."""
    return not (abs(x - y) <= tol)


def check_partition_output(ctx, case, out, openmp, omp_threads):
    ref = complex(*out["ref"])
    scale = max(float(out["scale"]), 1e-300)
    tol = 1e-9 * scale
    base = None
    idx_max = 1
    for r in case["rows"][1:]:
        idx_max *= r + 1
    for res in out["results"]:
        hc = res["hc"]
        jobs = min(4 * hc, idx_max)
        val = complex(*res["perm"])
        lap = [complex(*z) for z in res["laplace"]]
        ctx.case([case["n"], case["rows"], case["cols"], hc, openmp, omp_threads],
                 nontrivial=(case["n"] >= 2 and idx_max >= 2 and hc != 1),
                 classes=[f"partition_{'omp' if openmp else 'seq'}",
                          "jobs_lt_range" if jobs < idx_max else "jobs_eq_range",
                          "range_not_divisible" if jobs and idx_max % max(jobs, 1) else "range_divisible"])
        key = {"case": case, "hc": hc, "openmp": openmp}
        if hc == 0:
            if far(val, ref, tol):
                raise Violation("C11:partition:hardware_concurrency-0:permanent",
                                f"hardware_concurrency()==0 (allowed by the standard): permanent "
                                f"{val} instead of {ref} for rows={case['rows']} cols={case['cols']}")
            continue
        if far(val, ref, tol):
            raise Violation("C11:partition:permanent-vs-definition",
                            f"hc={hc} jobs={jobs} idx_max={idx_max}: {val} vs {ref} "
                            f"(rows={case['rows']} cols={case['cols']}) {json.dumps(key)[:300]}")
        if base is None:
            base = (val, lap)
        else:
            if far(val, base[0], tol):
                raise Violation("C11:partition:permanent-depends-on-job-count",
                                f"hc={hc}: {val} vs {base[0]} at hc of the first run")
            if len(lap) != len(base[1]) or any(far(x, y, tol) for x, y in zip(lap, base[1])):
                raise Violation("C11:partition:laplace-depends-on-job-count",
                                f"hc={hc} jobs={jobs} idx_max={idx_max}: {lap} vs {base[1]} "
                                f"(rows={case['rows']} cols={case['cols']})")


# ------------------------------------------------------------------ 2. thread counts

CHILD = r'''
import json, sys, os
sys.path.insert(0, %(verif)r)
from lib import bootstrap, progs, aprogs
pq = bootstrap.load(threads=None)
import numpy as np, warnings
warnings.simplefilter("ignore")
from piquasso._math.permanent import permanent
from piquasso._math.hafnian import hafnian_with_reduction, loop_hafnian_with_reduction, loop_hafnian_with_reduction_batch
from piquasso._math.torontonian import torontonian
cases = json.load(open(sys.argv[1]))
out = {"kernels": [], "samples": []}
for seed in cases["kernel_seeds"]:
    rng = progs.rng_of(seed)
    n = 3 + seed %% 3
    a = rng.normal(size=(n, n)) + 1j * rng.normal(size=(n, n))
    occ = rng.integers(0, 3, size=n)
    occ[0] = max(occ[0], 1)
    s = a + a.T
    m = rng.normal(size=(2 * n, 2 * n)); tor_in = (m @ m.T) / (16 * n)
    vals = [permanent(a, occ, np.roll(occ, 1)),
            hafnian_with_reduction(s, occ),
            loop_hafnian_with_reduction(s, np.diag(s).copy(), occ),
            complex(torontonian(tor_in))]
    occ0 = occ.copy(); occ0[-1] = 0   # the batch varies the occupation of the last mode
    batch = loop_hafnian_with_reduction_batch(s, np.diag(s).copy(), occ0, 3)
    out["kernels"].append([[complex(v).real, complex(v).imag] for v in vals] +
                          [[complex(v).real, complex(v).imag] for v in batch])
for desc in cases["programs"]:
    program, sim = aprogs.build(pq, desc, seed_sequence=desc["seed"], use_dask=desc.get("use_dask", False))
    res = sim.execute(program, shots=desc["shots"])
    out["samples"].append([[float(x) for x in s] for s in res.samples])
json.dump(out, open(sys.argv[2], "w"))
'''


def sampling_programs(seed, count):
    """Deterministic list of small sampling programs (one per sampler family)."""
    rng = progs.rng_of(seed)
    out = []
    for k in range(count):
        fam = k % 4
        s = int(rng.integers(0, 2**31))
        if fam == 0:
            desc = {"sim": "P", "d": 3, "cutoff": 4, "prep": {"kind": "number", "occ": [1, 1, 1]},
                    "steps": [{"k": "gate", "g": "Interferometer", "modes": [0, 1, 2],
                               "p": {"seed": s, "kind": "haar"}},
                              {"k": "measure", "m": "ParticleNumberMeasurement",
                               "modes": [0, 1, 2], "p": {}}]}
        elif fam == 1:
            desc = {"sim": "G", "d": 2, "cutoff": 4, "prep": {"kind": "vacuum"},
                    "steps": [{"k": "gate", "g": "Squeezing", "modes": [0], "p": {"r": 0.5, "phi": 0.3}},
                              {"k": "gate", "g": "Beamsplitter", "modes": [0, 1],
                               "p": {"theta": 0.7, "phi": 0.1}},
                              {"k": "measure", "m": ["ParticleNumberMeasurement", "ThresholdMeasurement",
                                                     "HeterodyneMeasurement"][k // 4 % 3],
                               "modes": [0, 1], "p": {}}]}
        elif fam == 2:
            desc = {"sim": "PF", "d": 2, "cutoff": 4, "prep": {"kind": "number", "occ": [2, 1]},
                    "steps": [{"k": "gate", "g": "Beamsplitter", "modes": [1, 0],
                               "p": {"theta": 0.9, "phi": 0.4}},
                              {"k": "measure", "m": "ParticleNumberMeasurement", "modes": [0, 1],
                               "p": {}}]}
        else:
            desc = {"sim": "P", "d": 3, "cutoff": 3, "prep": {"kind": "number", "occ": [1, 0, 1]},
                    "steps": [{"k": "gate", "g": "Interferometer", "modes": [2, 0, 1],
                               "p": {"seed": s, "kind": "haar"}},
                              {"k": "measure", "m": "ParticleNumberMeasurement", "modes": [2, 0],
                               "p": {}}], "use_dask": bool(k // 4 % 2)}
        desc["seed"] = int(rng.integers(0, 2**31))
        desc["shots"] = 12
        out.append(desc)
    return out


def threads_enum(tier):
    n = {"quick": 6, "thorough": 48}[tier]
    base = derive_seed(os.environ.get("VERIF_SEED", "1"), "threads")
    out = []
    for i in range(n):
        out.append({"kernel_seeds": [int((base + 7 * i + k) % 2**31) for k in range(2)],
                    "programs": sampling_programs(base + i, 4),
                    "threads": ["1", ["2", "5", "16"][i % 3]]})
    return out


def prop_threads(cases, ctx):
    import tempfile

    results = {}
    thread_counts = cases["threads"]
    with tempfile.TemporaryDirectory(dir=str(VERIF / ".build")) as td:
        cin = Path(td) / "cases.json"
        cin.write_text(json.dumps(cases))
        script = Path(td) / "child.py"
        script.write_text(CHILD % {"verif": str(VERIF)})
        for t in thread_counts:
            env = dict(os.environ, OMP_NUM_THREADS=t, NUMBA_NUM_THREADS=t,
                       OPENBLAS_NUM_THREADS=t, MKL_NUM_THREADS=t)
            cout = Path(td) / f"out{t}.json"
            p = subprocess.run([sys.executable, str(script), str(cin), str(cout)], env=env,
                               capture_output=True, text=True, timeout=1500)
            if p.returncode != 0:
                raise HarnessError(f"thread child failed ({t} threads): {p.stderr[-1500:]}")
            results[t] = json.loads(cout.read_text())
    ref_t = thread_counts[0]
    for t in thread_counts[1:]:
        for i, (a, b) in enumerate(zip(results[ref_t]["kernels"], results[t]["kernels"])):
            ctx.case(["threads-kernel", cases["kernel_seeds"][i], t], True, ["threads_kernels"])
            for j, (x, y) in enumerate(zip(a, b)):
                x, y = complex(*x), complex(*y)
                if abs(x - y) > 1e-12 * (1 + abs(x)):
                    raise Violation("C11:threads:kernel-value-depends-on-thread-count",
                                    f"kernel #{j} seed {cases['kernel_seeds'][i]}: {x} with "
                                    f"{ref_t} threads, {y} with {t}")
        for i, (a, b) in enumerate(zip(results[ref_t]["samples"], results[t]["samples"])):
            d = cases["programs"][i]
            ctx.case(["threads-samples", d, t], True, [f"threads_samples_{d['sim']}"])
            if a != b:
                raise Violation(f"C11:threads:samples-depend-on-thread-count:{d['sim']}",
                                f"program {json.dumps(d)[:300]}: samples differ between "
                                f"{ref_t} and {t} threads")


# ------------------------------------------------------------------ 3. history

ACTIONS = ["new_config", "new_seeded_config", "new_simulator", "repr_simulator", "as_code",
           "random_random", "random_seed", "np_random_seed", "np_random_draw",
           "execute_other_seeded", "copy_config", "validate_program", "config_repr"]


@st.composite
def history_case(draw):
    sim = draw(st.sampled_from(["PF", "P", "G", "F", "PF", "P"]))
    desc = draw(aprogs.adaptive_program(sim, allow_postselect=False, final_measure=True,
                                        dmax=3))
    seed = draw(st.one_of(st.sampled_from([0, 1, 2, 7, 2**31 - 1, 2**63]),
                          st.integers(0, 2**32)))
    actions = draw(st.lists(st.sampled_from(ACTIONS), min_size=0, max_size=4))
    shots = draw(st.sampled_from([1, 5, 16]))
    use_dask = sim in ("P", "G") and draw(st.integers(0, 3)) == 0
    if use_dask and draw(st.booleans()):
        shots = draw(st.sampled_from([300, 600]))  # beyond any internal batch size
    return {"desc": desc, "seed": seed, "actions": actions, "shots": shots, "use_dask": use_dask,
            "via_setter": draw(st.integers(0, 3)) == 0}


def do_action(name, desc):
    if name == "new_config":
        pq.Config()
    elif name == "new_seeded_config":
        pq.Config(seed_sequence=12345)
    elif name == "new_simulator":
        pq.PureFockSimulator(d=2)
    elif name == "repr_simulator":
        repr(pq.GaussianSimulator(d=2, config=pq.Config(cutoff=3)))
    elif name == "as_code":
        with pq.Program() as p:
            pq.Q(0) | pq.Phaseshifter(0.1)
        pq.as_code(p, pq.PureFockSimulator(d=1), shots=1)
    elif name == "random_random":
        random.random()
    elif name == "random_seed":
        random.seed(99)
    elif name == "np_random_seed":
        np.random.seed(5)
    elif name == "np_random_draw":
        np.random.normal(size=3)
    elif name == "execute_other_seeded":
        with pq.Program() as p:
            pq.Q() | pq.NumberState([1, 1])
            pq.Q(0, 1) | pq.Beamsplitter(0.5, 0.1)
            pq.Q(0, 1) | pq.ParticleNumberMeasurement()
        pq.PureFockSimulator(d=2, config=pq.Config(cutoff=3, seed_sequence=777)).execute(p, shots=3)
    elif name == "copy_config":
        pq.Config(seed_sequence=3).copy()
    elif name == "validate_program":
        with pq.Program() as p:
            pq.Q(0) | pq.Phaseshifter(0.1)
        pq.PureFockSimulator(d=1).validate(p)
    elif name == "config_repr":
        repr(pq.Config(hbar=1.0))


def sample_run(desc, seed, shots, use_dask, actions=(), via_setter=False):
    if via_setter:
        # the seed is assigned through the public property after the Config was created
        program, _ = aprogs.build(pq, desc, use_dask=use_dask)
        config = pq.Config(cutoff=desc["cutoff"], hbar=desc.get("hbar", 2.0), use_dask=use_dask)
        config.seed_sequence = seed
        sim = type(_)(d=desc["d"], config=config)
    else:
        program, sim = aprogs.build(pq, desc, seed_sequence=seed, use_dask=use_dask)
    for a in actions:
        do_action(a, desc)
    res = sim.execute(program, shots=shots)
    return [tuple(float(x) for x in s) for s in res.samples]


def prop_history(case, ctx):
    desc, seed, shots = case["desc"], case["seed"], case["shots"]
    if not aprogs.has_sampling(desc):
        ctx.count("no_measurement")
        return
    if desc["sim"] == "P" and aprogs.kerr_after_measurement(desc):
        ctx.exclude("C13:valid-crash:P:kerr-after-measurement")
        return
    with warnings.catch_warnings():
        warnings.simplefilter("ignore")
        try:
            vs = case.get("via_setter", False)
            a = sample_run(desc, seed, shots, case["use_dask"], via_setter=vs)
            b = sample_run(desc, seed, shots, case["use_dask"], case["actions"], via_setter=vs)
            c = sample_run(desc, seed, shots, False) if case["use_dask"] else None
            if vs:
                a0 = sample_run(desc, seed, shots, case["use_dask"])
        except NotImplementedCalculation:
            ctx.count("documented_unsupported")
            return
    sim = desc["sim"]
    deterministic = len(set(a)) <= 1 and shots > 4
    ctx.case(case, len(case["actions"]) >= 1 and not deterministic,
             [f"hist_{sim}", "seed_special" if seed in (0, 1, 2, 7, 2**31 - 1, 2**63) else "seed_drawn"]
             + (["dask"] if case["use_dask"] else [])
             + (["dask_many_shots"] if case["use_dask"] and shots >= 300 else []))
    if case.get("via_setter"):
        cl_extra = "seed_via_setter"
        ctx.count(cl_extra)
        if a != a0:
            raise Violation(f"C11:seed-setter:{sim}:differs-from-constructor-seeding",
                            f"seed {seed}: Config.seed_sequence = s after construction gives "
                            f"{a[:3]}, Config(seed_sequence=s) gives {a0[:3]}")
    if a != b:
        culprit = case["actions"]
        raise Violation(f"C11:history:{sim}:samples-depend-on-interleaved-actions",
                        f"seed {seed}, shots {shots}: samples differ after interleaving "
                        f"{culprit}: {a[:4]} vs {b[:4]}")
    if c is not None and a != c:
        raise Violation(f"C11:dask:{sim}:samples-differ-from-sequential",
                        f"seed {seed}: use_dask=True gives {a[:4]}, sequential {c[:4]}")
    if case["use_dask"]:
        for _ in range(3):
            with warnings.catch_warnings():
                warnings.simplefilter("ignore")
                r = sample_run(desc, seed, shots, True, via_setter=case.get("via_setter", False))
            if r != a:
                raise Violation(f"C11:dask:{sim}:samples-differ-between-runs",
                                f"seed {seed}: repeated use_dask=True runs differ")


# ------------------------------------------------------------------ 3b. dask vs sequential

@st.composite
def dask_case(draw):
    """Mixing passive boson-sampling programs (lossless, lossy, partially distinguishable)
    whose samples genuinely vary, run with shot counts on both sides of typical batch sizes."""
    d = draw(st.integers(2, 4))
    n = draw(st.integers(1, 3))
    occ = [0] * d
    for _ in range(n):
        occ[draw(st.integers(0, d - 1))] += 1
    loss = draw(st.sampled_from(["none", "none", "uniform", "input", "output"]))
    etas = [draw(st.sampled_from([1.0, 0.9, 0.6, 0.3])) for _ in range(d)]
    overlap = draw(st.sampled_from([None, None, 1.0, 0.0, 0.5]))
    if loss in ("input", "output") and overlap not in (None, 1.0):
        overlap = None
    k = draw(st.integers(1, d))
    return {"d": d, "occ": occ, "useed": draw(st.integers(0, 2**32)),
            "ukind": draw(st.sampled_from(["haar", "haar", "real"])),
            "loss": loss, "etas": etas, "overlap": overlap,
            "modes": draw(progs.ordered_modes(d, k)),
            "shots": draw(st.one_of(st.sampled_from([2, 17, 64, 65, 128, 129, 255, 256, 257,
                                                     300, 512, 513, 600, 1025]),
                                    st.integers(1, 1100))),
            "seed": draw(st.one_of(st.sampled_from([0, 1, 2**31 - 1, 2**63]),
                                   st.integers(0, 2**32))),
            "via_setter": draw(st.integers(0, 3)) == 0,
            "family": draw(st.sampled_from(["P", "P", "G"])),
            "gmeas": draw(st.sampled_from(["pnm", "threshold", "threshold_tor"])),
            "grs": [draw(st.sampled_from([0.3, 0.5, 0.7])) for _ in range(4)]}


def dask_run_gaussian(case, use_dask):
    d = case["d"]
    u = progs.haar_unitary(d, case["useed"], case["ukind"])
    with pq.Program() as prog:
        pq.Q() | pq.Vacuum()
        for m in range(d):
            pq.Q(m) | pq.Squeezing(case["grs"][m], 0.3 * m)
        pq.Q(*range(d)) | pq.Interferometer(u)
        meas = pq.ParticleNumberMeasurement() if case["gmeas"] == "pnm" else \
            pq.ThresholdMeasurement()
        pq.Q(*(case["modes"] if case["gmeas"] == "pnm" else sorted(case["modes"]))) | meas
    kw = dict(use_dask=use_dask, measurement_cutoff=4,
              use_torontonian=case["gmeas"] == "threshold_tor")
    if case["via_setter"]:
        config = pq.Config(**kw)
        config.seed_sequence = case["seed"]
    else:
        config = pq.Config(seed_sequence=case["seed"], **kw)
    shots = min(case["shots"], 300)
    res = pq.GaussianSimulator(d=d, config=config).execute(prog, shots=shots)
    return [tuple(int(x) for x in s) for s in res.samples]


def dask_run(case, use_dask):
    if case.get("family") == "G":
        return dask_run_gaussian(case, use_dask)
    d, occ = case["d"], case["occ"]
    u = progs.haar_unitary(d, case["useed"], case["ukind"])
    with pq.Program() as prog:
        if case["overlap"] is None:
            pq.Q() | pq.NumberState(occ)
        else:
            pq.Q() | pq.DistinguishableNumberState(occ, particle_overlap=case["overlap"])
        if case["loss"] == "input":
            for m in range(d):
                pq.Q(m) | pq.Loss(math.sqrt(case["etas"][m]))
        pq.Q(*range(d)) | pq.Interferometer(u)
        if case["loss"] == "output":
            for m in range(d):
                pq.Q(m) | pq.Loss(math.sqrt(case["etas"][m]))
        if case["loss"] == "uniform":
            pq.Q() | pq.UniformLoss(math.sqrt(case["etas"][0]))
        pq.Q(*case["modes"]) | pq.ParticleNumberMeasurement()
    if case["via_setter"]:
        config = pq.Config(use_dask=use_dask)
        config.seed_sequence = case["seed"]
    else:
        config = pq.Config(use_dask=use_dask, seed_sequence=case["seed"])
    res = pq.PassiveSimulator(d=d, config=config).execute(prog, shots=case["shots"])
    return [tuple(int(x) for x in s) for s in res.samples]


def prop_dask(case, ctx):
    with warnings.catch_warnings():
        warnings.simplefilter("ignore")
        seq = dask_run(case, False)
        par = dask_run(case, True)
        par2 = dask_run(case, True)
    shots = case["shots"]
    fam = case.get("family", "P")
    if fam == "G":
        shots = min(shots, 300)
    varied = len(set(seq)) > 1
    ctx.case(case, varied,
             [f"dask_family_{fam}", "dask_shots_" + ("le64" if shots <= 64 else "le256" if shots <= 256 else
                               "le512" if shots <= 512 else "gt512"),
              "dask_loss_" + case["loss"],
              "dask_overlap_" + str(case["overlap"])]
             + (["seed_via_setter"] if case["via_setter"] else []))
    if len(par) != shots or len(seq) != shots:
        raise Violation(f"C11:dask:{fam}:sample-count",
                        f"{shots} shots requested, sequential gives {len(seq)}, dask {len(par)}")
    # known finding: with uniform transmission < 1 the loss decisions are drawn from the
    # generator shared by all shots instead of the per-shot one, so concurrently running
    # dask tasks race for it; every other passive sampling path is judged strictly
    eff = [case["etas"][0]] * case["d"] if case["loss"] == "uniform" else case["etas"]
    if fam == "P" and case["loss"] != "none" and len(set(eff)) == 1 and eff[0] < 1.0:
        ctx.count("dask_uniformly_lossy_region")
        if par != seq or par2 != par:
            raise Violation("C11:dask:P:uniformly-lossy:shared-generator-race",
                            f"seed {case['seed']}, {shots} shots, uniform transmission "
                            f"{eff[0]}: dask==sequential {par == seq}, dask==dask {par2 == par}")
        return
    if par != seq:
        i = next(i for i, (x, y) in enumerate(zip(par, seq)) if x != y)
        raise Violation(f"C11:dask:{fam}:samples-differ-from-sequential",
                        f"seed {case['seed']}, {shots} shots: first difference at shot {i}: "
                        f"dask {par[i]}, sequential {seq[i]}")
    if par2 != par:
        raise Violation(f"C11:dask:{fam}:samples-differ-between-runs",
                        f"seed {case['seed']}, {shots} shots: repeated use_dask=True runs differ")


# ------------------------------------------------------------------ 4. seeds matter

@st.composite
def seeds_case(draw):
    sim = draw(st.sampled_from(["PF", "P", "G", "F"]))
    d = 3
    if sim == "G":
        desc = {"sim": "G", "d": 2, "cutoff": 4, "prep": {"kind": "vacuum"},
                "steps": [{"k": "gate", "g": "Squeezing", "modes": [0],
                           "p": {"r": draw(st.sampled_from([0.6, 0.9])), "phi": 0.3}},
                          {"k": "gate", "g": "Beamsplitter", "modes": [0, 1],
                           "p": {"theta": 0.7, "phi": 0.1}},
                          {"k": "measure", "m": draw(st.sampled_from(
                              ["ParticleNumberMeasurement", "ThresholdMeasurement",
                               "HeterodyneMeasurement", "HomodyneMeasurement"])),
                           "modes": [0, 1], "p": {"phi": 0.0}}]}
    else:
        desc = {"sim": sim, "d": d, "cutoff": 4, "prep": {"kind": "number", "occ": [1, 1, 1]},
                "steps": [{"k": "gate", "g": "Interferometer", "modes": [0, 1, 2],
                           "p": {"seed": draw(st.integers(0, 2**20)), "kind": "haar"}},
                          {"k": "measure", "m": "ParticleNumberMeasurement",
                           "modes": draw(st.sampled_from([[0, 1, 2], [2, 0], [1]])), "p": {}}]}
    s1 = draw(st.one_of(st.sampled_from([0, 1, 2, 7, 2**31 - 1, 2**63]), st.integers(0, 2**32)))
    s2 = draw(st.integers(0, 2**32).filter(lambda x: x != s1))
    return {"desc": desc, "s1": s1, "s2": s2, "s3": draw(st.integers(2**33, 2**34))}


def prop_seeds(case, ctx):
    desc = case["desc"]
    shots = 24
    with warnings.catch_warnings():
        warnings.simplefilter("ignore")
        a1 = sample_run(desc, case["s1"], shots, False)
        a1b = sample_run(desc, case["s1"], shots, False)
        a2 = sample_run(desc, case["s2"], shots, False)
    counts = {}
    for s in a1 + a2:
        counts[s] = counts.get(s, 0) + 1
    total = sum(counts.values())
    entropy = -sum(c / total * math.log2(c / total) for c in counts.values())
    ctx.case(case, entropy >= 1.0, [f"seeds_{desc['sim']}", "entropy_ge_1" if entropy >= 1 else "entropy_lt_1"])
    if a1 != a1b:
        raise Violation(f"C11:seeds:{desc['sim']}:same-seed-different-samples",
                        f"seed {case['s1']}: two fresh simulators give {a1[:3]} and {a1b[:3]}")
    if entropy >= 1.0 and a1 == a2:
        with warnings.catch_warnings():
            warnings.simplefilter("ignore")
            a3 = sample_run(desc, case["s3"], shots, False)
        if a3 == a1:
            raise Violation(f"C11:seeds:{desc['sim']}:different-seeds-same-samples",
                            f"seeds {case['s1']}, {case['s2']}, {case['s3']} give identical "
                            f"{shots}-shot sequences (empirical entropy {entropy:.2f} bits)")


def seed_zero_cases(tier):
    return [{"sim": s} for s in ("PF", "P", "G", "F")]


def prop_seed_zero(case, ctx):
    """Config(seed_sequence=0) must be honoured (regression of the fixed finding)."""
    ctx.case(case, True, ["seed_zero"])
    desc = {"sim": case["sim"], "d": 3, "cutoff": 4, "prep": {"kind": "number", "occ": [1, 1, 1]},
            "steps": [{"k": "gate", "g": "Interferometer", "modes": [0, 1, 2],
                       "p": {"seed": 5, "kind": "haar"}},
                      {"k": "measure", "m": "ParticleNumberMeasurement", "modes": [0, 1, 2], "p": {}}]}
    if case["sim"] == "G":
        desc["prep"] = {"kind": "vacuum"}
        desc["steps"].insert(0, {"k": "gate", "g": "Squeezing", "modes": [0],
                                 "p": {"r": 0.8, "phi": 0.0}})
    with warnings.catch_warnings():
        warnings.simplefilter("ignore")
        runs = [sample_run(desc, 0, 20, False) for _ in range(3)]
    if not (runs[0] == runs[1] == runs[2]):
        raise Violation("C11:seed-zero-ignored",
                        f"{case['sim']}: three simulators with Config(seed_sequence=0) give "
                        f"different samples")


def parts(tier):
    return [
        Part("seed_zero", prop_seed_zero, kind="enum", cases=seed_zero_cases),
        Part("partition", prop_partition, kind="enum", cases=partition_enum,
             budget_s={"quick": 200, "thorough": 2400}),
        Part("history", prop_history, strategy=history_case(),
             examples={"quick": 500, "thorough": 8000}),
        Part("dask", prop_dask, strategy=dask_case(),
             examples={"quick": 160, "thorough": 3000}),
        Part("seeds", prop_seeds, strategy=seeds_case(),
             examples={"quick": 160, "thorough": 3000}),
        Part("threads", prop_threads, kind="enum", cases=threads_enum,
             budget_s={"quick": 300, "thorough": 2400}),
    ]
