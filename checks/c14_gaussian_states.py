"""C14 — Gaussian states are hbar-invariant and representation-consistent.

Parts

* ``roundtrip``  a physical state (lib/gaussian_gen.py: pure / mixed / degenerate, displaced
                 or not, d <= 4) is loaded through one of four routes (Mean/Covariance
                 instructions, xpxp setters, xxpp setters, gates-free `_from_representation`
                 is NOT used) under a drawn hbar; every representation getter (xpxp, xxpp,
                 correlation, complex, ladder moments m/C/G, ladder and xp string moments)
                 must equal the harness' own conversion from (mu, sigma); setters o getters
                 = id; reduced(any ordered subset), rotated(phi),
                 xpxp_reduced_rotated_mean_and_covariance against own index / rotation
                 code; closed-form observables of the generated state (purity = 1/prod nu,
                 mean / variance of photon number, parity, vacuum and threshold
                 probabilities by inclusion-exclusion, fidelity with a pure state
                 = Tr rho1 rho2, quadratic polynomials, single-mode Wigner function,
                 phase-shifter expectation value for one / distinct / equal angles from
                 the Weyl symbol of z^n).
* ``hbar``       the same dimensionless state under two values of hbar: every dimensionless
                 observable agrees; means ~ sqrt(hbar), covariances ~ hbar, xp-string
                 moments of degree k ~ hbar^(k/2), Wigner function ~ hbar^-d at rescaled
                 points; photon-number samples with equal seed are identical.
* ``anchors``    vacuum, (products of) coherent and single-mode squeezed states prepared
                 with gates under a drawn hbar: closed-form value of every observable, so
                 a consistently wrong factor cannot hide; histograms of 300 photon-number
                 samples of coherent / thermal / squeezed modes against the exact law.
* ``defects``    22 deterministic probes: regress cases of three repaired defects
                 (multi-mode phase-shifter expectation value 93096e1, get_purity / is_pure
                 under hbar != 2 0adf6f4, photon-number sampling under hbar != 2 38a8cd7;
                 these are asserted again in the parts above) and of the one region still
                 excluded by construction above because the code is wrong there: the
                 multi-mode Wigner function (known finding
                 C14:defect:wigner:multimode-point-ordering).
"""

from __future__ import annotations

import itertools
import math

import numpy as np
from hypothesis import strategies as st

from lib import bootstrap, progs
from lib import gaussian_gen as gg
from lib.harness import Part, Violation

pq = bootstrap.load()

from piquasso._math.fock import get_fock_space_basis  # noqa: E402  (enumeration order: C06)

PID = "C14"
LEVEL = "exploration"
SHARDS = {"quick": 8, "thorough": 16}
RULE = (
    "state = hbar * S diag(nu,nu) S^T with nu_i in {1} u [1,4] (kinds pure / mixed / partial / "
    "degenerate / thermal / vacuum), S a product of <= 2 layers of Haar interferometers and "
    "squeezers |r| <= 1.2, mean 0 or drawn N(0,1), d <= 4, hbar in {0.1,0.5,1,2,3.7,10}; "
    "roundtrip adds a loading route, an ORDERED mode subset (permutation prefix) and a rotation "
    "angle; hbar adds a second hbar, a second state (fidelity) and seeds for occupation numbers, "
    "angles (distinct per mode), operator strings, phase-space points and 12 equal-seed "
    "photon-number shots on all modes in a drawn order (pure states); anchors: vacuum / coherent product / single-mode "
    "squeezed (+displaced) with drawn parameters, and 300-shot sample histograms of a coherent / "
    "thermal / squeezed mode. Non-trivial = mixed or displaced "
    "state with inter-mode correlations and hbar != 2 (roundtrip, hbar), any non-vacuum anchor "
    "with hbar != 2; distinct by the full case description."
)
ASSUMPTIONS = [
    "lib/gaussian_gen.py conversions (written from x = sqrt(hbar/2)(a + a^+), sigma = <{dY,dY}>) and "
    "numpy linear algebra are the reference; they never call piquasso",
    "closed forms used as anchors: Poisson / squeezed-vacuum number statistics, Tr(rho1 rho2) overlap "
    "formula for Gaussian states, inclusion-exclusion over vacuum probabilities for threshold "
    "detection, Wick's theorem with the ordered two-point function sigma/2 + i hbar Omega/2, the Weyl "
    "symbol 2/(1+z) exp(-(1-z)/(1+z) (x^2+p^2)) of z^n for the phase-shifter expectation value "
    "(square root continued numerically from z = 1; validated against Fock sums)",
    "sample histograms: total variation > 0.25 at 300 shots / 10 bins has probability < 1e-13 under the "
    "exact law; equal-seed sample paths are compared only for pure states measured on all modes (for mixed "
    "or reduced states the "
    "sampler's Williamson matrix is unique only up to a rotation per mode, so only the distribution is "
    "determined)",
    "piquasso's Fock-basis enumeration order (checked by C06) is used to index fock_probabilities and "
    "density_matrix",
    "multi-mode wigner_function (point assembled in xxpp order, moments in xpxp order) is only probed "
    "by the `defects` part and its hbar scaling (known finding "
    "C14:defect:wigner:multimode-point-ordering); everything else is asserted in the search parts",
]
# fractions of ALL evaluations of a quiet full run (observed: 0.15, 0.085, 0.06)
FLOORS = {
    "rt:nontrivial": 0.05,
    "hb:nontrivial": 0.03,
    "rt:subset_nonascending": 0.02,
    "hb:samples:compared": 0.03,
    "an:samples": 0.03,
}
HBARS = list(gg.HBARS)
EPS = float(np.finfo(float).eps)


def maxabs(x) -> float:
    x = np.asarray(x)
    return float(np.max(np.abs(x))) if x.size else 0.0


def opnorm(m) -> float:
    return float(np.linalg.norm(np.asarray(m), 2))


# --------------------------------------------------------------------------------------
# loading


def new_state(d, hbar, cutoff=4):
    sim = pq.GaussianSimulator(d=d, config=pq.Config(hbar=hbar, cutoff=cutoff))
    return sim.execute(pq.Program(instructions=[pq.Vacuum()])).state


def load_state(desc, hbar, route="instr", cutoff=4):
    d = desc["d"]
    mu0, s0 = gg.dimensionless(desc)
    if route == "instr":
        with pq.Program() as prog:
            pq.Q() | pq.Vacuum()
            pq.Q() | pq.Mean(gg.vec_to_xpxp(mu0))
            pq.Q() | pq.Covariance(gg.mat_to_xpxp(s0))
        sim = pq.GaussianSimulator(d=d, config=pq.Config(hbar=hbar, cutoff=cutoff))
        return sim.execute(prog).state
    state = new_state(d, hbar, cutoff)
    mu, sigma = math.sqrt(hbar) * mu0, hbar * s0
    if route == "xpxp":
        state.xpxp_mean_vector = gg.vec_to_xpxp(mu)
        state.xpxp_covariance_matrix = gg.mat_to_xpxp(sigma)
    elif route == "xxpp":
        state.xxpp_mean_vector = mu
        state.xxpp_covariance_matrix = sigma
    elif route == "xxpp_cov_first":
        state.xxpp_covariance_matrix = sigma
        state.xxpp_mean_vector = mu
    else:
        raise KeyError(route)
    return state


ROUTES = ["instr", "xpxp", "xxpp", "xxpp_cov_first"]


# --------------------------------------------------------------------------------------
# own observables from dimensionless xxpp moments (vacuum covariance = identity)


def own_purity(s0):
    return 1.0 / math.sqrt(np.linalg.det(s0))


def own_mean_photon(mu0, s0):
    d = len(mu0) // 2
    return float(np.trace(s0) / 4 - d / 2 + mu0 @ mu0 / 2)


def own_var_photon(mu0, s0):
    # N = (1/2) Y^T Y - d/2; Var = (1/2) Tr V^2 + mu^T V mu - d/4 with V = s0/2
    d = len(mu0) // 2
    v = s0 / 2
    return float(np.trace(v @ v) / 2 + mu0 @ v @ mu0 - d / 4)


def own_parity(mu0, s0):
    return float(math.exp(-mu0 @ np.linalg.solve(s0, mu0)) / math.sqrt(np.linalg.det(s0)))


def own_vacuum_probability(mu0, s0):
    d = len(mu0) // 2
    if d == 0:
        return 1.0
    m = s0 + np.eye(2 * d)
    return float(2 ** d / math.sqrt(np.linalg.det(m)) * math.exp(-mu0 @ np.linalg.solve(m, mu0)))


def own_threshold_probability(mu0, s0, pattern):
    clicks = [i for i, c in enumerate(pattern) if c]
    zeros = [i for i, c in enumerate(pattern) if not c]
    total = 0.0
    for k in range(len(clicks) + 1):
        for t in itertools.combinations(clicks, k):
            mu_r, s_r = gg.reduce(mu0, s0, zeros + list(t))
            total += (-1) ** k * own_vacuum_probability(mu_r, s_r)
    return total


def own_overlap(mu1, s1, mu2, s2):
    """Tr(rho1 rho2); equals the fidelity when one of the states is pure."""
    d = len(mu1) // 2
    m = s1 + s2
    dm = mu1 - mu2
    return float(2 ** d / math.sqrt(np.linalg.det(m)) * math.exp(-dm @ np.linalg.solve(m, dm)))


def own_wigner(mu, sigma, r):
    d = len(mu) // 2
    dr = np.asarray(r) - mu
    return float(math.exp(-dr @ np.linalg.solve(sigma, dr)) / (math.pi ** d * math.sqrt(np.linalg.det(sigma))))


def wick(first, second, string):
    """Sum over all partitions of the ordered string into singletons and ordered pairs."""
    string = list(string)
    n = len(string)
    total = 0.0 + 0.0j

    def matchings(idx):
        # all sets of disjoint ordered pairs (i<j) from idx, the rest are singletons
        if not idx:
            yield []
            return
        head, rest = idx[0], idx[1:]
        for m in matchings(rest):
            yield m                                   # head stays a singleton
        for pos, other in enumerate(rest):
            remaining = rest[:pos] + rest[pos + 1:]
            for m in matchings(remaining):
                yield [(head, other)] + m

    for m in matchings(list(range(n))):
        paired = {i for pr in m for i in pr}
        term = 1.0 + 0.0j
        for i, j in m:
            term *= second[string[i], string[j]]
        for i in range(n):
            if i not in paired:
                term *= first[string[i]]
        total += term
    return total


def own_xp_string(mu, sigma, hbar, string):
    d = len(mu) // 2
    second = sigma / 2 + 0.5j * hbar * gg.omega_xxpp(d)
    return wick(mu.astype(complex), second, string)


def own_ladder_string(mu, sigma, hbar, string):
    d = len(mu) // 2
    m, c, g = gg.ladder_moments(mu, sigma, hbar)
    first = np.concatenate([m, m.conj()])
    # <d xi_a d xi_b>:  a a -> G,  a a^+ -> C^T + 1,  a^+ a -> C,  a^+ a^+ -> conj G
    second = np.block([[g, c.T + np.eye(d)], [c, g.conj()]])
    return wick(first, second, string)


def cond(s0):
    w = np.linalg.eigvalsh((s0 + s0.T) / 2)
    return float(w[-1] / w[0])


def tolerance(s0, scale=1.0):
    """1e-9 (1 + scale) of DESIGN 1.8, widened by the conditioning of sigma0 when inverses /
    determinants of it are taken: relative error <= ~ 100 eps cond(sigma0)."""
    return max(1e-9, 1e3 * EPS * cond(s0)) * (1.0 + scale)


def fid_tol(d, *s0s):
    """piquasso evaluates prod_i (w_i + sqrt(w_i^2 - 1)) where w_i = 1 exactly whenever one of the
    states is pure; an error delta <= 1e3 eps cond in w_i becomes sqrt(2 delta) in the result."""
    delta = 1e3 * EPS * max(cond(x) for x in s0s) ** 2
    return d * math.sqrt(2 * delta) + max(tolerance(x) for x in s0s) * 10


def check(bucket, what, got, want, tol, case=None):
    got, want = np.asarray(got), np.asarray(want)
    if got.shape != want.shape:
        raise Violation(bucket, f"{what}: shape {got.shape} vs {want.shape}")
    if not np.all(np.isfinite(got)):
        raise Violation(bucket, f"{what}: non-finite value {got.tolist()}")
    err = maxabs(got - want)
    if not err <= tol:
        i = np.unravel_index(np.argmax(np.abs(got - want)), got.shape) if got.ndim else ()
        raise Violation(bucket, f"{what}: |code - reference| = {err:.3e} > {tol:.3e} "
                                f"(code {got[i]}, reference {want[i]})")


def is_nontrivial(desc, hbar, s0, mu0):
    mixed_or_disp = desc.get("kind") in ("mixed", "partial", "degenerate") or maxabs(mu0) > 0
    return bool(mixed_or_disp and gg.has_intermode_correlations(s0) and hbar != 2.0)


# --------------------------------------------------------------------------------------
# part 1: representation round trips and closed forms of generated states


@st.composite
def roundtrip_cases(draw):
    state = draw(gg.state_desc(ds=[1, 2, 2, 3, 3, 4]))
    d = state["d"]
    return {
        "state": state,
        "hbar": draw(st.sampled_from(HBARS)),
        "route": draw(st.sampled_from(ROUTES)),
        "modes": draw(progs.ordered_modes(d)),
        "phi": draw(progs.angle()),
        "aux": draw(st.integers(0, 2**32)),
    }


def prop_roundtrip(case, ctx):
    desc, hbar, route = case["state"], case["hbar"], case["route"]
    d = desc["d"]
    modes, phi = [int(m) for m in case["modes"]], float(case["phi"])
    mu0, s0 = gg.dimensionless(desc)
    mu, sigma = math.sqrt(hbar) * mu0, hbar * s0
    nontriv = is_nontrivial(desc, hbar, s0, mu0)
    classes = ["rt:route:" + route, "rt:kind:" + str(desc.get("kind")), f"rt:hbar:{hbar}"]
    if nontriv:
        classes.append("rt:nontrivial")
    if modes != sorted(modes):
        classes.append("rt:subset_nonascending")
    ctx.case(case, nontrivial=nontriv, classes=classes)
    rng = progs.rng_of(case["aux"])

    try:
        state = load_state(desc, hbar, route)
    except Exception as e:
        raise Violation(f"C14:load:{route}:raises:{type(e).__name__}", f"{case}: {e!r}")
    # linear maps of the input: a few eps of the norm
    tl = 1e-12 * (1 + opnorm(sigma) + float(np.linalg.norm(mu)) ** 2)
    B = "C14:repr:"
    check(B + "xxpp_mean_vector", "xxpp mean", state.xxpp_mean_vector, mu, tl)
    check(B + "xxpp_covariance_matrix", "xxpp cov", state.xxpp_covariance_matrix, sigma, tl)
    check(B + "xpxp_mean_vector", "xpxp mean", state.xpxp_mean_vector, gg.vec_to_xpxp(mu), tl)
    check(B + "xpxp_covariance_matrix", "xpxp cov", state.xpxp_covariance_matrix,
          gg.mat_to_xpxp(sigma), tl)
    corr = sigma + 2 * np.outer(mu, mu)
    check(B + "xxpp_correlation_matrix", "xxpp corr", state.xxpp_correlation_matrix, corr, tl)
    check(B + "xpxp_correlation_matrix", "xpxp corr", state.xpxp_correlation_matrix,
          gg.mat_to_xpxp(corr), tl)
    r1, r2 = state.xxpp_representation
    check(B + "xxpp_representation", "xxpp repr mean", r1, mu, tl)
    check(B + "xxpp_representation", "xxpp repr corr", r2, corr, tl)
    r1, r2 = state.xpxp_representation
    check(B + "xpxp_representation", "xpxp repr mean", r1, gg.vec_to_xpxp(mu), tl)
    check(B + "xpxp_representation", "xpxp repr corr", r2, gg.mat_to_xpxp(corr), tl)
    m, c, g = gg.ladder_moments(mu, sigma, hbar)
    td = 1e-12 * (1 + opnorm(s0) + float(np.linalg.norm(mu0)) ** 2)
    check(B + "ladder:m", "<a>", state._m, m, td)
    check(B + "ladder:C", "<a^+ a>_c", state._C, c, td)
    check(B + "ladder:G", "<a a>_c", state._G, g, td)
    mc, sc = gg.complex_representation(mu, sigma, hbar)
    check(B + "complex_displacement", "complex displacement", state.complex_displacement, mc, td)
    check(B + "complex_covariance", "complex covariance", state.complex_covariance, sc, td)
    check(B + "Q_matrix", "Q matrix", state.Q_matrix, (sc + np.eye(2 * d)) / 2, td)
    try:
        state.validate()
    except Exception as e:
        raise Violation("C14:validate:physical-state-rejected", f"{case}: {e!r}")

    # setters o getters = id (all four setter/getter pairs), on a fresh state
    for tag, attr_m, attr_c in (("xxpp", "xxpp_mean_vector", "xxpp_covariance_matrix"),
                                ("xpxp", "xpxp_mean_vector", "xpxp_covariance_matrix")):
        other = new_state(d, hbar)
        setattr(other, attr_c, np.array(getattr(state, attr_c)))
        setattr(other, attr_m, np.array(getattr(state, attr_m)))
        check(f"C14:setter-getter:{tag}", f"{tag} set(get) m", other._m, state._m, td)
        check(f"C14:setter-getter:{tag}", f"{tag} set(get) C", other._C, state._C, td)
        check(f"C14:setter-getter:{tag}", f"{tag} set(get) G", other._G, state._G, td)
        if not (other == state):
            raise Violation(f"C14:setter-getter:{tag}", "state != state rebuilt from its own getters")

    # string moments (degree 1, 2 exactly, plus a random string of degree 3..5) -------------
    for i in range(d):
        check(B + "ladder_string:deg1", f"<a_{i}>", state.get_ladder_string_moment([i]), m[i], td)
        check(B + "ladder_string:deg1", f"<a_{i}^+>", state.get_ladder_string_moment([d + i]),
              np.conj(m[i]), td)
    i, j = int(rng.integers(d)), int(rng.integers(d))
    dl = 1.0 if i == j else 0.0
    t2 = td * (1 + opnorm(s0))
    check(B + "ladder_string:deg2", f"<a_{i}^+ a_{j}>", state.get_ladder_string_moment([d + i, j]),
          c[i, j] + np.conj(m[i]) * m[j], t2)
    check(B + "ladder_string:deg2", f"<a_{i} a_{j}^+>", state.get_ladder_string_moment([i, d + j]),
          c[j, i] + dl + m[i] * np.conj(m[j]), t2)
    check(B + "ladder_string:deg2", f"<a_{i} a_{j}>", state.get_ladder_string_moment([i, j]),
          g[i, j] + m[i] * m[j], t2)
    k, l = int(rng.integers(2 * d)), int(rng.integers(2 * d))
    om = gg.omega_xxpp(d)
    check(B + "xp_string:deg2", f"<Y_{k} Y_{l}>", state.get_xp_string_moment([k, l]),
          sigma[k, l] / 2 + mu[k] * mu[l] + 0.5j * hbar * om[k, l], tl)
    check(B + "xp_string:deg1", f"<Y_{k}>", state.get_xp_string_moment([k]), mu[k], tl)
    deg = int(rng.integers(3, 6))
    string = [int(x) for x in rng.integers(0, 2 * d, deg)]
    ref = own_ladder_string(mu, sigma, hbar, string)
    scale_l = (1 + opnorm(s0) + float(np.linalg.norm(mu0)) ** 2) ** (deg / 2)
    check(B + "ladder_string:deg>=3", f"ladder string {string}",
          state.get_ladder_string_moment(string), ref, 1e-11 * scale_l)
    ref = own_xp_string(mu, sigma, hbar, string)
    scale_x = (1 + opnorm(sigma) + float(np.linalg.norm(mu)) ** 2) ** (deg / 2)
    check(B + "xp_string:deg>=3", f"xp string {string}", state.get_xp_string_moment(string), ref,
          1e-11 * scale_x)

    # reduction and rotation ---------------------------------------------------------------
    mu_r, s_r = gg.reduce(mu, sigma, modes)
    red = state.reduced(tuple(modes))
    check("C14:reduced:mean", f"reduced{modes} mean", red.xxpp_mean_vector, mu_r, tl)
    check("C14:reduced:cov", f"reduced{modes} cov", red.xxpp_covariance_matrix, s_r, tl)
    check("C14:reduced:xpxp", f"reduced{modes} xpxp cov", red.xpxp_covariance_matrix,
          gg.mat_to_xpxp(s_r), tl)
    mcr, scr = gg.complex_representation(mu_r, s_r, hbar)
    check("C14:reduced:complex", f"reduced{modes} complex cov", red.complex_covariance, scr, td)
    check("C14:reduced:complex", f"reduced{modes} complex disp", red.complex_displacement, mcr, td)
    if red.d != len(modes):
        raise Violation("C14:reduced:d", f"reduced{modes}.d = {red.d}")
    mu_t, s_t = gg.rotate(mu, sigma, phi)
    rot = state.rotated(phi)
    tr = tl * 4 + 4 * EPS * abs(phi) * (opnorm(sigma) + float(np.linalg.norm(mu)))
    check("C14:rotated:mean", f"rotated({phi}) mean", rot.xxpp_mean_vector, mu_t, tr)
    check("C14:rotated:cov", f"rotated({phi}) cov", rot.xxpp_covariance_matrix, s_t, tr)
    mu_rt, s_rt = gg.rotate(mu_r, s_r, phi)
    a = state.reduced(tuple(modes)).rotated(phi)
    b = state.rotated(phi).reduced(tuple(modes))
    check("C14:reduced-rotated:commute", "reduced.rotated vs rotated.reduced (cov)",
          a.xpxp_covariance_matrix, b.xpxp_covariance_matrix, tr)
    check("C14:reduced-rotated:commute", "reduced.rotated vs rotated.reduced (mean)",
          a.xpxp_mean_vector, b.xpxp_mean_vector, tr)
    gm, gc = state.xpxp_reduced_rotated_mean_and_covariance(tuple(modes), phi)
    check("C14:xpxp_reduced_rotated:mean", f"modes={modes} phi={phi}", gm, gg.vec_to_xpxp(mu_rt), tr)
    check("C14:xpxp_reduced_rotated:cov", f"modes={modes} phi={phi}", gc, gg.mat_to_xpxp(s_rt), tr)
    # the parent must be unchanged by reduced / rotated
    check("C14:reduced-rotated:parent-changed", "parent cov after reduced/rotated",
          state.xxpp_covariance_matrix, sigma, tl)

    # closed-form observables of the generated state -------------------------------------
    t = tolerance(s0)
    nus = gg.symplectic_eigenvalues(sigma, hbar)
    purity = own_purity(s0)
    check("C14:value:get_purity", "purity vs 1/sqrt(det sigma0)", state.get_purity(), purity, t)
    check("C14:value:get_purity", "purity vs 1/prod(nu)", state.get_purity(), 1 / np.prod(nus), t * 10)
    want_pure = desc.get("kind") in ("pure", "vacuum") or (desc.get("nus") is not None
                                                              and max(desc["nus"]) == 1.0)
    if abs(purity - 1) < 1e-9 or abs(purity - 1) > 1e-4:   # away from the isclose threshold
        if bool(state.is_pure()) != bool(abs(purity - 1) < 1e-9):
            raise Violation("C14:value:is_pure", f"{case}: is_pure={state.is_pure()} purity={purity}")
        if want_pure and not state.is_pure():
            raise Violation("C14:value:is_pure", f"{case}: pure by construction")
    sc_n = 1 + own_mean_photon(mu0, s0)
    check("C14:value:mean_photon_number", "mean photon number", state.mean_photon_number(),
          own_mean_photon(mu0, s0), 1e-11 * sc_n)
    mu0_r, s0_r = gg.reduce(mu0, s0, modes)
    check("C14:value:mean_photon_number:modes", f"mean photon number on {modes}",
          state.mean_photon_number(tuple(modes)), own_mean_photon(mu0_r, s0_r), 1e-11 * sc_n)
    check("C14:value:variance_photon_number", "photon number variance",
          state.variance_photon_number(), own_var_photon(mu0, s0), 1e-10 * sc_n ** 2)
    check("C14:value:variance_photon_number:modes", f"photon number variance on {modes}",
          state.variance_photon_number(tuple(modes)), own_var_photon(mu0_r, s0_r), 1e-10 * sc_n ** 2)
    check("C14:value:parity", "parity", state.get_parity_operator_expectation_value(),
          own_parity(mu0, s0), t)
    # vacuum probability and threshold pattern through three interfaces
    p0 = own_vacuum_probability(mu0, s0)
    zeros = (0,) * d
    check("C14:value:particle_detection:vacuum", "p(0..0)",
          state.get_particle_detection_probability(np.array(zeros)), p0, t)
    check("C14:value:fock_probabilities:vacuum", "fock_probabilities[0]",
          state.fock_probabilities[0], p0, t)
    pattern = tuple(int(x) for x in rng.integers(0, 2, d))
    check("C14:value:threshold", f"threshold pattern {pattern}",
          state.get_threshold_detection_probability(pattern),
          own_threshold_probability(mu0, s0, pattern), t * 4)
    # fidelity: with itself, symmetric, and = Tr(rho1 rho2) against a pure state
    d2 = {"d": d, "seed": case["aux"], "kind": "pure", "displaced": bool(case["aux"] % 2), "layers": 1}
    mu02, s02 = gg.dimensionless(d2)
    other = load_state(d2, hbar, "xxpp")
    tf = fid_tol(d, s0, s02)
    check("C14:value:fidelity:pure", "fidelity(state, pure)", state.fidelity(other),
          own_overlap(mu0, s0, mu02, s02), tf)
    check("C14:value:fidelity:symmetric", "fidelity(pure, state)", other.fidelity(state),
          own_overlap(mu0, s0, mu02, s02), tf)
    if cond(s0) < 1e3:
        check("C14:value:fidelity:self", "fidelity(state, state)", state.fidelity(state), 1.0,
              fid_tol(d, s0))
    # quadratic polynomial
    a_ = rng.normal(size=(2 * d, 2 * d))
    a_ = (a_ + a_.T) / 2
    b_ = rng.normal(size=2 * d)
    c_ = float(rng.normal())
    mx, sx = gg.vec_to_xpxp(mu_t), gg.mat_to_xpxp(s_t)
    want = np.trace(a_ @ sx) / 2 + mx @ a_ @ mx + mx @ b_ + c_
    check("C14:value:quadratic_polynomial_expectation", "E[R^T A R + R.b + c] (rotated)",
          state.quadratic_polynomial_expectation(a_, b_, c_, phi), want,
          1e-10 * (1 + opnorm(a_) * (opnorm(sigma) + float(mu @ mu)) * 2 * d) + tr * opnorm(a_) * 2 * d)
    # Wigner function at a point: single mode here; multi-mode only on the diagonal-free
    # path `modes=(k,)` (the multi-mode point ordering is probed in `defects`)
    kk = int(rng.integers(d))
    pt = rng.normal(size=2) * math.sqrt(hbar)
    mu_k, s_k = gg.reduce(mu, sigma, [kk])
    w = state.wigner_function(positions=[[pt[0]]], momentums=[[pt[1]]], modes=(kk,))
    check("C14:value:wigner:single-mode", f"W on mode {kk} at {pt.tolist()}", np.asarray(w).ravel()[0],
          own_wigner(mu_k, s_k, pt), t / hbar)
    if d == 1:
        w = state.wigner_function(positions=[[pt[0]]], momentums=[[pt[1]]])
        check("C14:value:wigner:single-mode", "W (d=1, modes=None)", np.asarray(w).ravel()[0],
              own_wigner(mu, sigma, pt), t / hbar)
    else:
        ctx.exclude("C14:defect:wigner:multimode-point-ordering")
    # phase-shifter expectation value: one non-zero angle (the code reduces to that mode), then
    # distinct non-zero angles on every mode, then the same angle on every mode
    ang = [0.0] * d
    ang[kk] = float(rng.uniform(-2 * math.pi, 2 * math.pi))
    mu0_k, s0_k = gg.reduce(mu0, s0, [kk])
    tp = t * 10 * (1 + cond(s0))
    check("C14:value:phaseshifter:one-angle", f"<R({ang})>",
          state.get_phaseshifter_expectation_value(ang), own_phaseshifter(mu0_k, s0_k, [ang[kk]]), tp)
    ang = [float(x) for x in rng.uniform(-2 * math.pi, 2 * math.pi, d)]
    check("C14:value:phaseshifter:distinct-angles", f"<R({ang})>",
          state.get_phaseshifter_expectation_value(ang), own_phaseshifter(mu0, s0, ang), tp)
    ang = [ang[0]] * d
    check("C14:value:phaseshifter:equal-angles", f"<R({ang})>",
          state.get_phaseshifter_expectation_value(ang), own_phaseshifter(mu0, s0, ang), tp)


def own_phaseshifter(mu0, s0, angles):
    """Tr[rho prod_j z_j^{n_j}], z_j = e^{i phi_j}, from the Weyl symbol of z^n (hbar = 1, vacuum
    covariance 1):  z^{a^+ a}  <->  2/(1+z) exp(-t (x^2 + p^2)),  t = (1-z)/(1+z).  Integrating the
    product of these symbols against the Gaussian Wigner function N(mu0, s0/2) gives
        prod_j 2/(1+z_j) * det(1 + s0 T)^{-1/2} * exp(-mu0^T T (1 + s0 T)^{-1} mu0),   T = diag(t, t),
    which is written below with  M = s0 A + B,  A = diag((1-z)/2) (+) same,  B = diag((1+z)/2) (+)
    same  (T = A B^{-1};  no singularity at z = -1):
        det(M)^{-1/2} exp(-mu0^T A M^{-1} mu0).
    Checks: s0 = 1 gives prod exp(|alpha_j|^2 (z_j - 1)); one mode, s0 = diag(e^{-2r}, e^{2r}),
    mu0 = 0 gives 1/(cosh r sqrt(1 - z^2 tanh^2 r)); validated against sum_n p_n prod z_j^{n_j} of
    random displaced / squeezed / thermal states on d <= 3 to the truncation error.  The square
    root is continued numerically from all z_j = 1 (value 1) along the ray t*phi, so no branch is
    assumed."""
    d = len(angles)
    phi = np.array([float(a) for a in angles])

    def m_of(scale):
        z = np.exp(1j * phi * scale)
        a = np.diag(np.concatenate([(1 - z) / 2, (1 - z) / 2]))
        b = np.diag(np.concatenate([(1 + z) / 2, (1 + z) / 2]))
        return s0 @ a + b, a

    sq = 1.0 + 0.0j
    steps = max(64, int(float(np.max(np.abs(phi))) * 32)) * max(1, d)
    for k in range(1, steps + 1):
        mk, _ = m_of(k / steps)
        cand = np.sqrt(np.linalg.det(mk))
        sq = cand if abs(cand - sq) <= abs(cand + sq) else -cand
    m, a = m_of(1.0)
    return np.exp(-mu0 @ a @ np.linalg.solve(m, mu0.astype(complex))) / sq


def own_phaseshifter_1mode(mu0, s0, phi):
    return own_phaseshifter(mu0, s0, [phi])


# --------------------------------------------------------------------------------------
# part 2: metamorphic hbar relation


@st.composite
def hbar_cases(draw):
    state = draw(gg.state_desc(ds=[1, 2, 2, 3, 3, 4]))
    h1 = draw(st.sampled_from(HBARS))
    h2 = draw(st.sampled_from([h for h in HBARS if h != h1]))
    return {"state": state, "h1": h1, "h2": h2, "route": draw(st.sampled_from(ROUTES)),
            "aux": draw(st.integers(0, 2**32))}


def observables(state, desc, hbar, aux, route):
    """Dictionary name -> (value, hbar exponent, relative scale) of everything observable."""
    d = desc["d"]
    rng = progs.rng_of(aux)
    out = {}
    out["fock_probabilities"] = (np.asarray(state.fock_probabilities), 0.0)
    basis = get_fock_space_basis(d=d, cutoff=state._config.cutoff)
    occ = basis[int(rng.integers(len(basis)))]
    out["particle_detection"] = (state.get_particle_detection_probability(np.array(occ)), 0.0)
    big = np.array([int(x) for x in rng.integers(0, 3, d)])
    out["particle_detection:beyond-cutoff"] = (state.get_particle_detection_probability(big), 0.0)
    if d <= 3:
        out["density_matrix"] = (np.asarray(state.density_matrix), 0.0)
    pats = list(itertools.product((0, 1), repeat=d))
    out["threshold"] = (np.array([state.get_threshold_detection_probability(p) for p in pats]), 0.0)
    out["purity"] = (state.get_purity(), 0.0)
    out["is_pure"] = (float(state.is_pure()), 0.0)
    d2 = {"d": d, "seed": aux, "kind": ["pure", "mixed"][aux % 2], "displaced": bool((aux // 2) % 2),
          "layers": 1}
    other = load_state(d2, hbar, route)
    out["fidelity"] = (state.fidelity(other), 0.0)
    out["fidelity:swapped"] = (other.fidelity(state), 0.0)
    out["mean_photon_number"] = (state.mean_photon_number(), 0.0)
    out["variance_photon_number"] = (state.variance_photon_number(), 0.0)
    sub = tuple(int(x) for x in rng.permutation(d)[: int(rng.integers(1, d + 1))])
    out["mean_photon_number:modes"] = (state.mean_photon_number(sub), 0.0)
    out["variance_photon_number:modes"] = (state.variance_photon_number(sub), 0.0)
    out["marginal_fock"] = (np.array(list(state.get_marginal_fock_probabilities(sub).values())), 0.0)
    out["parity"] = (state.get_parity_operator_expectation_value(), 0.0)
    ang = [float(x) for x in rng.uniform(-2 * math.pi, 2 * math.pi, d)]
    out["phaseshifter"] = (state.get_phaseshifter_expectation_value(ang), 0.0)
    deg = int(rng.integers(1, 6))
    string = [int(x) for x in rng.integers(0, 2 * d, deg)]
    out["ladder_string"] = (state.get_ladder_string_moment(string), 0.0)
    out["xp_string"] = (state.get_xp_string_moment(string), deg / 2)
    out["complex_displacement"] = (np.asarray(state.complex_displacement), 0.0)
    out["complex_covariance"] = (np.asarray(state.complex_covariance), 0.0)
    out["xxpp_mean_vector"] = (np.asarray(state.xxpp_mean_vector), 0.5)
    out["xpxp_mean_vector"] = (np.asarray(state.xpxp_mean_vector), 0.5)
    out["xxpp_covariance_matrix"] = (np.asarray(state.xxpp_covariance_matrix), 1.0)
    out["xpxp_covariance_matrix"] = (np.asarray(state.xpxp_covariance_matrix), 1.0)
    out["xxpp_correlation_matrix"] = (np.asarray(state.xxpp_correlation_matrix), 1.0)
    a_ = rng.normal(size=(2 * d, 2 * d))
    a_ = (a_ + a_.T) / 2
    b_ = rng.normal(size=2 * d)
    phi = float(rng.uniform(-math.pi, math.pi))
    out["quadratic:A"] = (state.quadratic_polynomial_expectation(a_, np.zeros(2 * d), 0.0, phi), 1.0)
    out["quadratic:b"] = (state.quadratic_polynomial_expectation(np.zeros((2 * d, 2 * d)), b_, 0.0, phi), 0.5)
    # Wigner function at rescaled points (the relation holds for any fixed pairing of the point
    # coordinates with the moments, so the multi-mode call is included here)
    x0, p0 = rng.normal(size=d), rng.normal(size=d)
    sq = math.sqrt(hbar)
    out["wigner"] = (np.asarray(state.wigner_function(positions=[list(x0 * sq)],
                                                       momentums=[list(p0 * sq)])).ravel(), -float(d))
    kk = int(rng.integers(d))
    out["wigner:mode"] = (np.asarray(state.wigner_function(
        positions=[[x0[kk] * sq]], momentums=[[p0[kk] * sq]], modes=(kk,))).ravel(), -1.0)
    mr, cr = state.xpxp_reduced_rotated_mean_and_covariance(sub, phi)
    out["xpxp_reduced_rotated:mean"] = (np.asarray(mr), 0.5)
    out["xpxp_reduced_rotated:cov"] = (np.asarray(cr), 1.0)
    return out


def sample_photons(desc, hbar, modes, shots, seed):
    d = desc["d"]
    mu0, s0 = gg.dimensionless(desc)
    with pq.Program() as prog:
        pq.Q() | pq.Vacuum()
        pq.Q() | pq.Mean(gg.vec_to_xpxp(mu0))
        pq.Q() | pq.Covariance(gg.mat_to_xpxp(s0))
        pq.Q(*modes) | pq.ParticleNumberMeasurement()
    sim = pq.GaussianSimulator(d=d, config=pq.Config(hbar=hbar, seed_sequence=seed,
                                                     measurement_cutoff=5))
    return np.array(sim.execute(prog, shots=shots).samples, dtype=int)


def prop_hbar(case, ctx):
    desc, h1, h2, route = case["state"], case["h1"], case["h2"], case["route"]
    mu0, s0 = gg.dimensionless(desc)
    nontriv = is_nontrivial(desc, h1, s0, mu0) and is_nontrivial(desc, h2, s0, mu0)
    classes = [f"hb:pair:{h1}:{h2}", "hb:kind:" + str(desc.get("kind")), "hb:route:" + route]
    if nontriv:
        classes.append("hb:nontrivial")
    ctx.case(case, nontrivial=nontriv, classes=classes)
    cutoff = {1: 6, 2: 5, 3: 4, 4: 3}[desc["d"]]
    try:
        s1 = load_state(desc, h1, route, cutoff)
        s2 = load_state(desc, h2, route, cutoff)
        o1 = observables(s1, desc, h1, case["aux"], route)
        o2 = observables(s2, desc, h2, case["aux"], route)
    except Violation:
        raise
    except Exception as e:
        raise Violation(f"C14:hbar:raises:{type(e).__name__}", f"{case}: {e!r}")
    t = tolerance(s0)
    # photon-number samples with equal seed ------------------------------------------------
    # For a pure state measured on ALL modes the sampler is a deterministic function of (dimensionless moments,
    # seed): T = S S^T is unique and the classical displacement S sqrt(D - 1) xi vanishes up
    # to sqrt(rounding) ~ 3e-8, which can flip one rng.choice with probability ~1e-7 per
    # draw, hence at most one of the 12 shots may differ.  For a mixed state the displacement
    # goes through the Williamson matrix S, which is unique only up to a phase-space
    # rotation per mode (more when symplectic eigenvalues coincide) and is computed by a
    # Schur decomposition that amplifies rounding: only the distribution, not the sample
    # path, is determined there (observed: d=1, kind=mixed, hbar 0.1 vs 0.5 differ in 3 of
    # 12 shots on the fixed tree).  Mixed states are anchored by the thermal histograms in
    # `anchors` and by the hbar invariance of fock_probabilities.
    if desc["d"] <= 3:
        if desc.get("kind") not in ("pure", "vacuum"):
            ctx.count("hb:samples:skipped-mixed-williamson-not-unique")
        else:
            # all modes, in a drawn order: a proper subset of a pure entangled state is mixed
            sub = [int(x) for x in progs.rng_of(case["aux"] + 1).permutation(desc["d"])]
            try:
                k1 = sample_photons(desc, h1, sub, 12, case["aux"] % 1000)
                k2 = sample_photons(desc, h2, sub, 12, case["aux"] % 1000)
            except Exception as e:
                raise Violation(f"C14:hbar:samples:raises:{type(e).__name__}", f"{case}: {e!r}")
            ctx.count("hb:samples:compared")
            if k1.shape != k2.shape or int(np.sum(np.any(k1 != k2, axis=1))) > 1:
                raise Violation("C14:hbar:samples",
                                f"photon-number samples on modes {sub} with equal seed differ between "
                                f"hbar={h1} and hbar={h2}: {k1.tolist()} vs {k2.tolist()}")
    # the second state entering the fidelity has its own conditioning
    for name in o1:
        v1, e1 = o1[name]
        v2, _ = o2[name]
        v1 = np.asarray(v1) / h1 ** e1
        v2 = np.asarray(v2) / h2 ** e1
        scale = max(maxabs(v1), maxabs(v2))
        tol = t * (1 + scale)
        if name.startswith("fidelity"):
            d2 = {"d": desc["d"], "seed": case["aux"], "kind": ["pure", "mixed"][case["aux"] % 2],
                  "displaced": False, "layers": 1}
            tol = 2 * fid_tol(desc["d"], s0, gg.dimensionless(d2)[1])
        if v1.shape != v2.shape:
            raise Violation(f"C14:hbar:{name}", f"{case}: shapes differ {v1.shape} {v2.shape}")
        err = maxabs(v1 - v2)
        if not err <= tol:
            raise Violation(
                f"C14:hbar:{name.split(':')[0]}",
                f"{name} differs between hbar={h1} and hbar={h2} after removing hbar^{e1}: "
                f"{err:.3e} > {tol:.3e}; values {np.asarray(v1).ravel()[:4].tolist()} vs "
                f"{np.asarray(v2).ravel()[:4].tolist()}")


# --------------------------------------------------------------------------------------
# part 3: absolute anchors (states prepared with gates)


@st.composite
def anchor_cases(draw):
    kind = draw(st.sampled_from(["vacuum", "coherent", "squeezed", "squeezed-displaced", "samples",
                                 "samples"]))
    hbar = draw(st.sampled_from(HBARS))
    if kind == "samples":
        sub = draw(st.sampled_from(["coherent", "thermal", "squeezed"]))
        par = {"coherent": st.floats(0.3, 1.2), "thermal": st.floats(1.5, 4.0),
               "squeezed": st.floats(0.3, 1.0)}[sub]
        return {"anchor": kind, "hbar": hbar, "d": 1, "sub": sub, "par": draw(par),
                "seed": draw(st.integers(0, 10**6))}
    if kind == "vacuum":
        return {"anchor": kind, "hbar": hbar, "d": draw(st.integers(1, 3)),
                "aux": draw(st.integers(0, 2**32))}
    if kind == "coherent":
        d = draw(st.integers(1, 3))
        return {"anchor": kind, "hbar": hbar, "d": d,
                "r": [draw(st.floats(0.0, 1.3)) for _ in range(d)],
                "phi": [draw(progs.angle()) for _ in range(d)],
                "aux": draw(st.integers(0, 2**32))}
    out = {"anchor": kind, "hbar": hbar, "d": 1, "r": draw(st.floats(-1.0, 1.0)),
           "phi": draw(progs.angle()), "aux": draw(st.integers(0, 2**32))}
    if kind == "squeezed-displaced":
        out["ar"] = draw(st.floats(0.0, 1.0))
        out["aphi"] = draw(progs.angle())
    return out


def prep_anchor(case, cutoff):
    d, hbar = case["d"], case["hbar"]
    with pq.Program() as prog:
        pq.Q() | pq.Vacuum()
        if case["anchor"] == "coherent":
            for i in range(d):
                pq.Q(i) | pq.Displacement(r=case["r"][i], phi=case["phi"][i])
        elif case["anchor"].startswith("squeezed"):
            pq.Q(0) | pq.Squeezing(r=case["r"], phi=case["phi"])
            if case["anchor"] == "squeezed-displaced":
                pq.Q(0) | pq.Displacement(r=case["ar"], phi=case["aphi"])
    sim = pq.GaussianSimulator(d=d, config=pq.Config(hbar=hbar, cutoff=cutoff))
    return sim.execute(prog).state


SAMPLE_SHOTS, SAMPLE_CUTOFF, SAMPLE_TV = 300, 10, 0.25


def prop_sample_anchor(case, ctx):
    """Histogram of Gaussian photon-number samples of a coherent / thermal / squeezed-vacuum mode
    against the exact distribution (truncated at the measurement cutoff and renormalised, as the
    sampler does).  For k = 10 bins and N = 300 shots P(TV >= 0.25) <= 2^k exp(-2 N 0.25^2) = 5e-14
    under the exact distribution; the inverted hbar ratio gives TV 0.4 .. 1 for every hbar != 2."""
    sub, par, hbar = case["sub"], float(case["par"]), case["hbar"]
    fact = math.factorial
    with pq.Program() as prog:
        pq.Q() | pq.Vacuum()
        if sub == "coherent":
            pq.Q(0) | pq.Displacement(r=par, phi=0.7)
            exact = np.array([math.exp(-par ** 2) * par ** (2 * n) / fact(n) for n in range(SAMPLE_CUTOFF)])
        elif sub == "thermal":
            pq.Q() | pq.Covariance(np.eye(2) * par)
            nb = (par - 1) / 2
            exact = np.array([nb ** n / (1 + nb) ** (n + 1) for n in range(SAMPLE_CUTOFF)])
        else:
            pq.Q(0) | pq.Squeezing(r=par, phi=-0.4)
            th = math.tanh(par)
            exact = np.array([0.0 if n % 2 else th ** n * fact(n) / (2 ** n * fact(n // 2) ** 2 * math.cosh(par))
                              for n in range(SAMPLE_CUTOFF)])
        pq.Q() | pq.ParticleNumberMeasurement()
    exact = exact / exact.sum()
    sim = pq.GaussianSimulator(d=1, config=pq.Config(hbar=hbar, seed_sequence=case["seed"],
                                                     measurement_cutoff=SAMPLE_CUTOFF))
    try:
        smp = np.array(sim.execute(prog, shots=SAMPLE_SHOTS).samples, dtype=int)[:, 0]
    except Exception as e:
        raise Violation(f"C14:anchor:samples:raises:{type(e).__name__}", f"{case}: {e!r}")
    emp = np.bincount(smp, minlength=SAMPLE_CUTOFF)[:SAMPLE_CUTOFF] / SAMPLE_SHOTS
    tv = 0.5 * float(np.abs(emp - exact).sum())
    if tv > SAMPLE_TV:
        raise Violation(f"C14:anchor:samples:{sub}",
                        f"{case}: total variation distance {tv:.3f} > {SAMPLE_TV} between {SAMPLE_SHOTS} "
                        f"photon-number samples {emp.round(3).tolist()} and the exact distribution "
                        f"{exact.round(3).tolist()}")


def prop_anchor(case, ctx):
    kind, hbar, d = case["anchor"], case["hbar"], case["d"]
    ctx.case(case, nontrivial=(kind != "vacuum" and hbar != 2.0),
             classes=["an:" + kind, f"an:hbar:{hbar}"])
    if kind == "samples":
        return prop_sample_anchor(case, ctx)
    rng = progs.rng_of(case["aux"])
    cutoff = {1: 12, 2: 7, 3: 5}[d]
    tiny = [abs(x) for x in (case.get("r") if isinstance(case.get("r"), list) else [case.get("ar", 0.0)])]
    if any(0 < x < 1e-6 for x in tiny):
        # GaussianState._is_displaced() is np.allclose(m, 0): displacements below 1e-8 are
        # snapped to zero (absolute error <= 1e-8 in density-matrix elements, independent of hbar)
        ctx.exclude("C14:note:displacement-below-1e-8-treated-as-zero")
        return
    try:
        state = prep_anchor(case, cutoff)
    except Exception as e:
        raise Violation(f"C14:anchor:raises:{type(e).__name__}", f"{case}: {e!r}")
    basis = [tuple(int(x) for x in row) for row in get_fock_space_basis(d=d, cutoff=cutoff)]
    A = f"C14:anchor:{kind}:"
    t = 1e-9
    fact = math.factorial
    if kind in ("vacuum", "coherent"):
        alpha = (np.zeros(d, dtype=complex) if kind == "vacuum" else
                 np.array([case["r"][i] * np.exp(1j * case["phi"][i]) for i in range(d)]))
        n2 = np.abs(alpha) ** 2
        ntot = float(n2.sum())
        mu = math.sqrt(2 * hbar) * np.concatenate([alpha.real, alpha.imag])
        check(A + "mean", "xxpp mean", state.xxpp_mean_vector, mu, 1e-12 * (1 + maxabs(mu)))
        check(A + "cov", "xxpp cov", state.xxpp_covariance_matrix, hbar * np.eye(2 * d), 1e-12 * hbar)
        probs = np.array([np.prod([math.exp(-n2[i]) * n2[i] ** k[i] / fact(k[i]) for i in range(d)])
                          for k in basis])
        check(A + "fock_probabilities", "Poisson product", state.fock_probabilities, probs, t)
        k = basis[int(rng.integers(len(basis)))]
        check(A + "particle_detection", f"p{k}",
              state.get_particle_detection_probability(np.array(k)), probs[basis.index(k)], t)
        amp = np.array([np.prod([math.exp(-n2[i] / 2) * alpha[i] ** k[i] / math.sqrt(fact(k[i]))
                                 for i in range(d)]) for k in basis])
        check(A + "density_matrix", "|alpha><alpha|", state.density_matrix,
              np.outer(amp, amp.conj()), t)
        check(A + "purity", "purity", state.get_purity(), 1.0, t)
        if not state.is_pure():
            raise Violation(A + "is_pure", f"{case}")
        check(A + "mean_photon_number", "nbar", state.mean_photon_number(), ntot, t * (1 + ntot))
        check(A + "variance_photon_number", "var n", state.variance_photon_number(), ntot,
              t * (1 + ntot) ** 2)
        check(A + "parity", "parity", state.get_parity_operator_expectation_value(),
              math.exp(-2 * ntot), t)
        for pat in itertools.product((0, 1), repeat=d):
            want = np.prod([(1 - math.exp(-n2[i])) if pat[i] else math.exp(-n2[i]) for i in range(d)])
            check(A + "threshold", f"threshold {pat}", state.get_threshold_detection_probability(pat),
                  want, t)
        vac = new_state(d, hbar)
        check(A + "fidelity", "fidelity with vacuum", state.fidelity(vac), math.exp(-ntot),
              fid_tol(d, np.eye(2 * d)))
        check(A + "fidelity", "fidelity(vacuum, state)", vac.fidelity(state), math.exp(-ntot),
              fid_tol(d, np.eye(2 * d)))
        # phase shifter: one non-zero angle (all d), all angles (d = 1)
        kk = int(rng.integers(d))
        ang = [0.0] * d
        ang[kk] = float(rng.uniform(-2 * math.pi, 2 * math.pi))
        check(A + "phaseshifter", f"<R({ang})>", state.get_phaseshifter_expectation_value(ang),
              np.exp(n2[kk] * (np.exp(1j * ang[kk]) - 1)), t)
        ang = [float(x) for x in rng.uniform(-2 * math.pi, 2 * math.pi, d)]
        check(A + "phaseshifter:all-modes", f"<R({ang})>", state.get_phaseshifter_expectation_value(ang),
              np.prod([np.exp(n2[i] * (np.exp(1j * ang[i]) - 1)) for i in range(d)]), t)
        ang = [ang[0]] * d
        check(A + "phaseshifter:all-modes", f"<R({ang})>", state.get_phaseshifter_expectation_value(ang),
              np.prod([np.exp(n2[i] * (np.exp(1j * ang[i]) - 1)) for i in range(d)]), t)
        # normally ordered ladder moment <a_k^+ a_k^+ a_k a_k> = |alpha|^4, <a_k a_k^+> = |alpha|^2 + 1
        check(A + "ladder_string", "<a+ a+ a a>",
              state.get_ladder_string_moment([d + kk, d + kk, kk, kk]), n2[kk] ** 2, t * (1 + n2[kk] ** 2))
        check(A + "ladder_string", "<a a+>", state.get_ladder_string_moment([kk, d + kk]),
              n2[kk] + 1, t * (2 + n2[kk]))
        # <x^4> = mu^4 + 6 mu^2 v + 3 v^2, v = hbar/2 ; <x p> = mu_x mu_p + i hbar/2
        mx, v = mu[kk], hbar / 2
        check(A + "xp_string", "<x^4>", state.get_xp_string_moment([kk] * 4),
              mx ** 4 + 6 * mx ** 2 * v + 3 * v ** 2, t * (1 + mx ** 4 + v ** 2))
        check(A + "xp_string", "<x p>", state.get_xp_string_moment([kk, d + kk]),
              mu[kk] * mu[d + kk] + 0.5j * hbar, t * (1 + hbar + mx ** 2 + mu[d + kk] ** 2))
        pt = rng.normal(size=2) * math.sqrt(hbar)
        w = state.wigner_function(positions=[[pt[0]]], momentums=[[pt[1]]], modes=(kk,))
        want = math.exp(-((pt[0] - mu[kk]) ** 2 + (pt[1] - mu[d + kk]) ** 2) / hbar) / (math.pi * hbar)
        check(A + "wigner", f"W at {pt.tolist()} on mode {kk}", np.asarray(w).ravel()[0], want, t / hbar)
        return
    # single-mode squeezed (optionally displaced afterwards) -----------------------------
    r, phi = case["r"], case["phi"]
    ch, sh, e = math.cosh(r), math.sinh(r), np.exp(1j * phi)
    beta = complex(case.get("ar", 0.0)) * np.exp(1j * case.get("aphi", 0.0))
    # ladder moments of S(z)|0> with a -> a cosh r - e^{i phi} a^+ sinh r
    g = -e * sh * ch
    c = sh ** 2
    # dimensionless covariance from (C, G):  Sxx = 1 + 2C + 2 Re G, Spp = 1 + 2C - 2 Re G, Sxp = 2 Im G
    s0 = np.array([[1 + 2 * c + 2 * g.real, 2 * g.imag], [2 * g.imag, 1 + 2 * c - 2 * g.real]])
    mu0 = math.sqrt(2) * np.array([beta.real, beta.imag])
    check(A + "cov", "xxpp cov", state.xxpp_covariance_matrix, hbar * s0, 1e-11 * hbar * (1 + opnorm(s0)))
    check(A + "mean", "xxpp mean", state.xxpp_mean_vector, math.sqrt(hbar) * mu0, 1e-11 * (1 + hbar))
    check(A + "ladder", "G", state._G, np.array([[g]]), 1e-11 * (1 + abs(g)))
    check(A + "ladder", "C", state._C, np.array([[c]]), 1e-11 * (1 + c))
    check(A + "purity", "purity", state.get_purity(), 1.0, t * (1 + opnorm(s0) ** 2))
    nbar = c + abs(beta) ** 2
    check(A + "mean_photon_number", "nbar", state.mean_photon_number(), nbar, t * (1 + nbar))
    if kind == "squeezed":
        th = math.tanh(r)
        amps = np.zeros(cutoff, dtype=complex)
        for n in range(0, cutoff, 2):
            h = n // 2
            amps[n] = (-e * th) ** h * math.sqrt(fact(n)) / (2 ** h * fact(h)) / math.sqrt(ch)
        probs = np.abs(amps) ** 2
        check(A + "fock_probabilities", "squeezed vacuum statistics", state.fock_probabilities, probs, t)
        check(A + "density_matrix", "S(z)|0><0|S(z)^+", state.density_matrix,
              np.outer(amps, amps.conj()), t)
        check(A + "variance_photon_number", "var n", state.variance_photon_number(),
              2 * sh ** 2 * ch ** 2, t * (1 + ch ** 4))
        check(A + "parity", "parity", state.get_parity_operator_expectation_value(), 1.0, t * ch ** 2)
        check(A + "threshold", "p(no click)", state.get_threshold_detection_probability((0,)), 1 / ch, t)
        check(A + "threshold", "p(click)", state.get_threshold_detection_probability((1,)), 1 - 1 / ch, t)
        check(A + "fidelity", "fidelity with vacuum", state.fidelity(new_state(1, hbar)), 1 / ch,
              fid_tol(1, s0))
        a = float(rng.uniform(-2 * math.pi, 2 * math.pi))
        want = 1 / (ch * np.sqrt(1 - np.exp(2j * a) * th ** 2))
        check(A + "phaseshifter", f"<R({a})>", state.get_phaseshifter_expectation_value([a]), want,
              t * 10 * ch ** 2)
        check(A + "ladder_string", "<a a>", state.get_ladder_string_moment([0, 0]), g, t * (1 + abs(g)))
        check(A + "ladder_string", "<a+ a+ a a>", state.get_ladder_string_moment([1, 1, 0, 0]),
              2 * sh ** 2 * ch ** 2 + c ** 2 - c, t * (1 + ch ** 4))
    else:
        check(A + "variance_photon_number", "var n", state.variance_photon_number(),
              own_var_photon(mu0, s0), t * (1 + nbar) ** 2)
        check(A + "parity", "parity", state.get_parity_operator_expectation_value(),
              own_parity(mu0, s0), t * 10)
        check(A + "threshold", "p(no click)", state.get_threshold_detection_probability((0,)),
              own_vacuum_probability(mu0, s0), t * 10)
        check(A + "fock_probabilities", "p(0)", state.fock_probabilities[0],
              own_vacuum_probability(mu0, s0), t * 10)
        check(A + "fidelity", "fidelity with vacuum", state.fidelity(new_state(1, hbar)),
              own_vacuum_probability(mu0, s0), fid_tol(1, s0))
        a = float(rng.uniform(-2 * math.pi, 2 * math.pi))
        # sum_n p_n e^{i a n} with the state's own table (cutoff 40) as a cross-check of
        # the closed form used in `roundtrip`
        check(A + "phaseshifter", f"<R({a})>", state.get_phaseshifter_expectation_value([a]),
              own_phaseshifter_1mode(mu0, s0, a), t * 100)
    pt = rng.normal(size=2) * math.sqrt(hbar)
    w = state.wigner_function(positions=[[pt[0]]], momentums=[[pt[1]]])
    check(A + "wigner", f"W at {pt.tolist()}", np.asarray(w).ravel()[0],
          own_wigner(math.sqrt(hbar) * mu0, hbar * s0, pt), t * 10 / hbar)


# --------------------------------------------------------------------------------------
# part 4: regress probes of the repaired defects and the probe of the one still excluded region


def defect_cases(tier):
    out = []
    for hbar in (2.0, 1.0):
        out.append({"probe": "phaseshifter", "hbar": hbar, "d": 2, "r": [0.0, 0.0], "phi": [0.0, 0.0],
                    "angles": [0.9, 0.9]})                      # vacuum, equal angles: must be 1
        out.append({"probe": "phaseshifter", "hbar": hbar, "d": 2, "r": [0.7, 0.4], "phi": [0.3, -1.0],
                    "angles": [0.9, 0.9]})                      # equal angles (sqrt branch only)
        out.append({"probe": "phaseshifter", "hbar": hbar, "d": 2, "r": [0.7, 0.4], "phi": [0.3, -1.0],
                    "angles": [0.9, 2.1]})                      # distinct angles (repeat vs tile)
        out.append({"probe": "phaseshifter", "hbar": hbar, "d": 3, "r": [0.5, 0.0, 0.9],
                    "phi": [0.1, 0.0, 2.0], "angles": [2.5, -1.0, 0.4]})
        out.append({"probe": "wigner", "hbar": hbar, "state": {"d": 2, "seed": 5, "kind": "mixed",
                                                               "displaced": True, "layers": 1},
                    "x": [0.3, -0.2], "p": [0.5, 0.1], "modes": None})
        out.append({"probe": "wigner", "hbar": hbar, "state": {"d": 3, "seed": 8, "kind": "pure",
                                                               "displaced": True, "layers": 1},
                    "x": [0.3, -0.2], "p": [0.5, 0.1], "modes": [2, 0]})
    for hbar in (2.0, 1.0, 0.5):
        out.append({"probe": "purity", "hbar": hbar, "d": 1, "nu": 1.0})
        out.append({"probe": "purity", "hbar": hbar, "d": 2, "nu": 2.0})
    for kind in ("coherent", "thermal"):
        for hbar in (1.0, 3.7):
            out.append({"probe": "samples", "kind": kind, "hbar": hbar, "shots": 400, "seed": 11})
    return out


def prop_defects(case, ctx):
    probe = case["probe"]
    ctx.case(case, nontrivial=True, classes=["defects:" + probe])
    if probe == "phaseshifter":
        d, hbar = case["d"], case["hbar"]
        st_ = prep_anchor({"anchor": "coherent", "d": d, "hbar": hbar, "r": case["r"],
                           "phi": case["phi"]}, 4)
        want = np.prod([np.exp(case["r"][i] ** 2 * (np.exp(1j * case["angles"][i]) - 1))
                        for i in range(d)])
        got = st_.get_phaseshifter_expectation_value(list(case["angles"]))
        equal = len(set(case["angles"])) == 1
        bucket = ("C14:defect:phaseshifter:multimode:sqrt-branch" if equal
                  else "C14:defect:phaseshifter:multimode:distinct-angles")
        if not abs(got - want) <= 1e-9:
            raise Violation(bucket, f"product of coherent states r={case['r']} phi={case['phi']} "
                                    f"angles={case['angles']} hbar={hbar}: code {got}, closed form "
                                    f"prod exp(|alpha_j|^2 (e^(i phi_j) - 1)) = {want}")
        return
    if probe == "wigner":
        desc, hbar = case["state"], case["hbar"]
        mu, sigma = gg.moments(desc, hbar)
        state = load_state(desc, hbar, "xxpp")
        modes = case["modes"]
        x = [v * math.sqrt(hbar) for v in case["x"]]
        p = [v * math.sqrt(hbar) for v in case["p"]]
        if modes is None:
            got = state.wigner_function(positions=[x], momentums=[p])
            want = own_wigner(mu, sigma, np.array(x + p))
        else:
            got = state.wigner_function(positions=[x], momentums=[p], modes=tuple(modes))
            mr, sr = gg.reduce(mu, sigma, modes)
            want = own_wigner(mr, sr, np.array(x + p))
        got = float(np.asarray(got).ravel()[0])
        if not abs(got - want) <= 1e-9 * (1 + abs(want)):
            raise Violation("C14:defect:wigner:multimode-point-ordering",
                            f"{case}: W(x, p) = {got}, reference {want} (the point is assembled as "
                            f"(x_1..x_k, p_1..p_k) but compared with xpxp-ordered mean / covariance)")
        return
    if probe == "purity":
        d, hbar, nu = case["d"], case["hbar"], case["nu"]
        state = new_state(d, hbar)
        state.xxpp_covariance_matrix = hbar * nu * np.eye(2 * d)     # thermal state, nu = 2 nbar + 1
        got, want = float(state.get_purity()), nu ** (-d)
        if not abs(got - want) <= 1e-12:
            raise Violation("C14:defect:purity:hbar-dependent",
                            f"thermal state sigma = hbar*{nu}*1 on d={d}, hbar={hbar}: get_purity() = "
                            f"{got}, Tr rho^2 = {want}; is_pure() = {state.is_pure()}")
        if bool(state.is_pure()) != (nu == 1.0):
            raise Violation("C14:defect:purity:hbar-dependent",
                            f"sigma = hbar*{nu}*1 on d={d}, hbar={hbar}: is_pure() = {state.is_pure()}")
        return
    if probe == "samples":
        kind, hbar, shots, seed = case["kind"], case["hbar"], case["shots"], case["seed"]

        def run(h):
            with pq.Program() as prog:
                pq.Q() | pq.Vacuum()
                if kind == "coherent":
                    pq.Q(0) | pq.Displacement(r=1.0)
                else:
                    pq.Q() | pq.Covariance(np.eye(2) * 3.0)
                pq.Q() | pq.ParticleNumberMeasurement()
            sim = pq.GaussianSimulator(d=1, config=pq.Config(hbar=h, seed_sequence=seed,
                                                             measurement_cutoff=8))
            return np.array(sim.execute(prog, shots=shots).samples)[:, 0]
        ref, got = run(2.0), run(hbar)
        exact = (np.array([math.exp(-1) / math.factorial(n) for n in range(8)]) if kind == "coherent"
                 else np.array([0.5 ** (n + 1) for n in range(8)]))
        for h, s in ((2.0, ref), (hbar, got)):
            emp = np.bincount(s, minlength=8)[:8] / shots
            tv = 0.5 * float(np.abs(emp - exact).sum())
            # N = 400, 8 bins: E[TV] ~ 0.04, P(TV > 0.2) < 1e-12 for the right distribution
            if tv > 0.2:
                raise Violation("C14:defect:samples:hbar-dependent",
                                f"{kind} state, hbar={h}: photon-number samples have total variation "
                                f"distance {tv:.3f} from the exact distribution (empirical "
                                f"{emp.round(3).tolist()}, exact {exact.round(3).tolist()})")
        if float(np.mean(ref != got)) > 0.02:
            raise Violation("C14:defect:samples:hbar-dependent",
                            f"{kind} state: samples with equal seed differ between hbar=2 and "
                            f"hbar={hbar} in {np.mean(ref != got):.0%} of the shots")
        return
    raise KeyError(probe)


def parts(tier):
    return [
        Part("defects", prop_defects, kind="enum", cases=defect_cases,
             budget_s={"quick": 60, "thorough": 120}),
        Part("anchors", prop_anchor, strategy=anchor_cases(),
             examples={"quick": 600, "thorough": 20000},
             budget_s={"quick": 45, "thorough": 2500}),
        Part("roundtrip", prop_roundtrip, strategy=roundtrip_cases(),
             examples={"quick": 800, "thorough": 20000},
             budget_s={"quick": 60, "thorough": 3000}),
        Part("hbar", prop_hbar, strategy=hbar_cases(),
             examples={"quick": 600, "thorough": 20000},
             budget_s={"quick": 60, "thorough": 3000}),
    ]
