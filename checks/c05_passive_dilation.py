"""C05 — passive-state probability interfaces agree with a unitary dilation.

Oracle (lib/c05_oracle.py, independent of PassiveState): the harness multiplies the
instruction matrices itself into a transmission matrix A, builds the Halmos dilation
U = [[A, sqrt(1-AA+)], [sqrt(1-A+A), -A+]] (unitarity asserted to 1e-12), runs it on
`PureFockSimulator` with 2d modes and traces the environment out.  Post-selection is the
restriction of that table to the pattern (unnormalised), marginals are sums of the table.
Partially distinguishable photons: internal states in C^r, FockStateVector on D*r modes and
kron(U, 1_r) on PureFockSimulator, cross-checked (always) by the brute-force double sum over
permutations, by independent classical particles for orthogonal photons and by the
indistinguishable table for identical internal states.

Known defects of the tree are excluded *by construction* from exactly the assertions they
break and are asserted in small dedicated parts (f17-f20 have been fixed in the repository:
their parts are regression probes and the main search covers their regions again):

  f15_region  C05:lossy-nonuniform:table-vs-single-outcome,
              C05:lossy-nonuniform:distinguishable-vs-dilation  (loss-kernel convention)
  f16_region  C05:gram:complex-convention-conjugated            (G[i,j] = <phi_j|phi_i>)
  f17_region  C05:postselected:lossy-or-distinguishable:table-raises
  f18_region  C05:lossy-superposition:coefficients-conjugated   (cross terms use conj(c))
  f19_region  C05:postselected-superposition:state_vector-raises (terms with fewer photons
              than post-selected are dropped from one list but not from the other; FIXED in
              the repository by d92ebee -- not excluded any more, the part guards the fix)
  f20_region  C05:distinguishable-prep:cutoff-not-inferred       (DistinguishableNumberState
              neither infers nor validates the cutoff: n >= 4 photons with the default
              configuration give a table that sums to 0, or an IndexError at overlap 1)

`C05_SKIP_KNOWN_REGIONS=1` drops the dedicated parts (used by the sensitivity protocol);
`C05_ASSUME_FIXED=f15,f16,...` lifts the corresponding exclusions (candidate fixes).
"""

from __future__ import annotations

import itertools
import math
import os
import warnings

import numpy as np
from hypothesis import strategies as st

from lib import bootstrap, progs
from lib import c05_oracle as O
from lib.harness import HarnessError, Part, Violation

pq = bootstrap.load()

from piquasso.api.exceptions import (  # noqa: E402
    InvalidParameter,
    InvalidState,
    NotImplementedCalculation,
)

PID = "C05"
LEVEL = "exploration"
SHARDS = {"quick": 8, "thorough": 16}
TOL = 1e-9        # probabilities are O(1) sums of <= 576 O(1) terms: DESIGN.md 1.8 with scale 1
NEG = -1e-12
ORACLE_TOL = 1e-10  # mutual agreement demanded of the independent oracles

B_F15 = "C05:lossy-nonuniform:table-vs-single-outcome"
B_F15P = "C05:lossy-nonuniform:distinguishable-vs-dilation"
B_F16 = "C05:gram:complex-convention-conjugated"
B_F17 = "C05:postselected:lossy-or-distinguishable:table-raises"
B_F18 = "C05:lossy-superposition:coefficients-conjugated"
B_F19 = "C05:postselected-superposition:state_vector-raises"
B_F20 = "C05:distinguishable-prep:cutoff-not-inferred"

RULE = (
    "Hypothesis-built cases by construction (no rejection): d<=4 modes, n<=4 photons incl. "
    "bunched inputs and (indistinguishable) superpositions; transmission matrix written as "
    "the user would write it (LossyInterferometer W1 diag(s) W2 with Haar/real/permutation/"
    "diagonal W and s in [0,1]^d with atoms 0, 1 and repeated values; Interferometer + "
    "per-mode Loss + Interferometer; interleaved Interferometer/Loss/UniformLoss/"
    "LossyInterferometer on ordered mode subsets); PostSelectPhotons on 0..2 modes in one or "
    "two instructions, at the end or mid-circuit, any counts incl. impossible; overlap none / "
    "scalar (atoms 0, 1) / Gram (complex, real, rank-1, identity, clustered; a fifth of the "
    "cases: general Gram matrix on inputs mixing singly occupied and bunched modes); cutoff n+1, n+2 "
    "or inferred. Every interface the state offers is compared entry by entry with the "
    "dilation table. Non-trivial = n>=2, at least two features among {non-uniform loss, "
    "complex matrix, post-selection, overlap, marginals checked}, >=3 outcomes of the "
    "unrestricted dilation table with p>0.01 and a post-selection pattern of probability "
    ">1e-3; distinct by hash of the case description."
)
ASSUMPTIONS = [
    "PureFockSimulator (FockStateVector + Interferometer) is the trusted base; the Halmos "
    "dilation is asserted unitary to 1e-12 in the harness",
    "the harness' product of the embedded instruction matrices is the transmission matrix "
    "(matrix meaning of the individual gates is C07's subject)",
    "partially distinguishable cases too large for the internal-mode construction on the "
    "pure Fock simulator (more than 12 modes; 18 in rare cases) rest on the permutation "
    "double sum, which is cross-checked against that construction on all smaller cases",
    "get_marginal_fock_probabilities takes original mode labels (pinned by "
    "tests/_simulators/passive/test_state.py), get_particle_detection_probability the "
    "occupation of the remaining modes in ascending order",
]
FLOORS = {
    "loss:nonuniform": 0.15,
    "ps:1+": 0.2,
    "overlap:gram": 0.08,
    "overlap:scalar": 0.08,
    "input:bunched": 0.15,
    "input:superposition": 0.03,
    "marginals_checked": 0.1,
    "matrix:complex": 0.4,
    "gram_general_bunched_after_single": 0.03,
}
SKIP_KNOWN = bool(os.environ.get("C05_SKIP_KNOWN_REGIONS"))


# ------------------------------------------------------------------ case -> matrices

def op_matrix(op) -> np.ndarray:
    k = len(op["modes"])
    kind = op["op"]
    if kind == "I":
        return progs.haar_unitary(k, op["seed"], op["ukind"])
    if kind == "L":
        return np.array([[op["t"]]], dtype=complex)
    if kind == "UL":
        return np.eye(k, dtype=complex) * op["t"]
    if kind == "LI":
        w1 = progs.haar_unitary(k, op["seed"], op["ukind"])
        w2 = progs.haar_unitary(k, op["seed"] + 1, op["ukind2"])
        return w1 @ np.diag(np.asarray(op["s"], dtype=float)) @ w2
    raise KeyError(kind)


def transmission(case):
    d = case["d"]
    a = np.eye(d, dtype=complex)
    flagged = False
    for op in case["ops"]:
        if op["op"] == "PS":
            continue
        a = O.embed(d, op["modes"], op_matrix(op)) @ a
        flagged = flagged or op["op"] in ("L", "UL", "LI")
    return a, flagged


def input_terms(case):
    inp = case["input"]
    if inp["kind"] == "number":
        return [(tuple(inp["occ"]), 1.0 + 0j)]
    terms = [(tuple(o), complex(c[0], c[1])) for o, c in inp["terms"]]
    nrm = math.sqrt(sum(abs(c) ** 2 for _, c in terms))
    return [(o, c / nrm) for o, c in terms]


def gram_of(case, n):
    """-> (kind, G documented convention | None, V | None, scalar | None)."""
    ov = case["overlap"]
    if ov["kind"] == "none":
        return "none", None, None, None
    if ov["kind"] == "scalar":
        lam = float(ov["lam"])
        g = O.scalar_gram(n, lam)
        v = None
        if 0.0 < lam < 1.0 and n >= 1:
            w, q = np.linalg.eigh(g.real)
            v = (q * np.sqrt(np.clip(w, 0, None))).T.astype(complex)  # G = V+ V
        elif lam == 0.0:
            v = np.eye(max(n, 1), dtype=complex)[:, :n]
        else:
            v = np.ones((1, n), dtype=complex)
        return "scalar", g, v, lam
    v, g = O.internal_states(ov["sub"], n, ov["r"], ov["seed"])
    return "gram", g, v, None


def build_and_run(case, g, lam, cutoff="case"):
    d = case["d"]
    cutoff = case["cutoff"] if cutoff == "case" else cutoff
    inp = case["input"]
    with warnings.catch_warnings():
        warnings.simplefilter("ignore")
        with pq.Program() as program:
            if inp["kind"] == "super":
                pq.Q() | pq.FockStateVector({o: c for o, c in input_terms(case)})
            elif case["overlap"]["kind"] == "none":
                pq.Q() | pq.NumberState(list(inp["occ"]))
            elif case["overlap"]["kind"] == "scalar":
                pq.Q() | pq.DistinguishableNumberState(list(inp["occ"]), particle_overlap=lam)
            else:
                pq.Q() | pq.DistinguishableNumberState(list(inp["occ"]),
                                                       particle_overlap=np.array(g))
            for op in case["ops"]:
                if op["op"] == "PS":
                    pq.Q(*op["modes"]) | pq.PostSelectPhotons(tuple(op["counts"]))
                elif op["op"] == "I":
                    pq.Q(*op["modes"]) | pq.Interferometer(op_matrix(op))
                elif op["op"] == "L":
                    pq.Q(*op["modes"]) | pq.Loss(op["t"])
                elif op["op"] == "UL":
                    pq.Q(*op["modes"]) | pq.UniformLoss(op["t"])
                else:
                    pq.Q(*op["modes"]) | pq.LossyInterferometer(op_matrix(op))
        cfg = pq.Config() if cutoff is None else pq.Config(cutoff=cutoff)
        return pq.PassiveSimulator(d=d, config=cfg).execute(program).state


# ------------------------------------------------------------------------- oracle

def oracle_tables(case, a, terms, okind, g, v, lam, ctx, pf_limit):
    """-> dict(doc=table documented convention, conj=table conjugate convention, amps)."""
    d = case["d"]
    if okind == "none" or sum(terms[0][0]) == 0:
        table, amps = O.table_indistinguishable(pq, d, terms, a)
        return {"doc": table, "conj": table, "amps": amps}
    occ = terms[0][0]
    n = sum(occ)
    doc = O.table_gram_perm(d, occ, a, g)
    if np.abs(g.imag).max() > 0:
        conj = O.table_gram_perm(d, occ, a, g.conj())
    else:
        conj = doc
    total = sum(doc.values())
    if abs(total - 1) > ORACLE_TOL:
        raise HarnessError(f"permutation-sum oracle is not normalised: {total!r}")
    # independent cross-checks of the double sum
    if np.abs(g - np.eye(n)).max() == 0:
        if O.max_diff(doc, O.table_classical(d, occ, a)) > ORACLE_TOL:
            raise HarnessError("double sum disagrees with independent classical particles")
        ctx.count("oracle:classical_crosscheck")
    if np.abs(np.abs(g) - 1).max() < 1e-14 and np.linalg.matrix_rank(g, tol=1e-10) <= 1:
        ind, _ = O.table_indistinguishable(pq, d, terms, a)
        if O.max_diff(doc, ind) > ORACLE_TOL:
            raise HarnessError("double sum disagrees with indistinguishable bosons at rank 1")
        ctx.count("oracle:rank1_crosscheck")
    if v is not None and n >= 1:
        big = d if O.is_unitary(a) else 2 * d
        if big * v.shape[0] <= pf_limit:
            pf = O.table_gram_pf(pq, d, occ, a, v)
            if O.max_diff(doc, pf) > ORACLE_TOL:
                raise HarnessError("double sum disagrees with the internal-mode construction "
                                   f"on the pure Fock simulator: {O.max_diff(doc, pf):.2e}")
            ctx.count("oracle:pure_fock_internal_modes_crosscheck")
        else:
            ctx.count("oracle:permutation_sum_only")
    return {"doc": doc, "conj": conj, "amps": None}


def f15_trigger(a, occ, g_eff) -> bool:
    """The loss kernel I - A+A restricted to the photons' input modes has an imaginary
    off-diagonal entry that is multiplied by a non-zero overlap."""
    if O.is_unitary(a):
        return False
    fq = O.first_quantized(occ)
    if len(fq) < 2:
        return False
    kern = (np.eye(len(a)) - a.conj().T @ a)[np.ix_(fq, fq)]
    return bool((np.abs(kern.imag) * np.abs(g_eff)).max() > 1e-13)


# ------------------------------------------------------------------------- the property

def _real(x, what, k):
    z = complex(np.asarray(x).reshape(-1)[0]) if np.ndim(x) else complex(x)
    if abs(z.imag) > TOL:
        raise Violation(f"C05:{what}:complex-valued", f"{what}{k} = {z!r}")
    return z.real


def _call(f):
    try:
        return "ok", f()
    except NotImplementedCalculation as e:
        return "nyi", e
    except Exception as e:  # noqa: BLE001 - converted to a Violation by the caller
        return "exc", e


# Regions excluded from the main search.  Once a fix is committed, delete its entry here (the
# dedicated part then guards the fix, the main search covers the region); for trying a
# candidate fix in a scratch tree use C05_ASSUME_FIXED=f15,f16,... with PIQUASSO_REPO.
# Fixed in the repository and therefore no longer excluded (their region parts guard the
# fixes): f19 (d92ebee), f17 (44b8aab), f18 (a284054), f20 (280747f).  f15/f16 stay known:
# the one-line fix would break the pinned test_LossyInterferometer_fock_probabilities.
ALL_KNOWN = tuple(k for k in ("f15", "f16")
                  if k not in os.environ.get("C05_ASSUME_FIXED", "").split(","))


def evaluate(case, ctx, exclude=ALL_KNOWN):
    d = case["d"]
    terms = input_terms(case)
    multi = len(terms) > 1
    nmax = max(sum(o) for o, _ in terms)
    occ0 = terms[0][0]
    a, flagged = transmission(case)
    okind, g, v, lam = gram_of(case, sum(occ0))
    if okind == "scalar" and np.isclose(lam, 1.0):
        pd = False
    else:
        pd = okind != "none"
    sv = np.linalg.svd(a, compute_uv=False)
    spread = float(sv.max() - sv.min())
    unitary = O.is_unitary(a)
    uniform = spread <= 1e-10          # incl. lossless
    ambiguous = 1e-10 < spread < 1e-3  # np.isclose region of is_uniformly_lossy
    complex_matrix = bool(np.abs(a.imag).max() > 1e-12)

    ps_modes, ps_counts = [], []
    for op in case["ops"]:
        if op["op"] == "PS":
            ps_modes += list(op["modes"])
            ps_counts += list(op["counts"])
    remaining = [m for m in range(d) if m not in ps_modes]
    npost = sum(ps_counts)

    # ---- run the real thing
    # an inferred cutoff is max(default, n+1) -- except that DistinguishableNumberState
    # leaves the default untouched (known finding f20): there the case is run with the
    # explicit cutoff n+1 instead
    default_cutoff = pq.Config().cutoff
    in_f20 = okind != "none" and case["cutoff"] is None and nmax + 1 > default_cutoff
    run_cutoff = case["cutoff"]
    if in_f20 and "f20" in exclude:
        ctx.exclude(B_F20)
        run_cutoff = nmax + 1
    try:
        state = build_and_run(case, g, lam, run_cutoff)
    except (InvalidState, InvalidParameter, NotImplementedCalculation) as e:
        ctx.case(case, False, [f"rejected_at_execution:{type(e).__name__}"])
        raise Violation(f"C05:execute:rejected:{type(e).__name__}",
                        f"a program of the documented family was refused: {e}")

    c0 = run_cutoff if run_cutoff is not None else max(default_cutoff, nmax + 1)
    cred = c0 - npost
    basis = progs.basis_tuples(pq, len(remaining), cred) if cred > 0 else []

    # ---- oracle
    pf_limit = 18 if case.get("big") else 12
    tabs = oracle_tables(case, a, terms, "none" if not pd and okind == "scalar" else okind,
                         g, v, lam, ctx, pf_limit)
    conv_sensitive = O.max_diff(tabs["doc"], tabs["conj"]) > 1e-12
    if conv_sensitive and "f16" in exclude:
        ctx.exclude(B_F16)
        full = tabs["conj"]
    else:
        full = tabs["doc"]
    amps = tabs["amps"]
    full_single, f18_sensitive, conj_terms_table = full, False, None
    if flagged and multi and any(abs((c1 * np.conj(c2)).imag) > 1e-13 and sum(o1) == sum(o2)
                                 for (o1, c1), (o2, c2) in itertools.combinations(terms, 2)):
        conj_terms_table, _ = O.table_indistinguishable(
            pq, d, [(o, np.conj(c)) for o, c in terms], a)
        f18_sensitive = O.max_diff(conj_terms_table, full) > 1e-12
        if f18_sensitive and "f18" in exclude:
            ctx.exclude(B_F18)
            full_single = conj_terms_table

    def widen(k):
        out = [0] * d
        for m, x in zip(remaining, k):
            out[m] = x
        for m, x in zip(ps_modes, ps_counts):
            out[m] = x
        return tuple(out)

    expected = [float(full.get(widen(k), 0.0)) for k in basis]
    total = float(sum(expected))
    if not ps_modes and cred >= nmax + 1 and abs(total - 1) > ORACLE_TOL:
        raise HarnessError(f"oracle table sums to {total!r}")

    g_eff = np.ones((sum(occ0),) * 2) if not pd else np.abs(g)
    in_f15 = (not multi) and f15_trigger(a, occ0, g_eff)
    in_f17 = (flagged or pd) and bool(ps_modes) and not multi
    # state_vector drops the terms with fewer photons than post-selected from its local
    # arrays but keeps indexing the unfiltered coefficient / occupation lists
    nkept = sum(1 for o, _ in terms if sum(o) >= npost)
    in_f19 = (multi and not flagged and not pd and bool(ps_modes)
              and any(sum(o) < npost for o, _ in terms[:nkept]))
    regime = ("ideal" if not flagged and not pd else "lossy" if not pd else
              "pd-uniform-lossless" if okind == "scalar" and not flagged else "pd-general")

    # ---- accounting
    feats = sum([(not uniform), complex_matrix, bool(ps_modes), pd])
    will_marginal = (uniform or ambiguous) and not pd and not multi and bool(remaining)
    nontrivial = (nmax >= 2 and feats + int(will_marginal) >= 2
                  and sum(1 for p in full.values() if p > 0.01) >= 3
                  and (not ps_modes or total > 1e-3))
    classes = [f"regime:{regime}", f"ps:{min(len(ps_modes), 2)}", f"overlap:{okind}",
               f"d:{d}", f"n:{nmax}"]
    if ps_modes:
        classes.append("ps:1+")
    if any(x >= 2 for x in occ0):
        classes.append("input:bunched")
    if multi:
        classes.append("input:superposition")
    classes.append("loss:none" if unitary and not flagged else
                   "loss:flag-only" if unitary else
                   "loss:uniform" if uniform else "loss:nonuniform")
    if complex_matrix:
        classes.append("matrix:complex")
    if case["cutoff"] is None:
        classes.append("cutoff:inferred")
    if cred <= 0 or (ps_modes and total < 1e-14):
        classes.append("ps:impossible")
    if any(op["op"] != "PS" for op in case["ops"][next(
            (i for i, o in enumerate(case["ops"]) if o["op"] == "PS"), len(case["ops"])):]):
        classes.append("ps:mid-circuit")
    if okind == "gram":
        classes.append(f"gram:{case['overlap']['sub']}")
    if conv_sensitive:
        classes.append("gram:convention-sensitive")
    if okind == "gram" and not (in_f15 and "f15" in exclude):
        # general Gram matrix, a bunched input mode after a singly occupied one, and the
        # Gram block of the bunched photons differs in modulus from the block an index that
        # was not advanced would address: the comparison with the dilation (active here)
        # sees a normalisation taken from the wrong block
        fq = O.first_quantized(occ0)
        ag = np.abs(g)
        for m in sorted(set(fq)):
            mult, first = fq.count(m), fq.index(m)
            if mult >= 2 and any(occ0[j] == 1 for j in range(m)):
                right = ag[first:first + mult, first:first + mult]
                shifted = [ag[s0:s0 + mult, s0:s0 + mult] for s0 in range(first)]
                if any(np.abs(np.sort(right, axis=None) - np.sort(w, axis=None)).max() > 1e-3
                       for w in shifted):
                    classes.append("gram_general_bunched_after_single")
                    break
    if will_marginal:
        classes.append("marginals_checked")
    if not nontrivial:
        classes.append("trivial:" + ("n<2" if nmax < 2 else "one-feature"
                                     if feats + int(will_marginal) < 2 else "few-outcomes"))
    ctx.case(case, nontrivial, classes)

    where = (f"[{regime}; d={d}, input={[(list(o), c) for o, c in terms] if multi else list(occ0)}, "
             f"singular values={np.round(sv, 6).tolist()}, postselect={dict(zip(ps_modes, ps_counts))}, "
             f"overlap={case['overlap']}]")

    # ---- cutoff bookkeeping
    if int(state._config.cutoff) != cred:
        raise Violation(B_F20 if in_f20 and "f20" not in exclude else "C05:cutoff-bookkeeping",
                        f"state cutoff {state._config.cutoff}, expected {c0} - {npost}"
                        + (f" (cutoff not given: NumberState infers n+1 = {nmax + 1}, "
                           f"DistinguishableNumberState keeps the default {default_cutoff}; its "
                           f"table then misses every {nmax}-photon outcome)"
                           if in_f20 and "f20" not in exclude else "")
                        + f" {where}")
    if state.d != len(remaining):
        raise Violation("C05:mode-bookkeeping", f"state.d={state.d}, expected {len(remaining)}")

    # ---- single-outcome interface
    single = []
    probe = basis if basis else [(0,) * len(remaining)]
    for k in probe:
        kind, val = _call(lambda: state.get_particle_detection_probability(np.array(k, dtype=int)))
        if kind != "ok":
            raise Violation(f"C05:single:raises:{type(val).__name__}",
                            f"get_particle_detection_probability({k}) raised {val!r} {where}")
        single.append(_real(val, "single", k))
    single_vs_oracle = not (pd and in_f15)
    if pd and in_f15:
        if "f15" in exclude:
            ctx.exclude(B_F15P, len(probe))
        else:
            single_vs_oracle = True
    for k, p in zip(probe, single):
        if p < NEG:
            raise Violation(f"C05:negative-probability:single:{regime}",
                            f"get_particle_detection_probability({k}) = {p!r} {where}")
        if single_vs_oracle:
            e = float(full_single.get(widen(k), 0.0))
            if abs(p - e) > TOL:
                bucket = (B_F15P if pd and in_f15 else
                          B_F18 if f18_sensitive and "f18" not in exclude
                          and abs(p - conj_terms_table.get(widen(k), 0.0)) <= TOL else
                          B_F16 if conv_sensitive and "f16" not in exclude
                          and abs(p - tabs["conj"].get(widen(k), 0.0)) <= TOL else
                          f"C05:single-vs-dilation:{regime}")
                raise Violation(bucket, f"get_particle_detection_probability({k}) = {p!r}, "
                                        f"dilation {e!r} (diff {p - e:.3e}) {where}")

    # ---- full table
    kind, table = _call(lambda: np.asarray(state.fock_probabilities))
    table_expected_ok = not ((flagged or pd) and multi)
    table_ok = False
    if in_f17 and "f17" in exclude:
        ctx.exclude(B_F17)
        if kind == "ok":
            ctx.count("f17_region_table_did_not_raise")
    elif in_f19 and "f19" in exclude:
        ctx.exclude(B_F19)
    elif kind == "exc":
        raise Violation(B_F17 if in_f17 else B_F19 if in_f19 else
                        f"C05:table:raises:{type(table).__name__}",
                        f"fock_probabilities raised {type(table).__name__}: {table} {where}")
    elif kind == "nyi":
        if table_expected_ok:
            raise Violation("C05:unexpected-rejection:fock_probabilities", f"{table} {where}")
        ctx.count("rejected:fock_probabilities:lossy-or-distinguishable-superposition")
    else:
        table_ok = True
    if table_ok:
        if np.shape(table) != (len(basis),):
            raise Violation("C05:table:length", f"fock_probabilities has shape {np.shape(table)}, "
                                                f"{len(basis)} basis vectors below cutoff {cred} {where}")
        table = [_real(x, "table", basis[i]) for i, x in enumerate(table)]
        tsum = float(sum(table))
        skip_oracle = in_f15 and "f15" in exclude
        if skip_oracle:
            ctx.exclude(B_F15, len(basis))
        for i, k in enumerate(basis):
            if table[i] < NEG and not skip_oracle:
                raise Violation(f"C05:negative-probability:table:{regime}",
                                f"fock_probabilities[{k}] = {table[i]!r} {where}")
            if not (skip_oracle and not pd) and abs(table[i] - single[i]) > TOL:
                raise Violation(B_F15 if in_f15 and not pd else f"C05:table-vs-single:{regime}",
                                f"fock_probabilities[{k}] = {table[i]!r}, "
                                f"get_particle_detection_probability = {single[i]!r}; table sums "
                                f"to {tsum!r} {where}")
            if not skip_oracle and abs(table[i] - expected[i]) > TOL:
                bucket = ((B_F15P if pd else B_F15) if in_f15 else
                          B_F16 if conv_sensitive and "f16" not in exclude else
                          f"C05:table-vs-dilation:{regime}")
                raise Violation(bucket, f"fock_probabilities[{k}] = {table[i]!r}, dilation "
                                        f"{expected[i]!r}; table sums to {tsum!r} {where}")
        if not skip_oracle and abs(tsum - total) > TOL:
            raise Violation(f"C05:total:{regime}", f"table sums to {tsum!r}, dilation "
                                                   f"total {total!r} {where}")
        kind, fmap = _call(lambda: state.fock_probabilities_map)
        if kind != "ok":
            raise Violation(f"C05:map:raises:{type(fmap).__name__}", f"{fmap!r} {where}")
        keys = [tuple(int(x) for x in k) for k in fmap]
        if keys != basis:
            raise Violation("C05:map:keys", f"fock_probabilities_map keys {keys[:4]}.. are not "
                                            f"the basis below the cutoff {where}")
        vals = np.array([_real(x, "map", None) for x in fmap.values()])
        if len(vals) and np.abs(vals - np.array(table)).max() > 1e-12:
            raise Violation("C05:map-vs-table", f"map values differ from fock_probabilities by "
                                                f"{np.abs(vals - np.array(table)).max():.3e} {where}")

    # ---- state vector
    kind, vec = _call(lambda: np.asarray(state.state_vector))
    vec_expected_ok = not flagged and not pd
    if in_f19 and "f19" in exclude:
        kind = "skip"
    elif kind == "exc":
        raise Violation(B_F19 if in_f19 else f"C05:state_vector:raises:{type(vec).__name__}",
                        f"state_vector raised {vec!r} {where}")
    if kind == "skip":
        pass
    elif kind == "nyi":
        if vec_expected_ok:
            raise Violation("C05:unexpected-rejection:state_vector", f"{vec} {where}")
        ctx.count("rejected:state_vector:lossy-or-distinguishable")
    else:
        if vec.shape != (len(basis),):
            raise Violation("C05:state_vector:length", f"{vec.shape} vs {len(basis)} {where}")
        if amps is None:
            raise Violation("C05:state_vector:available-for-non-unitary",
                            f"a state vector was returned for a non-unitary matrix {where}")
        ref = np.array([amps.get(widen(k), 0j) for k in basis], dtype=complex)
        if len(ref) and np.abs(vec - ref).max() > TOL:
            i = int(np.argmax(np.abs(vec - ref)))
            raise Violation("C05:state_vector-vs-pure-fock",
                            f"state_vector[{basis[i]}] = {vec[i]!r}, PureFockSimulator "
                            f"{ref[i]!r} {where}")
        if table_ok and len(ref) and np.abs(np.abs(vec) ** 2 - np.array(table)).max() > TOL:
            raise Violation("C05:state_vector-vs-table", f"|state_vector|^2 differs from "
                                                         f"fock_probabilities {where}")
        ctx.count("state_vector_compared")

    # ---- norm
    kind, nrm = _call(lambda: state.norm)
    if (in_f17 and "f17" in exclude) or (in_f19 and "f19" in exclude):
        pass
    elif kind == "exc":
        raise Violation(B_F17 if in_f17 else B_F19 if in_f19 else
                        f"C05:norm:raises:{type(nrm).__name__}",
                        f"norm raised {type(nrm).__name__}: {nrm} {where}")
    elif kind == "nyi":
        if table_expected_ok or not ps_modes:
            raise Violation("C05:unexpected-rejection:norm", f"{nrm} {where}")
        ctx.count("rejected:norm")
    elif not (in_f15 and ps_modes and "f15" in exclude):
        if abs(_real(nrm, "norm", "") - total) > TOL and (ps_modes or cred >= nmax + 1):
            raise Violation("C05:norm-vs-total", f"norm = {nrm!r}, total probability of the "
                                                 f"dilation table {total!r} {where}")

    # ---- marginals
    marg_expected_ok = (uniform or ambiguous) and not pd and not multi
    subsets = [m for k in range(1, len(remaining) + 1)
               for m in itertools.permutations(remaining, k)]
    if len(subsets) > 15 and ctx.tier == "quick":
        rng = progs.rng_of(case["mseed"])
        pick = sorted(rng.choice(len(subsets), size=10, replace=False).tolist())
        subsets = [subsets[i] for i in pick]
    for modes in subsets:
        kind, marg = _call(lambda: state.get_marginal_fock_probabilities(tuple(modes)))
        if kind == "exc":
            raise Violation(f"C05:marginal:raises:{type(marg).__name__}",
                            f"get_marginal_fock_probabilities({modes}) raised {marg!r} {where}")
        if kind == "nyi":
            if marg_expected_ok and not ambiguous:
                raise Violation("C05:unexpected-rejection:marginal", f"{marg} {where}")
            ctx.count("rejected:marginal:nonuniform-or-distinguishable-or-superposition")
            break
        ref: dict = {}
        for kfull, p in full.items():
            if all(kfull[m] == c for m, c in zip(ps_modes, ps_counts)):
                key = tuple(kfull[m] for m in modes)
                ref[key] = ref.get(key, 0.0) + p
        got = {tuple(int(x) for x in k): _real(p, "marginal", k) for k, p in marg.items()}
        if len(got) != len(marg) or any(len(k) != len(modes) for k in got):
            raise Violation("C05:marginal:keys", f"modes={modes}: keys {list(marg)[:4]} {where}")
        for k in set(ref) | set(got):
            if k not in got:
                if ref[k] > TOL:
                    raise Violation("C05:marginal:missing-outcome",
                                    f"modes={modes}: outcome {k} with probability {ref[k]!r} "
                                    f"is missing {where}")
                continue
            if got[k] < NEG:
                raise Violation("C05:negative-probability:marginal",
                                f"modes={modes}: P{k} = {got[k]!r} {where}")
            if abs(got[k] - ref.get(k, 0.0)) > TOL:
                raise Violation("C05:marginal-vs-table",
                                f"get_marginal_fock_probabilities({modes})[{k}] = {got[k]!r}, "
                                f"marginal of the dilation table {ref.get(k, 0.0)!r} {where}")
        ctx.count("marginal_subsets_compared")


def prop_main(case, ctx):
    evaluate(case, ctx)


def _only(name):
    return tuple(k for k in ALL_KNOWN if k != name)


def prop_f15(case, ctx):
    evaluate(case, ctx, exclude=_only("f15"))


def prop_f16(case, ctx):
    evaluate(case, ctx, exclude=_only("f16"))


def prop_f17(case, ctx):
    evaluate(case, ctx, exclude=_only("f17"))


def prop_f18(case, ctx):
    evaluate(case, ctx, exclude=_only("f18"))


def prop_f19(case, ctx):
    evaluate(case, ctx, exclude=_only("f19"))


def prop_f20(case, ctx):
    evaluate(case, ctx, exclude=_only("f20"))


# ------------------------------------------------------------------------- generator

UKINDS = ["haar"] * 6 + ["real", "real", "perm", "diag", "identity"]
T_ATOMS = [0.0, 1.0, 0.5, 0.25, 1 / math.sqrt(2)]


def _flush(v):
    """Magnitudes below 1e-30 are mapped to 0 (same policy as progs.small): with subnormal
    transmissivities (2e-311) the loop-hafnian kernel behind the lossy single-outcome
    probability returns garbage of magnitude 1e-2 -- a matrix-kernel conditioning matter
    (C04), reported as an observation, not searched here."""
    return 0.0 if abs(v) < progs.TINY else v


def unit_float(lo=0.0):
    return st.floats(lo, 1.0, allow_nan=False, width=64).map(_flush)


def transmissivity():
    return st.one_of(st.sampled_from(T_ATOMS), unit_float(), unit_float(0.3))


@st.composite
def singular_values(draw, k):
    pattern = draw(st.sampled_from(["generic", "generic", "generic", "uniform", "lossless",
                                    "absorb", "repeat"]))
    if pattern == "uniform":
        return [draw(transmissivity())] * k
    if pattern == "lossless":
        return [1.0] * k
    if pattern == "repeat":
        two = [draw(transmissivity()), draw(transmissivity())]
        return [two[draw(st.integers(0, 1))] for _ in range(k)]
    s = [draw(transmissivity()) for _ in range(k)]
    if pattern == "absorb":
        s[draw(st.integers(0, k - 1))] = 0.0
    return s


@st.composite
def linear_op(draw, active, kinds):
    kind = draw(st.sampled_from(kinds))
    seed = draw(st.integers(0, 2**32))
    if kind == "L":
        return {"op": "L", "modes": [draw(st.sampled_from(active))], "t": draw(transmissivity())}
    modes = draw(progs.ordered_modes(0, None, active))
    if draw(st.booleans()):
        modes = list(draw(st.permutations(active)))  # all active modes, any order
    if kind == "UL":
        return {"op": "UL", "modes": modes, "t": draw(transmissivity())}
    if kind == "I":
        return {"op": "I", "modes": modes, "seed": seed, "ukind": draw(st.sampled_from(UKINDS))}
    return {"op": "LI", "modes": modes, "seed": seed, "ukind": draw(st.sampled_from(UKINDS)),
            "ukind2": draw(st.sampled_from(UKINDS)), "s": draw(singular_values(len(modes)))}


@st.composite
def circuit(draw, d, nps, nmax, styles=("svd_li", "svd_li", "svd_user", "interleaved",
                                        "interleaved", "lossless", "lossless")):
    """Linear ops interleaved with `nps` post-selected modes."""
    active = list(range(d))
    style = draw(st.sampled_from(list(styles)))
    ops = []
    if style == "uniform":
        ops.append({"op": "I", "modes": active[:], "seed": draw(st.integers(0, 2**32)),
                    "ukind": draw(st.sampled_from(UKINDS))})
        ops.append({"op": "UL", "modes": list(draw(st.permutations(active))),
                    "t": draw(unit_float(0.3))})
    elif style == "real_li":
        ops.append({"op": "LI", "modes": active[:], "seed": draw(st.integers(0, 2**32)),
                    "ukind": "real", "ukind2": "real", "s": draw(singular_values(d))})
    elif style == "svd_li":
        ops.append({"op": "LI", "modes": active[:], "seed": draw(st.integers(0, 2**32)),
                    "ukind": draw(st.sampled_from(UKINDS)),
                    "ukind2": draw(st.sampled_from(UKINDS)), "s": draw(singular_values(d))})
    elif style == "svd_user":
        s = draw(singular_values(d))
        ops.append({"op": "I", "modes": active[:], "seed": draw(st.integers(0, 2**32)),
                    "ukind": draw(st.sampled_from(UKINDS))})
        if len(set(s)) == 1 and draw(st.booleans()):
            ops.append({"op": "UL", "modes": active[:], "t": s[0]})
        else:
            for m in draw(st.permutations(active)):
                if s[m] != 1.0 or draw(st.booleans()):
                    ops.append({"op": "L", "modes": [m], "t": s[m]})
        ops.append({"op": "I", "modes": active[:], "seed": draw(st.integers(0, 2**32)),
                    "ukind": draw(st.sampled_from(UKINDS))})
    elif style == "lossless":
        for _ in range(draw(st.integers(1, 2))):
            ops.append(draw(linear_op(active, ["I"])))
    else:
        for _ in range(draw(st.integers(1, 4))):
            ops.append(draw(linear_op(active, ["I", "I", "L", "UL", "LI"])))
    if nps == 0:
        return ops

    def counts(k):
        # mostly satisfiable patterns; sometimes more photons than exist
        return [draw(st.sampled_from([0, 0, 0, 1, 1, 1, 2, 2, 3, nmax, nmax + 1]))
                for _ in range(k)]

    layout = draw(st.sampled_from(["end", "end", "split", "mid"]))
    if layout == "end" or nps == 1 and layout == "split":
        modes = draw(progs.ordered_modes(0, nps, active))
        ops.append({"op": "PS", "modes": modes, "counts": counts(nps)})
        return ops
    if layout == "split":
        for _ in range(nps):
            m = draw(st.sampled_from(active))
            active.remove(m)
            ops.append({"op": "PS", "modes": [m], "counts": counts(1)})
            if draw(st.booleans()) and active:
                ops.append(draw(linear_op(active, ["I", "L", "UL", "LI"])))
        return ops
    # mid: post-select, then keep acting on the remaining modes
    modes = draw(progs.ordered_modes(0, nps, active))
    for m in modes:
        active.remove(m)
    ops.append({"op": "PS", "modes": modes, "counts": counts(nps)})
    for _ in range(draw(st.integers(1, 2))):
        ops.append(draw(linear_op(active, ["I", "L", "UL", "LI"])))
    return ops


@st.composite
def occupation(draw, d, n):
    occ = [0] * d
    style = draw(st.sampled_from(["any", "any", "spread", "one-mode"]))
    if style == "one-mode":
        occ[draw(st.integers(0, d - 1))] = n
        return occ
    if style == "spread" and n <= d:
        for m in draw(st.permutations(range(d)))[:n]:
            occ[m] = 1
        return occ
    for _ in range(n):
        occ[draw(st.integers(0, d - 1))] += 1
    return occ


# occupied-mode patterns that mix singly occupied and bunched input modes (n = 3, 4): the
# photon ordering / block structure of a Gram matrix only matters for these
MIXED = [[1, 2], [2, 1], [1, 1, 2], [1, 2, 1], [2, 1, 1], [2, 2], [1, 3], [3, 1], [1, 2],
         [1, 1, 2]]


@st.composite
def mixed_occupation(draw, d):
    pattern = draw(st.sampled_from([p for p in MIXED if len(p) <= d]))
    slots = sorted(draw(st.permutations(range(d)))[:len(pattern)])
    occ = [0] * d
    for m, c in zip(slots, pattern):
        occ[m] = c
    return occ


@st.composite
def main_case(draw, tier="quick"):
    d = draw(st.sampled_from([1, 2, 2, 3, 3, 3, 4, 4, 4]))
    flavour = draw(st.sampled_from(["none", "none", "none", "scalar", "scalar", "gram", "gram",
                                    "gram_mixed", "gram_mixed", "super"]))
    n = draw(st.sampled_from([0, 1, 2, 2, 3, 3, 3, 4, 4]))
    nps = draw(st.sampled_from([0, 0, 1, 1, 2]))
    nps = min(nps, d - 1)
    overlap = {"kind": "none"}
    if flavour == "super":
        terms, seen = [], set()
        for _ in range(draw(st.integers(2, 3))):
            m = n if draw(st.booleans()) else draw(st.integers(0, 4))
            occ = tuple(draw(occupation(d, m)))
            if occ in seen:
                continue
            seen.add(occ)
            re = _flush(draw(st.floats(-1, 1, allow_nan=False)))
            im = _flush(draw(st.floats(-1, 1, allow_nan=False)))
            if abs(re) + abs(im) < 1e-2:
                re = 1.0
            terms.append([list(occ), [re, im]])
        inp = {"kind": "super", "terms": terms}
        nmax = max(sum(o) for o, _ in terms)
    elif flavour == "gram_mixed":
        # general Gram matrix (non-uniform moduli; complex or real) on an input that mixes
        # singly occupied and bunched modes, mostly outside the region of the known
        # loss-kernel finding (lossless / uniform loss / real matrices) so that the
        # comparison with the dilation is active
        d = max(d, 2)
        nps = min(nps, d - 1)
        occ = draw(mixed_occupation(d))
        inp = {"kind": "number", "occ": occ}
        nmax = sum(occ)
        overlap = {"kind": "gram", "seed": draw(st.integers(0, 2**32)),
                   "sub": draw(st.sampled_from(["complex", "complex", "real"])),
                   "r": draw(st.integers(2, 3))}
        ops = draw(circuit(d, nps, nmax, styles=("lossless", "lossless", "uniform", "uniform",
                                                 "real_li", "svd_li", "interleaved")))
    else:
        if flavour == "gram":
            n = max(n, 1)
        inp = {"kind": "number", "occ": draw(occupation(d, n))}
        nmax = n
        if flavour == "scalar":
            overlap = {"kind": "scalar", "lam": draw(st.one_of(
                st.sampled_from([0.0, 1.0, 0.5]), unit_float()))}
        elif flavour == "gram":
            overlap = {"kind": "gram", "seed": draw(st.integers(0, 2**32)),
                       "sub": draw(st.sampled_from(["complex", "complex", "complex", "real",
                                                    "rank1", "identity", "clustered"])),
                       "r": draw(st.integers(1, 3))}
    if flavour != "gram_mixed":
        ops = draw(circuit(d, nps, nmax))
    cutoff = draw(st.sampled_from([nmax + 1, nmax + 1, nmax + 1, nmax + 2, None]))
    big = draw(st.integers(0, 39 if tier == "quick" else 9)) == 0
    return {"d": d, "input": inp, "overlap": overlap, "ops": ops, "cutoff": cutoff,
            "mseed": draw(st.integers(0, 2**16)), "big": big}


# ------------------------------------------------------------- dedicated known regions

def _li(d, s, seed=1, ukind="haar"):
    return {"op": "LI", "modes": list(range(d)), "seed": seed, "ukind": ukind, "ukind2": ukind,
            "s": list(s)}


def _case(d, occ, ops, overlap=None, cutoff="n+1"):
    return {"d": d, "input": {"kind": "number", "occ": list(occ)},
            "overlap": overlap or {"kind": "none"}, "ops": ops,
            "cutoff": sum(occ) + 1 if cutoff == "n+1" else cutoff, "mseed": 0, "big": False}


def f20_cases(tier):
    u2 = {"op": "I", "modes": [0, 1], "seed": 1, "ukind": "haar"}
    return [
        _case(2, [2, 2], [u2], {"kind": "scalar", "lam": 1.0}, cutoff=None),
        _case(2, [2, 2], [u2], {"kind": "scalar", "lam": 0.5}, cutoff=None),
        _case(2, [3, 1], [u2], {"kind": "gram", "sub": "real", "r": 2, "seed": 3}, cutoff=None),
        _case(2, [2, 1], [u2], {"kind": "scalar", "lam": 0.5}, cutoff=None),  # n+1 <= default
    ]


def f15_cases(tier):
    return [
        # minimal: two photons in two modes, one lossy mode behind a complex interferometer
        _case(2, [1, 1], [{"op": "I", "modes": [0, 1], "seed": 1, "ukind": "haar"},
                          {"op": "L", "modes": [0], "t": 0.5}]),
        _case(2, [1, 1], [_li(2, [0.9, 0.3])]),
        _case(3, [1, 1, 1], [_li(3, [0.9, 0.5, 0.3])]),      # the design's example
        _case(3, [2, 1, 0], [_li(3, [0.9, 0.5, 0.3])]),
        _case(3, [1, 1, 1], [_li(3, [0.9, 0.5, 0.3])], {"kind": "scalar", "lam": 0.4}),
        _case(3, [1, 1, 0], [_li(3, [0.9, 0.5, 0.3])],
              {"kind": "gram", "sub": "real", "r": 2, "seed": 7}),
    ]


def f16_cases(tier):
    gram = {"kind": "gram", "sub": "complex", "r": 2, "seed": 7}
    return [
        _case(3, [1, 1, 1], [{"op": "I", "modes": [0, 1, 2], "seed": 1, "ukind": "haar"}], gram),
        _case(3, [1, 1, 1], [{"op": "I", "modes": [0, 1, 2], "seed": 1, "ukind": "haar"},
                             {"op": "UL", "modes": [0, 1, 2], "t": 0.7}], gram),
        _case(3, [1, 1, 1], [_li(3, [0.9, 0.5, 0.3], ukind="real")],
              {"kind": "gram", "sub": "complex", "r": 3, "seed": 11}),
        _case(4, [1, 1, 1, 1], [{"op": "I", "modes": [0, 1, 2, 3], "seed": 3, "ukind": "haar"}],
              {"kind": "gram", "sub": "complex", "r": 2, "seed": 5}),
    ]


def f17_cases(tier):
    ps = {"op": "PS", "modes": [1], "counts": [1]}
    return [
        _case(2, [1, 1], [{"op": "L", "modes": [0], "t": 0.5}, {"op": "PS", "modes": [1],
                                                               "counts": [1]}]),
        _case(3, [1, 1, 1], [_li(3, [0.9, 0.5, 0.3], ukind="real"), ps]),
        _case(3, [1, 1, 1], [{"op": "I", "modes": [0, 1, 2], "seed": 1, "ukind": "haar"},
                             {"op": "UL", "modes": [0, 1, 2], "t": 0.7}, ps]),
        _case(3, [1, 1, 1], [{"op": "I", "modes": [0, 1, 2], "seed": 1, "ukind": "haar"}, ps],
              {"kind": "scalar", "lam": 0.4}),
        _case(3, [2, 1, 0], [{"op": "I", "modes": [0, 1, 2], "seed": 1, "ukind": "haar"},
                             {"op": "PS", "modes": [2, 0], "counts": [1, 0]}],
              {"kind": "gram", "sub": "real", "r": 2, "seed": 7}),
    ]


def sup(d, terms, ops):
    nmax = max(sum(o) for o, _ in terms)
    return {"d": d, "input": {"kind": "super", "terms": terms}, "overlap": {"kind": "none"},
            "ops": ops, "cutoff": nmax + 1, "mseed": 0, "big": False}


def f19_cases(tier):
    u2 = {"op": "I", "modes": [0, 1], "seed": 1, "ukind": "haar"}
    ps = {"op": "PS", "modes": [0], "counts": [1]}
    return [
        sup(2, [[[0, 0], [0.6, 0.0]], [[1, 1], [0.8, 0.0]]], [u2, ps]),
        sup(2, [[[1, 1], [0.8, 0.0]], [[0, 0], [0.6, 0.0]]], [u2, ps]),   # harmless order
        sup(2, [[[2, 0], [0.6, 0.0]], [[0, 0], [0.48, 0.0]], [[1, 1], [0.0, 0.64]]], [u2, ps]),
        sup(3, [[[0, 1, 0], [0.6, 0.0]], [[1, 1, 1], [0.0, 0.8]]],
            [{"op": "I", "modes": [0, 1, 2], "seed": 2, "ukind": "haar"},
             {"op": "PS", "modes": [2, 0], "counts": [1, 1]}]),
    ]


def f18_cases(tier):
    u2 = {"op": "I", "modes": [0, 1], "seed": 1, "ukind": "haar"}
    return [
        # lossless, but evaluated on the lossy code path: must equal the ideal path
        sup(2, [[[1, 1], [0.6, 0.0]], [[2, 0], [0.0, 0.8]]], [u2, {"op": "L", "modes": [0], "t": 1.0}]),
        sup(2, [[[1, 1], [0.6, 0.0]], [[2, 0], [0.0, 0.8]]], [u2, {"op": "L", "modes": [0], "t": 0.5}]),
        sup(3, [[[1, 1, 0], [0.6, 0.0]], [[0, 1, 1], [0.0, 0.8]]], [_li(3, [0.9, 0.5, 0.3])]),
        sup(2, [[[1, 0], [0.6, 0.0]], [[0, 1], [0.48, 0.64]]], [u2, {"op": "UL", "modes": [0, 1],
                                                                    "t": 0.7}]),
    ]


_WARM = False


def _warm_up():
    """Compile the numba kernels of every code path (passive interfaces, pure Fock oracle)
    before a part's wall-clock budget starts: a fresh checkout (sensitivity worktree) has a
    cold numba cache, and on a loaded machine the compilation alone used to eat the budget."""
    global _WARM
    if _WARM:
        return
    _WARM = True
    from lib.harness import Ctx

    scratch = Ctx(PID, "quick", 0, 0, 1, {})
    warm = [f15_cases("quick")[3], f16_cases("quick")[1], f19_cases("quick")[1],
            _case(3, [2, 1, 0], [{"op": "I", "modes": [0, 1, 2], "seed": 1, "ukind": "haar"},
                                 {"op": "PS", "modes": [1], "counts": [1]}]),
            _case(3, [2, 1, 0], [{"op": "I", "modes": [0, 1, 2], "seed": 1, "ukind": "haar"}],
                  {"kind": "scalar", "lam": 0.5})]
    for case in warm:
        try:
            evaluate(case, scratch)
        except Violation:
            pass  # a violation here is found again, and reported, by the parts themselves


def parts(tier):
    _warm_up()
    # the budget is a cap for loaded machines; a quiet machine needs about 60-90 s
    out = [
        Part("main", prop_main, strategy=main_case(tier),
             examples={"quick": 640, "thorough": 12000},
             budget_s={"quick": 420, "thorough": 3000}),
    ]
    if not SKIP_KNOWN:
        out += [
            Part("f15_region", prop_f15, kind="enum", cases=f15_cases),
            Part("f16_region", prop_f16, kind="enum", cases=f16_cases),
            Part("f17_region", prop_f17, kind="enum", cases=f17_cases),
            Part("f18_region", prop_f18, kind="enum", cases=f18_cases),
            Part("f19_region", prop_f19, kind="enum", cases=f19_cases),
            Part("f20_region", prop_f20, kind="enum", cases=f20_cases),
        ]
    return out
