"""C03 — shot accounting and the chain rule of measurement.

Generated operation histories (lib/aprogs: gates, partial measurements, conditions,
outcome-dependent parameters, executed with shots in {None, 1, 2, 3, 7, 50}) with
invariants over the returned branches:

 (a) finite shots: exactly N samples, frequencies k/N with integer k>=1, sum 1, counts N,
     Counter(samples) == get_counts(), outcome length == number of measured quantities;
 (b) shots=None: weights are the exact joint probabilities — they sum to the norm of the
     measured state, measuring modes one after another equals measuring them together
     (metamorphic split of one measurement into an ordered sequence), every branch state
     is the normalised projection of the pre-measurement state (independent projection
     computed by the harness from the pre-measurement state vector), agreement between
     the pure Fock and passive simulators on the joint distribution.
"""

from __future__ import annotations

import copy
import warnings
from collections import Counter
from fractions import Fraction

import numpy as np
from hypothesis import strategies as st

from lib import aprogs, bootstrap, progs
from lib.harness import Part, Violation

pq = bootstrap.load()

from piquasso.api.exceptions import NotImplementedCalculation, PiquassoException  # noqa: E402

PID = "C03"
LEVEL = "exploration"
SHARDS = {"quick": 16, "thorough": 16}
RULE = (
    "histories: Hypothesis-generated adaptive programs (<=7 steps, <=3 partial measurements "
    "on ordered subsets of the active modes, .when conditions and outcome-dependent "
    "parameters as strings/lambdas) on the pure Fock, passive, Fock and Gaussian "
    "simulators; finite part with shots in {1,2,3,7,50}, exact part with shots=None "
    "(pure Fock / passive) including the split of every measurement into successive "
    "single-subset measurements. Non-trivial = >=2 measurements, or a measurement followed "
    "by an outcome-dependent instruction, and >=2 branches. Distinct by hash of "
    "(description, shots)."
)
ASSUMPTIONS = [
    "the pre-measurement state vector of the pure Fock simulator (same program prefix, no "
    "measurement) is the input of the harness' own projection; amplitudes are compared to "
    "1e-9, weights to 1e-9",
    "post-selection on impossible patterns is excluded (nothing to sample)",
]
TOL = 1e-9


def run(desc, shots, seed=11):
    with warnings.catch_warnings():
        warnings.simplefilter("ignore")
        program, sim = aprogs.build(pq, desc, seed_sequence=seed)
        try:
            return sim.execute(program, shots=shots)
        except PiquassoException:
            raise
        except Exception as e:  # noqa: BLE001 — a valid program must not crash
            import traceback

            tb = traceback.extract_tb(e.__traceback__)[-1]
            raise Violation(
                f"C03:crash:{desc['sim']}:{type(e).__name__}:{tb.filename.split('/')[-1]}:{tb.name}",
                f"executing with shots={shots} raised {type(e).__name__}: {str(e)[:200]}")


def n_measured_quantities(desc, sim):
    n = 0
    for s in desc["steps"]:
        if s["k"] == "measure":
            n += len(s["modes"])
    return n


# ---------------------------------------------------------------------- finite shots

@st.composite
def finite_case(draw):
    sim = draw(st.sampled_from(["PF", "PF", "P", "P", "G", "F"]))
    desc = draw(aprogs.adaptive_program(sim, allow_postselect=False, final_measure=True,
                                        imperfect=True))
    # every N in 1..128, with extra weight on shot counts for which k/N*N is not exact in
    # floating point for many k (22, 23, 26, 49, 98, ...)
    shots = draw(st.one_of(st.sampled_from([1, 2, 3, 7, 22, 23, 26, 49, 49, 50, 98, 100]),
                           st.integers(1, 128)))
    return {"desc": desc, "shots": shots, "seed": draw(st.integers(1, 2**31))}


def continuous(desc):
    return any(s["k"] == "measure" and s["m"] in ("HomodyneMeasurement", "HeterodyneMeasurement",
                                                  "GeneraldyneMeasurement") for s in desc["steps"])


def prop_finite(case, ctx):
    desc, shots = case["desc"], case["shots"]
    if not aprogs.has_sampling(desc):
        ctx.count("no_measurement")
        return
    if desc["sim"] == "P" and aprogs.kerr_after_measurement(desc):
        ctx.exclude("C13:valid-crash:P:kerr-after-measurement")
        return
    try:
        res = run(desc, shots, case["seed"])
    except NotImplementedCalculation:
        ctx.count("documented_unsupported")
        return
    nmeas = sum(1 for s in desc["steps"] if s["k"] == "measure")
    adaptive = any(s.get("when") or s.get("pexpr") for s in desc["steps"])
    sim = desc["sim"]
    cl = [f"fin_{sim}", "shots_" + (str(shots) if shots in (1, 2, 3, 7, 49, 50) else
                                    "other")] + (["adaptive"] if adaptive else [])
    if any(s_.get("m") == "ImperfectParticleNumberMeasurement" for s_ in desc["steps"]):
        cl.append("imperfect_detector")
    ctx.case(case, (nmeas >= 2 or adaptive) and len(res.branches) >= 2, cl)
    samples = res.samples
    if len(samples) != shots:
        raise Violation(f"C03:finite:{sim}:sample-count", f"{len(samples)} samples, shots={shots}")
    total = Fraction(0)
    for b in res.branches:
        f = b.frequency
        if not isinstance(f, Fraction):
            raise Violation(f"C03:finite:{sim}:frequency-not-fraction",
                            f"frequency {f!r} of type {type(f).__name__}")
        k = f * shots
        if k.denominator != 1 or k < 1:
            raise Violation(f"C03:finite:{sim}:frequency-not-k-over-N",
                            f"frequency {f} is not k/{shots} with integer k>=1")
        total += f
    if total != 1:
        raise Violation(f"C03:finite:{sim}:frequencies-sum", f"frequencies sum to {total}")
    # outcome length == measured quantities on the branch's path
    if not continuous(desc):
        want = n_measured_quantities(desc, sim)
        for b in res.branches:
            if len(b.outcome) != want:
                raise Violation(f"C03:finite:{sim}:outcome-length",
                                f"outcome {b.outcome} has {len(b.outcome)} entries, {want} "
                                f"quantities were measured")
        counts = res.get_counts()
        if sum(counts.values()) != shots:
            raise Violation(f"C03:finite:{sim}:counts-sum",
                            f"get_counts() sums to {sum(counts.values())}, shots={shots}")
        c = Counter(tuple(int(x) for x in s) for s in samples)
        gc = Counter({tuple(int(x) for x in k): v for k, v in counts.items()})
        if c != gc:
            raise Violation(f"C03:finite:{sim}:counts-vs-samples",
                            f"Counter(samples)={dict(c)} get_counts()={dict(gc)}")
        om = res.outcome_map
        if len({tuple(b.outcome) for b in res.branches}) == len(res.branches):
            if sum(v["frequency"] for v in om.values()) != 1:
                raise Violation(f"C03:finite:{sim}:outcome_map-sum", "outcome_map frequencies")
    else:
        ctx.count("continuous_outcomes")


# ---------------------------------------------------------------------- shots=None

@st.composite
def exact_case(draw):
    sim = draw(st.sampled_from(["PF", "PF", "P"]))
    desc = draw(aprogs.adaptive_program(sim, allow_postselect=(sim == "PF"), final_measure=True,
                                        imperfect=True))
    # PF final measurement must be a particle-number measurement for shots=None
    for s in desc["steps"]:
        if s["k"] == "measure" and s["m"] not in aprogs.SHOTS_NONE_OK[sim]:
            s["m"] = "ParticleNumberMeasurement"
            s["p"] = {}
    split_seed = draw(st.integers(0, 2**16))
    return {"desc": desc, "split": split_seed}


def outcome_weights(res):
    out = {}
    for b in res.branches:
        k = tuple(int(x) for x in b.outcome)
        out[k] = out.get(k, 0.0) + float(b.frequency)
    return out


def pf_reference_weights(desc):
    """Exact joint outcome weights from the pure Fock simulator; imperfect detectors (which
    it cannot run with shots=None) are applied by the harness: P[detected, actual] per
    measured mode.  Returns None when not computable (imperfect detector mid-circuit)."""
    import itertools

    steps, mats = [], []
    for i, s in enumerate(desc["steps"]):
        if s["k"] == "measure" and s["m"] == "ImperfectParticleNumberMeasurement":
            if i != len(desc["steps"]) - 1:
                return None
            mats.append(aprogs.detector_matrix(s["p"]["dseed"], s["p"]["rows"], s["p"]["cols"]))
            steps.append({**s, "m": "ParticleNumberMeasurement", "p": {}})
        else:
            steps.append(s)
    w = outcome_weights(run({**desc, "sim": "PF", "steps": steps}, None))
    if not mats:
        return w
    mat = mats[0]
    k = len(desc["steps"][-1]["modes"])
    out = {}
    for outcome, p in w.items():
        head, tail = outcome[:-k], outcome[-k:]
        if any(n >= mat.shape[1] for n in tail):
            return None
        opts = [[(dd, mat[dd, n]) for dd in range(mat.shape[0]) if mat[dd, n] > 0] for n in tail]
        for combo in itertools.product(*opts):
            q = p
            for _, x in combo:
                q *= x
            key = head + tuple(dd for dd, _ in combo)
            out[key] = out.get(key, 0.0) + q
    return out


def split_measurements(desc, seed):
    """Replace every multi-mode measurement by successive measurements of an ordered
    split of its modes (outcome order is preserved: the split keeps the mode order)."""
    rng = progs.rng_of(seed)
    new = copy.deepcopy(desc)
    steps = []
    changed = False
    for s in new["steps"]:
        if s["k"] == "measure" and len(s["modes"]) >= 2 and not s.get("all_modes"):
            modes = s["modes"]
            cut = int(rng.integers(1, len(modes)))
            steps.append({**s, "modes": modes[:cut]})
            rest = modes[cut:]
            if len(rest) >= 2 and rng.integers(0, 2):
                c2 = int(rng.integers(1, len(rest)))
                steps.append({**s, "modes": rest[:c2]})
                steps.append({**s, "modes": rest[c2:]})
            else:
                steps.append({**s, "modes": rest})
            changed = True
        else:
            steps.append(s)
    new["steps"] = steps
    return new, changed


def project(vec, basis, d, cutoff, modes, outcome):
    """Independent projection: amplitudes with measured modes == outcome, re-indexed in
    the basis of the remaining modes with cutoff reduced by the measured photons."""
    rest = [m for m in range(d) if m not in modes]
    new_cutoff = cutoff - sum(outcome)
    new_basis = progs.basis_tuples(pq, len(rest), new_cutoff) if rest else [()]
    index = {b: i for i, b in enumerate(new_basis)}
    out = np.zeros(len(new_basis), dtype=complex)
    for amp, b in zip(vec, basis):
        if all(b[m] == o for m, o in zip(modes, outcome)):
            key = tuple(b[m] for m in rest)
            if key in index:
                out[index[key]] = amp
    return out, new_cutoff


def prop_exact(case, ctx):
    desc = case["desc"]
    sim = desc["sim"]
    if not aprogs.has_sampling(desc):
        ctx.count("no_measurement")
        return
    if sim == "P" and aprogs.kerr_after_measurement(desc):
        ctx.exclude("C13:valid-crash:P:kerr-after-measurement")
        return
    nmeas = sum(1 for s in desc["steps"] if s["k"] == "measure")
    adaptive = any(s.get("when") or s.get("pexpr") for s in desc["steps"])
    try:
        res = run(desc, None)
    except NotImplementedCalculation:
        ctx.count("documented_unsupported")
        return
    except PiquassoException as e:
        if "Marginal probabilities cannot be calculated" in str(e):
            ctx.count("documented_unsupported")
            return
        raise
    w = outcome_weights(res)
    if not w or sum(w.values()) < 1e-12:
        ctx.count("impossible_postselection")
        return
    ctx.case(case, (nmeas >= 2 or adaptive) and len(res.branches) >= 2,
             [f"exact_{sim}", f"nmeas_{min(nmeas, 3)}"] + (["adaptive"] if adaptive else []))
    # reference: the same program on the pure Fock simulator decides the expected total
    # (1, or the post-selection success probability)
    total = sum(w.values())
    if sim == "P" and nmeas >= 2:
        # known finding: weights of later measurements are double counted
        wref = pf_reference_weights(desc)
        if wref is None:
            ctx.count("reference_not_computable")
            wref = {}
        bad = max([abs(w.get(k, 0.0) - v) for k, v in wref.items()] + [0.0])
        if not wref and not aprogs.has_postselect(desc):
            bad = abs(total - 1.0)  # no reference: the weights must at least sum to one
        if bad > 1e-8:
            raise Violation("C03:exact:P:sequential-measurements:joint-weights",
                            f"passive simulator, {nmeas} successive measurements, shots=None: "
                            f"weights sum to {total:.6f}; max deviation from the exact joint "
                            f"distribution {bad:.3e}")
    if sim == "P" and nmeas >= 2:
        return  # region of the known finding: nothing else is asserted behind it
    for k, v in w.items():
        if not (v >= -1e-12 and v <= 1 + TOL):
            raise Violation(f"C03:exact:{sim}:weight-range", f"weight {v!r} for outcome {k}")
    has_ps = aprogs.has_postselect(desc)
    conserving = all(s.get("g") in progs.PASSIVE + progs.KERR for s in desc["steps"]
                     if s["k"] == "gate")
    if not has_ps and conserving and abs(total - 1) > TOL:
        raise Violation(f"C03:exact:{sim}:weights-sum", f"weights sum to {total!r}")
    if not conserving:
        ctx.count("truncating_gates_sum_not_asserted_to_one")
    if total > 1 + TOL:
        raise Violation(f"C03:exact:{sim}:weights-sum", f"weights sum to {total!r} > 1")
    # outcome lengths
    want = n_measured_quantities(desc, sim)
    for k in w:
        if len(k) != want:
            raise Violation(f"C03:exact:{sim}:outcome-length", f"{k} vs {want} measured modes")
    # cross-simulator agreement of the joint distribution (P vs PF), single measurement
    if sim == "P" and nmeas == 1 and not has_ps:
        wref = pf_reference_weights(desc)
        if wref is not None:
            keys = set(w) | set(wref)
            bad = max(abs(w.get(k, 0.0) - wref.get(k, 0.0)) for k in keys)
            if bad > 1e-8:  # detector probabilities are rounded to rationals by the library
                raise Violation("C03:exact:P-vs-PF:joint-distribution",
                                f"max deviation {bad:.3e}")
            ctx.count("P_vs_PF_compared")
    # sequential == joint (metamorphic)
    if not adaptive and sim == "PF":
        split, changed = split_measurements(desc, case["split"])
        if changed:
            res2 = run(split, None)
            w2 = outcome_weights(res2)
            keys = set(w) | set(w2)
            bad = max(abs(w.get(k, 0.0) - w2.get(k, 0.0)) for k in keys)
            # shots=None results are documented to be "filtered to non-zero probabilities"
            # (np.isclose(p, 0), i.e. below 1e-8): an outcome may be dropped on one side
            if bad > TOL + 1e-8:
                k = max(keys, key=lambda k: abs(w.get(k, 0.0) - w2.get(k, 0.0)))
                raise Violation(f"C03:exact:{sim}:sequential-vs-joint",
                                f"outcome {k}: joint {w.get(k, 0.0)!r}, sequential {w2.get(k, 0.0)!r}")
            ctx.count("sequential_vs_joint")
    # branch states are normalised projections (first measurement only; PF)
    if sim == "PF":
        check_projection(desc, res, ctx)


def check_projection(desc, res, ctx):
    first = next(i for i, s in enumerate(desc["steps"]) if s["k"] in ("measure", "postselect"))
    if desc["steps"][first]["k"] != "measure":
        return
    later = desc["steps"][first + 1:]
    if later:
        # compare right after the first measurement: execute the prefix only
        pre_desc = {**desc, "steps": desc["steps"][:first + 1]}
        res = run(pre_desc, None)
    d, cutoff = desc["d"], desc["cutoff"]
    modes = desc["steps"][first]["modes"]
    if desc["steps"][first].get("all_modes"):
        modes = sorted(modes)  # Q() addresses the active modes in ascending order
    prefix = {**desc, "steps": desc["steps"][:first]}
    with warnings.catch_warnings():
        warnings.simplefilter("ignore")
        program, sim = aprogs.build(pq, prefix)
        pre = sim.execute(program, shots=None).state
    vec = np.asarray(pre.state_vector)
    basis = progs.basis_tuples(pq, d, cutoff)
    seen = set()
    for b in res.branches:
        outcome = tuple(int(x) for x in b.outcome)
        seen.add(outcome)
        ref, new_cutoff = project(vec, basis, d, cutoff, modes, outcome)
        p = float(np.sum(np.abs(ref) ** 2))
        if abs(p - float(b.frequency)) > TOL:
            raise Violation("C03:exact:PF:weight-vs-projection",
                            f"outcome {outcome}: weight {float(b.frequency)!r}, |projection|^2 {p!r}")
        st_ = b.state
        if st_ is None:
            continue
        got = np.asarray(st_.state_vector)
        if st_._config.cutoff != new_cutoff:
            raise Violation("C03:exact:PF:branch-cutoff",
                            f"outcome {outcome}: branch cutoff {st_._config.cutoff}, expected "
                            f"{new_cutoff}")
        if got.shape != ref.shape:
            raise Violation("C03:exact:PF:branch-state-shape", f"{got.shape} vs {ref.shape}")
        if np.max(np.abs(got - ref / np.sqrt(p))) > 1e-9:
            raise Violation("C03:exact:PF:branch-state-not-normalised-projection",
                            f"outcome {outcome}: max deviation "
                            f"{np.max(np.abs(got - ref / np.sqrt(p))):.3e}")
        if abs(float(st_.norm) - 1) > 1e-9:
            raise Violation("C03:exact:PF:branch-state-norm", f"norm {float(st_.norm)!r}")
    # nothing dropped: every outcome with positive probability is a branch
    total_pre = float(np.sum(np.abs(vec) ** 2))
    total_w = sum(float(b.frequency) for b in res.branches)
    # every outcome below 1e-8 is dropped by the documented zero-probability filter
    if abs(total_pre - total_w) > TOL + 1e-8 * len(basis):
        raise Violation("C03:exact:PF:weights-vs-norm-of-measured-state",
                        f"weights sum to {total_w!r}, squared norm of the measured state "
                        f"{total_pre!r}")
    marg = {}
    for amp, bb in zip(vec, basis):
        k = tuple(bb[m] for m in modes)
        marg[k] = marg.get(k, 0.0) + abs(amp) ** 2
    for k, v in marg.items():
        if v > 1e-7 and k not in seen:
            raise Violation("C03:exact:PF:branch-dropped", f"outcome {k} with probability {v}")
    ctx.count("projection_checked")


# --------------------------------------------------- passive branch states (known finding)

def passive_branch_cases(tier):
    return [{"occ": o, "theta": t} for o in ([1, 1, 0], [2, 0, 1], [1, 0, 0])
            for t in (0.4, 1.1)]


def prop_passive_branch(case, ctx):
    ctx.case(case, True, ["passive_branch_state"])
    with warnings.catch_warnings():
        warnings.simplefilter("ignore")
        with pq.Program() as p:
            pq.Q() | pq.NumberState(case["occ"])
            pq.Q(0, 1) | pq.Beamsplitter(case["theta"], 0.1)
            pq.Q(1, 2) | pq.Beamsplitter(0.7, 0.3)
            pq.Q(0) | pq.ParticleNumberMeasurement()
        n = sum(case["occ"])
        res = pq.PassiveSimulator(d=3, config=pq.Config(cutoff=n + 1)).execute(p, shots=None)
    for b in res.branches:
        if abs(float(b.state.norm) - 1) > 1e-9:
            raise Violation("C03:exact:P:branch-state-not-normalised",
                            f"NumberState({case['occ']}), measure mode 0, shots=None: branch "
                            f"{tuple(int(x) for x in b.outcome)} has weight "
                            f"{float(b.frequency):.6f} and state norm {float(b.state.norm):.6f}")


def parts(tier):
    return [
        Part("passive_branch", prop_passive_branch, kind="enum", cases=passive_branch_cases),
        Part("finite", prop_finite, strategy=finite_case(),
             examples={"quick": 900, "thorough": 12000}),
        Part("exact", prop_exact, strategy=exact_case(),
             examples={"quick": 700, "thorough": 10000}),
    ]
