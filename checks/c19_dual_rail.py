"""C19 — dual-rail translation preserves qubit-circuit statistics.

A Hypothesis-generated JSON circuit description (lib/qubit_ref.py format) is built into a
Qiskit `QuantumCircuit`, translated with `dual_rail_encode_from_qiskit`, executed on
`PureFockSimulator(shots=None)` with cutoff = photons + 1, the branch weights / final Fock
probabilities are restricted to dual-rail code words, renormalised by the code-space
weight and compared with the exact distribution of an independent qubit state-vector
reference (gate matrices from Qiskit, everything else hand-written).

Tolerance: *derived*, not tuned.  The only approximation in the translation is that the
heralded KLM CZ uses the angles 54.74 deg / 17.63 deg (4 digits) instead of
atan(sqrt 2) / acos(sqrt((3+sqrt 6)/6)).  `klm_model()` evaluates the gadget (its own
permanent-based linear optics on 4 modes, exact vs rounded angles), checks that the exact
gadget is sqrt(2/27) * CZ on the code space without leakage, and extracts
    eps_cc   = || G~|code->code / c - CZ ||        (c = best common scalar, cancels after
    eps_leak = || G~|code->non-code / c ||          renormalisation; "non-code" includes a
                                                    photon hopping between the two rails)
    A        = 1 / |c|                             (a heralded gadget is a contraction, so a
                                                    non-code component grows at most by A
                                                    relative to the heralded norm)
and `amp_error(k)` propagates them through k gadgets:
    e_c' = e_c + eps_cc (1 + e_c) + A e_l,   e_l' = eps_leak (1 + e_c) + A e_l.
With eta = 2 e / (1 - e) (renormalisation) the bound on a normalised probability q is
|q~ - q| <= eta (2 sqrt(q) + eta); to this the weight of branches that piquasso drops
(`np.isclose(p, 0)`, atol 1e-8, in sample_from_probability_map) and of phases that the
translation skips (`np.isclose(theta, 0)` in `_phase_gate_bosonic`) is added.
"""

from __future__ import annotations

import itertools
import math
import random

import numpy as np
from hypothesis import strategies as st

from lib import bootstrap
from lib import qubit_ref as qr
from lib.harness import HarnessError, Part, Violation

pq = bootstrap.load()

from qiskit import QuantumCircuit  # noqa: E402

from piquasso.dual_rail_encoding import (  # noqa: E402
    dual_rail_encode_from_qiskit,
    get_bosonic_qubit_samples,
)

qr.selftest()

PID = "C19"
LEVEL = "exploration"
SHARDS = {"quick": 8, "thorough": 16}
RULE = (
    "JSON circuit descriptions on 1..3 qubits: <= 8 gates from h,x,y,z,rx,ry,rz,u,p,cz,cx "
    "(angles from U(-2pi,2pi) or atoms 0, +-pi/4, +-pi/2, +-pi, +-3pi/2, +-2pi, +-1e-9, 1e-7), "
    "<= 2 entangling gates (3 only in the 2-qubit three_cz part: Create builds a dense "
    "dim x dim operator), optional mid-circuit measure(q->c) rounds followed by "
    "if_test((c,v)) blocks (condition on any previously written clbit, body of single-qubit "
    "gates on one or several unmeasured qubits, optional else branch), further gates on "
    "unmeasured qubits, a drawn analysis layer of single-qubit gates, then a drawn subset "
    "of the remaining qubits is measured (the rest is read from the final Fock state); "
    "measurement k writes clbit k (half of the cases), a drawn injection positions -> "
    "clbits (a sixth) or a drawn map with collisions (a third: two measurements that precede "
    "a conditioned block write the same clbit, the block must follow the latest write). "
    "main mixes all shapes; lowcut (no entangling gate, all but one "
    "qubit measured: post-measurement cutoff 2), leak_condition (condition on a clbit "
    "measured after an entangling gate and after another measurement), clbit_order, "
    "clbit_rewrite (3 qubits, two measurements into one clbit, block conditioned on it), "
    "multi_qubit_body, else_body force one shape each (regression probes of the four "
    "defects found by this check); block_rejects enumerates cz/cx/measure/nested if inside "
    "a block and a condition on an unwritten clbit, which must raise ValueError. "
    "Non-trivial = >= 2 qubits, >= 1 entangling gate, >= 2 single-qubit gates of different "
    "kinds at least one of them non-diagonal, reference distribution not a point mass; "
    "distinct by the full description."
)
ASSUMPTIONS = [
    "trusted base: Qiskit's gate matrices (gate.to_matrix(), cross-checked against "
    "quantum_info.Operator at import) and Qiskit's little-endian convention",
    "the KLM CZ gadget with the exact angles atan(sqrt 2), acos(sqrt((3+sqrt 6)/6)) is the "
    "intended gate (self-checked: equals sqrt(2/27)*CZ on the code space); the tolerance is "
    "the propagated effect of rounding them to 54.74 / 17.63 degrees",
    "gates on an already measured qubit and register-valued conditions cannot be expressed "
    "by the photonic program and are not generated; entangling gates, measurements and "
    "nested blocks inside a conditioned block and conditions on a never-written clbit are "
    "documented rejections (ValueError), asserted in block_rejects",
    "a measurement outcome outside the dual-rail code space (possible with ~1e-7 "
    "probability because of the rounded KLM angles) satisfies neither a condition nor its "
    "else branch; such branches are counted as leakage",
]
# Evaluated on quiet full runs only.  Measured on the current tree (seed 1): see the
# class histogram in evidence/C19.json.
FLOORS = {"adaptive": 0.15, "lowcut": 0.05, "ent>=1": 0.15, "readout_state": 0.1,
          "readout_measure": 0.1, "out_of_order": 0.05, "multi_qubit_body": 0.04,
          "has_else": 0.05, "cond_after_ent_and_meas": 0.01, "clbit_rewritten_cond": 0.03}

SINGLE = ["h", "x", "y", "z", "rx", "ry", "rz", "u", "p"]
DIAGONAL = {"z", "rz", "p"}
PI = math.pi
ATOMS = [0.0, PI / 4, -PI / 4, PI / 2, -PI / 2, PI, -PI, 3 * PI / 2, -3 * PI / 2,
         2 * PI, -2 * PI, 1e-9, -1e-9, 1e-7]

# --------------------------------------------------------------- KLM error model


def _bs(theta, phi=0.0):
    t = math.cos(theta)
    r = np.exp(1j * phi) * math.sin(theta)
    return np.array([[t, -np.conj(r)], [r, t]], dtype=complex)


def _embed(u, modes, d=4):
    big = np.eye(d, dtype=complex)
    for a, i in enumerate(modes):
        for b, j in enumerate(modes):
            big[i, j] = u[a, b]
    return big


def _perm(m):
    n = m.shape[0]
    if n == 0:
        return 1.0
    return sum(np.prod([m[i, p[i]] for i in range(n)]) for p in itertools.permutations(range(n)))


def _fock_amp(u, inp, out):
    rows = [i for i, k in enumerate(out) for _ in range(k)]
    cols = [j for j, k in enumerate(inp) for _ in range(k)]
    if len(rows) != len(cols):
        return 0.0
    norm = math.sqrt(np.prod([math.factorial(k) for k in inp + out]))
    return _perm(u[np.ix_(rows, cols)]) / norm


def _gadget(t1, t2):
    """Knill's 2-ancilla CZ on modes (rail_a, rail_b, anc_1, anc_2), heralded on (1, 1)."""
    minus = np.diag([-1.0 + 0j, 1.0])
    u = np.eye(4, dtype=complex)
    for step in (_embed(minus, [0, 1]), _embed(minus, [1, 0]), _embed(_bs(t1), [0, 2]),
                 _embed(_bs(t1), [1, 3]), _embed(_bs(-t1), [0, 1]), _embed(_bs(t2), [2, 3])):
        u = step @ u
    rails = [(0, 0), (1, 0), (0, 1), (1, 1), (2, 0), (0, 2)]   # first four: code (little-endian)
    g = np.zeros((6, 6), dtype=complex)
    for j, i_ in enumerate(rails):
        for i, o_ in enumerate(rails):
            g[i, j] = _fock_amp(u, i_ + (1, 1), o_ + (1, 1))
    return g


def klm_model():
    exact = _gadget(math.atan(math.sqrt(2.0)), math.acos(math.sqrt((3 + math.sqrt(6.0)) / 6)))
    rounded = _gadget(54.74 / 180 * PI, 17.63 / 180 * PI)
    cz = np.diag([1.0, 1.0, 1.0, -1.0]).astype(complex)
    c0 = exact[0, 0]
    if not (abs(abs(c0) ** 2 - 2 / 27) < 1e-12 and np.allclose(exact[:4, :4], c0 * cz, atol=1e-12)
            and np.allclose(exact[4:, :4], 0, atol=1e-12)):
        raise HarnessError("C19: the exact-angle KLM gadget model is not sqrt(2/27)*CZ")
    # A rail pattern (a, b) is a code word of the two qubits only if it is preserved: a
    # photon hopping between the rails, (1,0) <-> (0,1), leaves one dual-rail pair with two
    # photons and the other with none.  So code->code is the diagonal of the 4x4 block and
    # everything else that leaves a code column is leakage.
    diag = np.diag(np.diag(rounded[:4, :4]))
    c = np.trace(cz.conj().T @ diag) / 4
    eps_cc = float(np.linalg.norm(diag / c - cz, 2))
    leak_op = rounded[:, :4].copy()
    leak_op[:4, :4] -= diag
    eps_leak = float(np.linalg.norm(leak_op / c, 2))
    return {"c2": float(abs(c) ** 2), "eps_cc": eps_cc, "eps_leak": eps_leak,
            "A": 1.0 / abs(c)}


KLM = klm_model()


def amp_error(k: int):
    """(code, non-code) amplitude error bounds after k heralded gadgets, relative to c^k."""
    e_c = e_l = 0.0
    for _ in range(k):
        e_c, e_l = (e_c + KLM["eps_cc"] * (1 + e_c) + KLM["A"] * e_l,
                    KLM["eps_leak"] * (1 + e_c) + KLM["A"] * e_l)
    return e_c, e_l


# --------------------------------------------------------------- description helpers


def measures_in_order(ops):
    """Top-level measure ops in program order (conditioned blocks never contain one)."""
    return [op for op in ops if op["g"] == "measure"]


def unsafe_clbits(ops):
    """Clbits whose measurement comes after an entangling gate *and* after another
    measurement that followed that gate: the earlier measurement renormalises the heralded
    state, so the ~1e-7 leakage of the rounded KLM angles survives piquasso's
    isclose(p, 0) filter as a non-code outcome.  A condition on such a clbit used to raise
    (fixed in ba8087b: a non-code outcome satisfies neither branch); the shape is kept as
    a class and forced in the leak_condition part."""
    ent_seen, meas_since, unsafe = False, 0, set()
    for op in ops:
        if op["g"] == "measure":
            if ent_seen and meas_since >= 1:
                unsafe.add(op["c"])
            if ent_seen:
                meas_since += 1
        elif op["g"] in qr.ENTANGLING:
            ent_seen = True
    return unsafe


def features(desc):
    ops = desc["ops"]
    gates = list(qr.iter_gates(ops))
    meas = measures_in_order(ops)
    n = desc["n"]
    k = sum(1 for g in gates if g["g"] in qr.ENTANGLING)
    f = {"n": n, "k": k, "meas": meas, "gates": gates}
    f["out_of_order"] = any(m["c"] != i for i, m in enumerate(meas))
    ifs = [op for op in ops if op["g"] == "if"]
    f["n_if"] = len(ifs)
    f["multi_qubit_body"] = any(
        len({q for g in qr.iter_gates([op]) for q in g["q"]}) > 1 for op in ifs)
    f["has_else"] = any(op.get("orelse") for op in ifs)
    # a conditioned block on a clbit that has been written by >= 2 measurements before it
    writes, rewritten = {}, False
    for op in ops:
        if op["g"] == "measure":
            writes[op["c"]] = writes.get(op["c"], 0) + 1
        elif op["g"] == "if" and writes.get(op["c"], 0) >= 2:
            rewritten = True
    f["clbit_rewritten_cond"] = rewritten
    # is there a measurement that is followed by anything but measurements?
    seen_meas, adaptive = False, False
    for op in ops:
        if op["g"] == "measure":
            seen_meas = True
        elif seen_meas:
            adaptive = True
    f["adaptive"] = adaptive
    # passive gate executed while the simulator cutoff is <= 2
    cutoff, low = n + 2 * k + 1, False
    for op in ops:
        if op["g"] == "measure":
            cutoff -= 1
        elif cutoff <= 2:
            low = True
    f["lowcut"] = low
    singles = [g for g in gates if g["g"] in SINGLE]
    kinds = {g["g"] for g in singles}
    f["rich_singles"] = len(kinds) >= 2 and any(x not in DIAGONAL for x in kinds)
    unsafe = unsafe_clbits(ops)
    f["unsafe_cl"] = sorted(unsafe)
    f["cond_after_ent_and_meas"] = any(op["c"] in unsafe for op in ifs)
    f["skipped_phase"] = sum(abs(g["p"][0]) for g in gates
                             if g["g"] == "p" and abs(g["p"][0]) <= 1.0000001e-8)
    return f


def build_qiskit(desc) -> QuantumCircuit:
    qc = QuantumCircuit(desc["n"], desc["ncl"])

    def emit(op):
        g = op["g"]
        if g == "measure":
            qc.measure(op["q"][0], op["c"])
        elif g == "if":
            if op.get("orelse"):
                with qc.if_test((qc.clbits[op["c"]], op["v"])) as else_:
                    for inner in op["body"]:
                        emit(inner)
                with else_:
                    for inner in op["orelse"]:
                        emit(inner)
            else:
                with qc.if_test((qc.clbits[op["c"]], op["v"])):
                    for inner in op["body"]:
                        emit(inner)
        else:
            getattr(qc, g)(*[float(x) for x in op.get("p", ())], *op["q"])

    for op in desc["ops"]:
        emit(op)
    return qc


def decode_pair(a, b):
    if (a, b) == (1, 0):
        return 0
    if (a, b) == (0, 1):
        return 1
    return None


# --------------------------------------------------------------- the property


def prop(case, ctx):
    # Every Violation leaves through this one raise statement: Hypothesis keys distinct
    # failures on the raising line, and the driver's shrink-time cap only re-admits the
    # last failing case, so two raise sites in one round can end in a FlakyFailure (exit 2).
    try:
        _prop(case, ctx)
    except Violation as v:
        raise Violation(v.bucket, v.message) from None


def _prop(case, ctx):
    desc = {"n": case["n"], "ncl": case["ncl"], "ops": case["ops"]}
    f = features(desc)
    n, k, meas = f["n"], f["k"], f["meas"]
    pre = "C19"

    ref = qr.qubit_outcome_distribution(desc)
    point_mass = max(ref.values()) > 1 - 1e-6
    measured_q = [m["q"][0] for m in meas]
    rest_q = [q for q in range(n) if q not in measured_q]
    classes = [f"n{n}", f"ent{k}", "readout_state" if rest_q else "readout_measure"]
    if k >= 1:
        classes.append("ent>=1")
    for name in ("adaptive", "lowcut", "out_of_order", "multi_qubit_body", "has_else",
                 "cond_after_ent_and_meas", "clbit_rewritten_cond"):
        if f[name]:
            classes.append(name)
    if f["n_if"]:
        classes.append("conditioned")
    if rest_q and meas:
        classes.append("partial_measurement")
    nontrivial = n >= 2 and k >= 1 and f["rich_singles"] and not point_mass
    ctx.case(case, nontrivial, classes)

    # ---- translate --------------------------------------------------------------
    qc = build_qiskit(desc)
    try:
        prog = dual_rail_encode_from_qiskit(qc)
    except Exception as e:  # the whole generated family is inside the supported set
        raise Violation(f"{pre}:encode:raises:{type(e).__name__}",
                        f"dual_rail_encode_from_qiskit raised {e!r}") from None
    creates = [i for i in prog.instructions if isinstance(i, pq.Create)]
    photons = sum(len(i.modes) for i in creates)
    d = 1 + max(max(i.modes) for i in prog.instructions if i.modes)
    if (d, photons) != (2 * n + 2 * k, n + 2 * k):
        raise Violation(f"{pre}:resources", f"translated program uses {d} modes / {photons} "
                        f"photons, expected {2 * n + 2 * k} / {n + 2 * k}")

    # ---- exact execution ----------------------------------------------------------
    sim = pq.PureFockSimulator(d=d, config=pq.Config(cutoff=photons + 1))
    try:
        res = sim.execute(prog, shots=None)
    except Exception as e:
        raise Violation(f"{pre}:execute:raises:{type(e).__name__}",
                        f"exact execution raised {e!r}") from None

    dist: dict = {}
    total = 0.0
    for br in res.branches:
        w = float(br.frequency)
        out = tuple(int(x) for x in br.outcome)
        if len(out) != 2 * len(meas):
            raise Violation(f"{pre}:outcome-length", f"branch outcome {out} for "
                            f"{len(meas)} measured qubits")
        bits = [decode_pair(out[2 * i], out[2 * i + 1]) for i in range(len(meas))]
        # library decoder on the same outcome
        if meas:
            try:
                lib = get_bosonic_qubit_samples([out])
            except ValueError:
                lib = None
            mine = None if None in bits else [tuple(bits)]
            if lib != mine:
                raise Violation(f"{pre}:decoder", f"get_bosonic_qubit_samples([{out}]) -> "
                                f"{lib}, expected {mine}")
        if br.state is None:
            finals = {(): 1.0}
            if rest_q:
                raise Violation(f"{pre}:final-state-missing", f"no state for unmeasured {rest_q}")
        else:
            if br.state.d != 2 * len(rest_q):
                raise Violation(f"{pre}:final-state-modes", f"final state on {br.state.d} "
                                f"modes for unmeasured qubits {rest_q}")
            finals = {tuple(int(x) for x in key): float(v)
                      for key, v in br.state.fock_probabilities_map.items()}
        for key, p in finals.items():
            total += w * p
            fb = [decode_pair(key[2 * i], key[2 * i + 1]) for i in range(len(rest_q))]
            if None in bits or None in fb:
                continue
            full = [None] * n
            for q, b in zip(measured_q, bits):
                full[q] = b
            for q, b in zip(rest_q, fb):
                full[q] = b
            full = tuple(full)
            dist[full] = dist.get(full, 0.0) + w * p
    code = sum(dist.values())
    if not code > 0:
        raise Violation(f"{pre}:no-code-weight", "no weight on dual-rail code words")

    # ---- derived tolerances ---------------------------------------------------------
    e_c, e_l = amp_error(k)
    e_c += 1e-10 + f["skipped_phase"]          # float round-off over <= 60 passive gates
    ideal = (2 / 27) ** k
    # every measurement drops the outcomes with np.isclose(p, 0) (atol 1e-8; at most 16
    # two-mode outcomes with <= 3 photons), p relative to the last renormalisation
    drop = 1e-8 * len(meas) * 16 / code
    lo = KLM["c2"] ** k * (1 - e_c) ** 2 * (1 - drop) - 1e-12
    hi = KLM["c2"] ** k * (1 + e_c) ** 2 + 1e-12
    if not lo <= code <= hi:
        raise Violation(f"{pre}:heralding", f"code-space weight {code!r} with {k} heralded CZ, "
                        f"derived window [{lo!r}, {hi!r}], (2/27)^k = {ideal!r}")
    ctx.count("herald_rel_dev<=1e-3" if abs(code / ideal - 1) <= 1e-3
              else "herald_rel_dev>1e-3")
    leak = max(0.0, total - code) / code
    leak_bound = (e_l / (1 - e_c)) ** 2 + 1e-9
    if leak > leak_bound:
        raise Violation(f"{pre}:leakage", f"weight outside the code space {leak!r} (relative) "
                        f"> derived bound {leak_bound!r}")
    eta = 2 * e_c / (1 - e_c)
    worst = None
    for bits in itertools.product((0, 1), repeat=n):
        q_ref = ref.get(bits, 0.0)
        q_pq = dist.get(bits, 0.0) / code
        tol = eta * (2 * math.sqrt(q_ref) + eta) + drop + 1e-12
        dev = abs(q_pq - q_ref)
        if dev > tol and (worst is None or dev / tol > worst[0]):
            worst = (dev / tol, bits, q_pq, q_ref, tol)
    if worst is not None:
        _, bits, q_pq, q_ref, tol = worst
        raise Violation(f"{pre}:distribution", f"P(qubits={bits}) photonic {q_pq!r} vs qubit "
                        f"reference {q_ref!r} (tolerance {tol:.3g}, {k} CZ); photonic "
                        f"{ {b: round(v / code, 6) for b, v in sorted(dist.items())} } "
                        f"reference { {b: round(v, 6) for b, v in sorted(ref.items())} }")

    # ---- finite-shot path -----------------------------------------------------------
    if not meas:
        return
    shots = case["shots"]
    random.seed(case["seed"])
    np.random.seed(case["seed"] % (2 ** 32))
    sim2 = pq.PureFockSimulator(d=d, config=pq.Config(cutoff=photons + 1,
                                                      seed_sequence=case["seed"]))
    try:
        res2 = sim2.execute(dual_rail_encode_from_qiskit(qc), shots=shots)
        raw = res2.samples
    except Exception as e:
        raise Violation(f"{pre}:shots:raises:{type(e).__name__}",
                        f"execution with shots={shots} raised {e!r}") from None
    if not 1 <= len(raw) <= shots:
        raise Violation(f"{pre}:shots:count", f"{len(raw)} samples for shots={shots}")
    try:
        decoded = get_bosonic_qubit_samples(raw)
    except ValueError as e:
        # a non-code outcome can legitimately be sampled only with the leakage probability
        if leak_bound * shots < 1e-6 or k == 0:
            raise Violation(f"{pre}:shots:non-code-sample", f"{e!r} from samples {raw[:4]}") \
                from None
        ctx.count("shots_non_code_sample")
        return
    if len(decoded) != len(raw):
        raise Violation(f"{pre}:shots:decoded-count", f"{len(decoded)} decoded of {len(raw)}")
    for s in decoded:
        if len(s) != len(meas) or any(b not in (0, 1) for b in s):
            raise Violation(f"{pre}:shots:bits", f"decoded sample {s} for {len(meas)} measured "
                            f"qubits")
        # marginal probability of this assignment of the measured qubits
        p_ref = sum(p for bits, p in ref.items()
                    if all(bits[q] == b for q, b in zip(measured_q, s)))
        p_pq = sum(p for bits, p in dist.items()
                   if all(bits[q] == b for q, b in zip(measured_q, s))) / code
        if p_ref < 1e-9 and p_pq < 1e-9:
            raise Violation(f"{pre}:shots:support", f"sample {s} (measured qubits "
                            f"{measured_q}) has probability {p_ref!r} in the reference and "
                            f"{p_pq!r} in the exact photonic distribution")
    ctx.count("finite_shot_runs")


# --------------------------------------------------------------- generators

ANGLE = st.one_of(st.floats(-2 * PI, 2 * PI, allow_nan=False, allow_infinity=False),
                  st.sampled_from(ATOMS))


@st.composite
def single_gate(draw, qubits, names=SINGLE):
    g = draw(st.sampled_from(names))
    q = draw(st.sampled_from(qubits))
    npar = qr.GATE_ARITY[g][1]
    op = {"g": g, "q": [q]}
    if npar:
        op["p"] = [draw(ANGLE) for _ in range(npar)]
    return op


@st.composite
def gate_block(draw, qubits, count, ent_budget):
    """`count` gates on `qubits`, at most ent_budget[0] entangling ones (mutated)."""
    out = []
    for _ in range(count):
        if len(qubits) >= 2 and ent_budget[0] > 0 and draw(st.integers(0, 2)) == 0:
            a = draw(st.sampled_from(qubits))
            b = draw(st.sampled_from([q for q in qubits if q != a]))
            out.append({"g": draw(st.sampled_from(["cz", "cx"])), "q": [a, b]})
            ent_budget[0] -= 1
        else:
            out.append(draw(single_gate(qubits)))
    return out


@st.composite
def if_block(draw, written, targets, multi=None, orelse=None):
    """multi / orelse: True = forced, False = never, None = drawn (one in three)."""
    c = draw(st.sampled_from(written))
    v = draw(st.integers(0, 1))
    if multi is None:
        multi = len(targets) >= 2 and draw(st.integers(0, 2)) == 0
    if orelse is None:
        orelse = draw(st.integers(0, 2)) == 0
    if multi:
        a = draw(st.sampled_from(targets))
        b = draw(st.sampled_from([q for q in targets if q != a]))
        body = [draw(single_gate([a])), draw(single_gate([b]))]
        if draw(st.booleans()):
            body.append(draw(single_gate(targets)))
        body = draw(st.permutations(body))
    else:
        t = draw(st.sampled_from(targets))
        body = [draw(single_gate([t])) for _ in range(draw(st.integers(1, 2)))]
    op = {"g": "if", "c": c, "v": v, "body": list(body)}
    if orelse:
        # the else branch may act on other qubits than the body
        op["orelse"] = [draw(single_gate(targets)) for _ in range(draw(st.integers(1, 2)))]
    return op


@st.composite
def circuit(draw, mode="main", tier="quick"):
    """mode: main (all shapes mixed) | lowcut | leak_condition | clbit_order | clbit_rewrite |
    multi_qubit_body | else_body (one shape forced each) | three_cz"""
    mixed = mode == "main"          # block shapes / clbit assignment drawn, not forced
    if mode == "main" and draw(st.integers(0, 5)) == 0:
        # one main case in six takes the structure of the leak_condition part (entangler,
        # spectator measured first, condition on the clbit of an entangled qubit): the
        # non-code outcome only survives piquasso's isclose filter in this order
        mode = "leak_condition"
    if mode == "lowcut":
        n = draw(st.sampled_from([2, 2, 3]))
        ent = [0]
    elif mode == "clbit_rewrite":
        n = 3
        ent = [draw(st.integers(0, 1))]
    elif mode == "leak_condition":
        n = 3
        ent = [draw(st.integers(1, 2))]
    elif mode == "multi_qubit_body":
        n = 3
        ent = [draw(st.integers(0, 1))]
    elif mode == "three_cz":
        n = 2
        ent = [0]
    elif mode in ("clbit_order", "else_body"):
        n = draw(st.sampled_from([2, 3]))
        ent = [draw(st.integers(0, 1))]
    else:
        n = draw(st.sampled_from([1, 2, 2, 2, 3, 3, 3]))
        # 3 qubits with 2 heralded CZ: 10 modes, 7 photons, Fock dimension 19448 and a
        # dense 6 GB (virtual) Create operator, ~1 s per execution -> rare in the quick tier
        three = [0, 0, 1, 1, 1, 1, 1, 2] if tier == "quick" else [0, 1, 1, 2, 2]
        ent = [0 if n == 1 else draw(st.integers(0, 2)) if n == 2
               else draw(st.sampled_from(three))]
    adaptive = mode != "three_cz" and n >= 2 and (mode != "main" or draw(st.booleans()))
    budget = [8]
    free = list(range(n))
    ops = []
    nmeas = 0
    written = []

    def take(lo, hi):
        c = draw(st.integers(min(lo, budget[0]), min(hi, budget[0])))
        budget[0] -= c
        return c

    def forced_entangler():
        a = draw(st.sampled_from(free))
        b = draw(st.sampled_from([q for q in free if q != a]))
        budget[0] -= 1
        return {"g": draw(st.sampled_from(["cz", "cx"])), "q": [a, b]}

    if mode == "three_cz":
        for _ in range(3):
            ops.extend(draw(gate_block(free, take(0, 1), [0])))
            ops.append(forced_entangler())
        ops.extend(draw(gate_block(free, take(0, 2), [0])))
    elif mode == "leak_condition":
        ops.extend(draw(gate_block(free, take(1, 2), [0])))
        ops.append(forced_entangler())
        leak_pair = ops[-1]["q"]
        ent[0] -= 1
        ops.extend(draw(gate_block(free, take(0, 2), ent)))
    else:
        ops.extend(draw(gate_block(free, take(1, 5 if adaptive else 8), ent)))
    if adaptive:
        if n == 2 or mode in ("lowcut", "multi_qubit_body", "leak_condition", "clbit_rewrite"):
            rounds = 1
        else:
            rounds = draw(st.integers(1, 2))
        for _ in range(rounds):
            if len(free) < 2:
                break
            if mode in ("lowcut", "leak_condition", "clbit_rewrite"):
                how_many = len(free) - 1
            elif mode == "multi_qubit_body":
                how_many = 1
            else:
                how_many = draw(st.integers(1, len(free) - 1))
            for j in range(how_many):
                if mode == "leak_condition":
                    # first the spectator of the forced entangler (its measurement
                    # renormalises the heralded state), then one of the entangled qubits
                    q = ([x for x in free if x not in leak_pair][0] if j == 0
                         else draw(st.sampled_from(leak_pair)))
                else:
                    q = draw(st.sampled_from(free))
                free.remove(q)
                ops.append({"g": "measure", "q": [q], "c": nmeas})
                written.append(nmeas)
                nmeas += 1
            if mode == "leak_condition":
                unsafe = unsafe_clbits(ops)
                usable = [c for c in written if c in unsafe]
            else:
                usable = list(written)
            n_if = draw(st.integers(0, 2)) if mode == "main" else draw(st.integers(1, 2))
            force = not mixed
            for _ in range(n_if):
                if budget[0] <= 0 or not usable:
                    break
                blk = draw(if_block(usable, free,
                                    multi=True if mode == "multi_qubit_body" else
                                    (False if force else None),
                                    orelse=True if mode == "else_body" else
                                    (False if force else None)))
                budget[0] -= len(blk["body"]) + len(blk.get("orelse", []))
                ops.append(blk)
            ops.extend(draw(gate_block(free, take(0, 2), ent)))
    # analysis layer: one drawn single-qubit gate per unmeasured qubit (or none)
    for q in free:
        if draw(st.integers(0, 4)) > 0:
            ops.append(draw(single_gate([q], ["h", "rx", "ry", "u", "h", "ry"])))
    # final readout: measure a drawn subset of the remaining qubits in a drawn order
    style = draw(st.sampled_from(["state", "measure", "measure", "partial"]))
    if style == "measure":
        final = list(draw(st.permutations(free)))
    elif style == "partial" and len(free) >= 2:
        perm = list(draw(st.permutations(free)))
        final = perm[: draw(st.integers(1, len(free) - 1))]
    else:
        final = []
    for q in final:
        ops.append({"g": "measure", "q": [q], "c": nmeas})
        nmeas += 1
    ncl = max(n, nmeas)
    # clbit assignment: measurement k -> clbit k (half of the mixed cases), a drawn
    # injection positions -> clbits, or a drawn map *with* collisions: a clbit written by
    # two measurements holds the latest result (Qiskit semantics, as in lib/qubit_ref.py),
    # and a later if_test on it must follow the latest measurement.
    style = {"clbit_order": 3, "clbit_rewrite": 4}.get(mode)
    if style is None:
        style = draw(st.integers(0, 5)) if mixed else 0
    if nmeas and style >= 3:
        ncl = max(n, nmeas) + draw(st.integers(0, 1))
        pool = list(range(ncl))
        if style == 3:
            perm = list(draw(st.permutations(pool)))[:nmeas]
            if mode == "clbit_order" and perm == list(range(nmeas)):
                perm = perm[::-1] if nmeas >= 2 else [pool[-1]]
        else:
            perm = [draw(st.sampled_from(pool)) for _ in range(nmeas)]
            # make sure two measurements that precede the last conditioned block share a
            # clbit (when there are two), so that the block reads a re-written clbit
            last_if = max((i for i, op in enumerate(ops) if op["g"] == "if"), default=-1)
            before = [op["c"] for op in ops[:max(last_if, 0)] if op["g"] == "measure"]
            if len(before) >= 2:
                a, b = list(draw(st.permutations(before)))[:2]
                perm[b] = perm[a]
        for op in ops:
            if op["g"] in ("measure", "if"):
                op["c"] = perm[op["c"]]
    return {"n": n, "ncl": ncl, "ops": ops,
            "shots": draw(st.sampled_from([1, 3, 8, 16])),
            "seed": draw(st.integers(0, 2 ** 31 - 1))}


# --------------------------------------------------------------- documented rejections


def reject_cases(tier):
    """Conditioned blocks that the photonic program cannot express: an entangling gate
    (its ancillas / heralding cannot be conditional), a measurement, a nested block -
    alone or after a supported gate, in the body or in the else branch - and a condition
    on a clbit that no measurement has written."""
    bad = {
        "cz": {"g": "cz", "q": [1, 2]},
        "cx": {"g": "cx", "q": [2, 1]},
        "measure": {"g": "measure", "q": [1], "c": 1},
        "nested_if": {"g": "if", "c": 0, "v": 1, "body": [{"g": "x", "q": [2]}]},
    }
    out = []
    for kind, op in bad.items():
        for lead in (False, True):
            for branch in ("body", "orelse"):
                for v in (0, 1):
                    block = ([{"g": "h", "q": [1]}] if lead else []) + [op]
                    blk = {"g": "if", "c": 0, "v": v, "body": block}
                    if branch == "orelse":
                        blk = {"g": "if", "c": 0, "v": v, "body": [{"g": "z", "q": [2]}],
                               "orelse": block}
                    out.append({"kind": kind, "n": 3, "ncl": 3, "ops": [
                        {"g": "h", "q": [0]}, {"g": "measure", "q": [0], "c": 0}, blk]})
    for c in (1, 2):
        out.append({"kind": "unwritten_clbit", "n": 3, "ncl": 3, "ops": [
            {"g": "h", "q": [0]}, {"g": "measure", "q": [0], "c": 0},
            {"g": "if", "c": c, "v": 1, "body": [{"g": "x", "q": [1]}]}]})
    return out


def prop_reject(case, ctx):
    ctx.case(case, True, ["reject:" + case["kind"]])
    qc = build_qiskit(case)
    try:
        dual_rail_encode_from_qiskit(qc)
    except ValueError:
        return
    except Exception as e:
        raise Violation(f"C19:block-reject:{case['kind']}:raises:{type(e).__name__}",
                        f"expected ValueError, got {e!r}") from None
    raise Violation(f"C19:block-reject:{case['kind']}:accepted",
                    "dual_rail_encode_from_qiskit translated a conditioned block that the "
                    "photonic program cannot express")


def parts(tier):
    ps = [
        Part("main", prop, strategy=lambda tier: circuit("main", tier),
             examples={"quick": 320, "thorough": 6000},
             budget_s={"quick": 130, "thorough": 3000}),
        Part("lowcut", prop, strategy=lambda tier: circuit("lowcut", tier),
             examples={"quick": 64, "thorough": 1000},
             budget_s={"quick": 60, "thorough": 600}),
        Part("leak_condition", prop, strategy=lambda tier: circuit("leak_condition", tier),
             examples={"quick": 32, "thorough": 200},
             budget_s={"quick": 60, "thorough": 600}),
        Part("clbit_order", prop, strategy=lambda tier: circuit("clbit_order", tier),
             examples={"quick": 48, "thorough": 400},
             budget_s={"quick": 60, "thorough": 600}),
        Part("clbit_rewrite", prop, strategy=lambda tier: circuit("clbit_rewrite", tier),
             examples={"quick": 32, "thorough": 300},
             budget_s={"quick": 60, "thorough": 600}),
        Part("multi_qubit_body", prop, strategy=lambda tier: circuit("multi_qubit_body", tier),
             examples={"quick": 48, "thorough": 400},
             budget_s={"quick": 60, "thorough": 600}),
        Part("else_body", prop, strategy=lambda tier: circuit("else_body", tier),
             examples={"quick": 48, "thorough": 400},
             budget_s={"quick": 60, "thorough": 600}),
    ]
    # 2 qubits / 3 heralded CZ: 10 modes, 8 photons, ~8 s per case (Create allocates a dense
    # 43758^2 operator); one case on shard 0 in the quick tier
    ps.append(Part("three_cz", prop, strategy=lambda tier: circuit("three_cz", tier),
                   examples={"quick": 1, "thorough": 32},
                   budget_s={"quick": 60, "thorough": 900},
                   only_shard0=(tier == "quick"), shrink=False))
    ps.append(Part("block_rejects", prop_reject, kind="enum", cases=reject_cases))
    return ps
