"""C06 — Fock-basis enumeration and index functions are mutually inverse.

Oracle: `itertools.product` filter of {k in N^d : |k| < c}, sorted by (|k|, descending
lexicographic); closed-form rank computed with Python big integers.  Finite grid is
enumerated exhaustively; large random occupation vectors are drawn with Hypothesis.
"""

from __future__ import annotations

import itertools
from math import comb as mcomb

import numpy as np
from hypothesis import strategies as st

from lib import bootstrap
from lib.harness import Part, Violation

pq = bootstrap.load()

from piquasso._math import combinatorics as pcomb  # noqa: E402
from piquasso._math import fock as pfock  # noqa: E402
from piquasso._math import indices as pind  # noqa: E402
from piquasso.fermionic import _utils as futils  # noqa: E402

PID = "C06"
LEVEL = "exploration"
SHARDS = {"quick": 8, "thorough": 16}
RULE = (
    "bosonic grid: every (d, cutoff) pair enumerated exhaustively against an "
    "itertools.product oracle (set equality, order, inverse index, sub-space index, "
    "vectorised index, dimension formulas, post-selected bases, bounded partitions, "
    "PureFockState lookup); fermionic grid: every (d, cutoff<=d+1); random part: "
    "Hypothesis-drawn large occupation vectors (d<=30, |k|<=40) ranked by a big-int "
    "closed form. Non-trivial = d>=2 and cutoff>=2 (grid), or d>=3 and |k|>=3 (random); "
    "distinct by the (kind, d, cutoff / vector) key."
)
ASSUMPTIONS = [
    "itertools.product enumeration and Python big-int binomials are the reference",
    "indices are only required to be right while the true index is < 2**31 (documented int32 range)",
]
GRID = {
    "quick": {"bos_d": 6, "bos_c": 7, "fer_d": 9},
    "thorough": {"bos_d": 7, "bos_c": 9, "fer_d": 10},
}
EXHAUSTIVE = {
    "quick": "bosonic d<=6, cutoff<=7; fermionic d<=9, all cutoffs<=d+1",
    "thorough": "bosonic d<=7, cutoff<=9; fermionic d<=10, all cutoffs<=d+1",
}


INT31 = 2 ** 31 - 1


def oracle_basis(d: int, c: int) -> list[tuple[int, ...]]:
    vecs = [k for k in itertools.product(range(c), repeat=d) if sum(k) < c]
    vecs.sort(key=lambda k: (sum(k), tuple(-x for x in k)))
    return vecs


def oracle_rank(k: tuple[int, ...]) -> int:
    """Rank of k in the (|k|, descending-lex) order; independent closed form."""
    d, n = len(k), sum(k)
    # vectors with fewer particles
    r = mcomb(n + d - 1, d) if d > 0 else 0
    return r + oracle_subrank(k)


def oracle_subrank(k: tuple[int, ...]) -> int:
    d, n = len(k), sum(k)
    r = 0
    rem = n
    for i in range(d - 1):
        # vectors with the same prefix and a larger i-th entry come first
        boxes = d - i - 1
        for v in range(k[i] + 1, rem + 1):
            r += mcomb(rem - v + boxes - 1, boxes - 1)
        rem -= k[i]
    return r


def prop_bosonic(case, ctx):
    d, c = case["d"], case["c"]
    ref = oracle_basis(d, c)
    ctx.case(["bos", d, c], nontrivial=(d >= 2 and c >= 2), classes=["bosonic_grid"])
    for name, fn in (("get_fock_space_basis", pfock.get_fock_space_basis),
                     ("nb_get_fock_space_basis", pfock.nb_get_fock_space_basis)):
        basis = np.asarray(fn(d, c))
        got = [tuple(int(x) for x in row) for row in basis]
        if len(got) != len(ref) or set(got) != set(ref) or len(set(got)) != len(got):
            raise Violation(f"C06:{name}:not-the-set", f"d={d} c={c}: basis is not exactly "
                            f"the set of vectors below the cutoff ({len(got)} vs {len(ref)})")
        if got != ref:
            i = next(i for i in range(len(ref)) if got[i] != ref[i])
            raise Violation(f"C06:{name}:order", f"d={d} c={c}: position {i} is {got[i]}, "
                            f"expected {ref[i]}")
    basis = np.asarray(pfock.get_fock_space_basis(d, c))
    # dimension formulas
    if int(pfock.cutoff_fock_space_dim(c, d)) != len(ref):
        raise Violation("C06:cutoff_fock_space_dim", f"d={d} c={c}: "
                        f"{pfock.cutoff_fock_space_dim(c, d)} != {len(ref)}")
    arr = pfock.cutoff_fock_space_dim_array(np.arange(1, c + 1), d)
    want = [mcomb(d + cc - 1, d) for cc in range(1, c + 1)]
    if [int(x) for x in arr] != want:
        raise Violation("C06:cutoff_fock_space_dim_array", f"d={d}: {list(arr)} != {want}")
    for n in range(c):
        card = int(pfock.symmetric_subspace_cardinality(d, n))
        if card != sum(1 for k in ref if sum(k) == n):
            raise Violation("C06:symmetric_subspace_cardinality", f"d={d} n={n}: {card}")
        part = pcomb.partitions(d, n)
        if [tuple(int(x) for x in r) for r in part] != [k for k in ref if sum(k) == n]:
            raise Violation("C06:partitions", f"d={d} n={n}: sector enumeration differs")
    # inverse index
    for i, k in enumerate(ref):
        el = np.array(k, dtype=np.int64)
        gi = int(pind.get_index_in_fock_space(el))
        if gi != i:
            raise Violation("C06:get_index_in_fock_space", f"{k}: index {gi}, position {i}")
        gt = int(pind.get_index_in_fock_space(k))  # tuple input (used by callers)
        if gt != i:
            raise Violation("C06:get_index_in_fock_space:tuple", f"{k}: index {gt}, position {i}")
        if i != oracle_rank(k):
            raise AssertionError("oracle rank formula disagrees with oracle enumeration")
        sub = int(pind.get_index_in_fock_subspace(el))
        if sub != oracle_subrank(k):
            raise Violation("C06:get_index_in_fock_subspace",
                            f"{k}: {sub}, expected {oracle_subrank(k)}")
    for dt in (np.int32, np.int64):
        ia = pind.get_index_in_fock_space_array(basis.astype(dt))
        if not np.array_equal(np.asarray(ia, dtype=np.int64), np.arange(len(ref))):
            raise Violation("C06:get_index_in_fock_space_array",
                            f"d={d} c={c} dtype={dt.__name__}: not arange")
        sa = pind.get_index_in_fock_subspace_array(basis.astype(dt))
        if [int(x) for x in sa] != [oracle_subrank(k) for k in ref]:
            raise Violation("C06:get_index_in_fock_subspace_array", f"d={d} c={c}")
    # first/second quantised round trip
    for k in ref:
        fq = pind.to_first_quantized(np.array(k, dtype=np.int64))
        if list(fq) != [m for m, r in enumerate(k) for _ in range(r)]:
            raise Violation("C06:to_first_quantized", f"{k} -> {list(fq)}")
        sq = pind.to_second_quantized(fq, d)
        if tuple(int(x) for x in sq) != k:
            raise Violation("C06:to_second_quantized", f"{k} -> {list(sq)}")
    # post-selected bases (small ones only: all 1- and 2-mode patterns)
    if d >= 2 and c <= 5:
        for m in (1, 2):
            if m >= d:
                continue
            for modes in itertools.permutations(range(d), m):
                if list(modes) != sorted(modes):
                    continue  # callers pass ascending modes
                for photons in itertools.product(range(c), repeat=m):
                    if sum(photons) >= c:
                        continue
                    got = pfock.get_postselected_fock_basis(d, c, modes, photons)
                    got = [tuple(int(x) for x in r) for r in got]
                    exp = [k for k in ref if all(k[mm] == p for mm, p in zip(modes, photons))]
                    if got != exp:
                        raise Violation("C06:get_postselected_fock_basis",
                                        f"d={d} c={c} modes={modes} photons={photons}")
                    ctx.count("postselected_bases")
    # bounded partitions
    if d >= 2 and c <= 5:
        for n in range(c):
            for m in (1, 2):
                if m > d:
                    continue
                for modes in itertools.combinations(range(d), m):
                    for bound in itertools.product(range(0, 3), repeat=m):
                        for kl in range(0, 3):
                            got = pcomb.partitions_bounded_k(d, n, list(modes), list(bound), kl)
                            got = [tuple(int(x) for x in r) for r in got]
                            exp = [
                                k for k in ref if sum(k) == n
                                and all(k[mm] <= b for mm, b in zip(modes, bound))
                                and sum(b - k[mm] for mm, b in zip(modes, bound)) <= kl
                            ]
                            if got != exp:
                                raise Violation(
                                    "C06:partitions_bounded_k",
                                    f"d={d} n={n} modes={modes} bound={bound} k={kl}: "
                                    f"{got[:4]}.. vs {exp[:4]}..")
                            ctx.count("bounded_partitions")
    # lookup through the public state
    if 1 <= d <= 4 and 2 <= c <= 5:
        sim = pq.PureFockSimulator(d=d, config=pq.Config(cutoff=c))
        amps = {k: complex(0.1 + 0.01 * i, -0.003 * i) for i, k in enumerate(ref)}
        state = sim.create_initial_state()
        state.state_vector = np.array([amps[k] for k in ref], dtype=complex)
        for k in ref:
            v = complex(state[k if d > 1 else (k[0],)]) if d > 1 else complex(state[k[0]])
            if abs(v - amps[k]) > 0:
                raise Violation("C06:PureFockState.__getitem__", f"d={d} c={c} key={k}")
        if d >= 2:
            got = state[np.array(ref)]
            if not np.array_equal(np.asarray(got), np.array([amps[k] for k in ref])):
                raise Violation("C06:PureFockState.__getitem__:2d", f"d={d} c={c}")
            # slice lookups: fix all but one mode
            for pos in range(d):
                fixed = [0] * d
                key = tuple(slice(None) if i == pos else fixed[i] for i in range(d))
                got = np.asarray(state[key])
                exp = np.array([amps[tuple(v if i == pos else 0 for i in range(d))]
                                for v in range(c)])
                if not np.array_equal(got, exp):
                    raise Violation("C06:PureFockState.__getitem__:slice",
                                    f"d={d} c={c} key={key}")
        ctx.count("state_lookup")


def fermionic_oracle(d: int, c: int) -> list[tuple[int, ...]]:
    vecs = [k for k in itertools.product((0, 1), repeat=d) if sum(k) < c]
    vecs.sort(key=lambda k: (sum(k), tuple(-x for x in k)))
    return vecs


def prop_fermionic(case, ctx):
    d, c = case["d"], case["c"]
    ref = fermionic_oracle(d, c)
    ctx.case(["fer", d, c], nontrivial=(d >= 2 and c >= 2), classes=["fermionic_grid"])
    basis = futils.get_fock_space_basis(d, c)
    got = [tuple(int(x) for x in r) for r in basis]
    if set(got) != set(ref) or len(got) != len(ref):
        raise Violation("C06:fermionic:get_fock_space_basis:not-the-set", f"d={d} c={c}")
    if got != ref:
        raise Violation("C06:fermionic:get_fock_space_basis:order", f"d={d} c={c}")
    if int(futils.get_cutoff_fock_space_dimension(d, c)) != len(ref):
        raise Violation("C06:fermionic:get_cutoff_fock_space_dimension", f"d={d} c={c}")
    arr = futils.cutoff_fock_space_dim_array(np.arange(0, c + 1), d)
    if [int(x) for x in arr] != [sum(mcomb(d, k) for k in range(cc)) for cc in range(c + 1)]:
        raise Violation("C06:fermionic:cutoff_fock_space_dim_array", f"d={d} c={c}")
    sector_start = {}
    for i, k in enumerate(ref):
        sector_start.setdefault(sum(k), i)
    for i, k in enumerate(ref):
        el = np.array(k, dtype=np.int64)
        gi = int(futils.get_fock_space_index(el))
        if gi != i:
            raise Violation("C06:fermionic:get_fock_space_index", f"{k}: {gi} != {i}")
        si = int(futils.get_fock_subspace_index(el))
        if si != i - sector_start[sum(k)]:
            raise Violation("C06:fermionic:get_fock_subspace_index", f"{k}: {si}")
        fq = np.array([m for m, o in enumerate(k) if o], dtype=np.int64)
        sf = int(futils.get_fock_subspace_index_first_quantized(fq, d))
        if sf != si:
            raise Violation("C06:fermionic:get_fock_subspace_index_first_quantized", f"{k}")
        if i + 1 < len(ref):
            nxt = futils.next_second_quantized(el)
            if tuple(int(x) for x in nxt) != ref[i + 1]:
                raise Violation("C06:fermionic:next_second_quantized",
                                f"{k} -> {tuple(nxt)}, expected {ref[i + 1]}")
            nfq = futils.next_first_quantized(fq.copy(), d)
            exp = [m for m, o in enumerate(ref[i + 1]) if o]
            if list(int(x) for x in nfq) != exp:
                raise Violation("C06:fermionic:next_first_quantized",
                                f"{list(fq)} -> {list(nfq)}, expected {exp}")
    for n in range(min(c, d + 1)):
        if int(futils.get_fock_subspace_dimension(d, n)) != mcomb(d, n):
            raise Violation("C06:fermionic:get_fock_subspace_dimension", f"d={d} n={n}")
    if c == d + 1:
        b2f = futils.binary_to_fock_indices(d)
        f2b = futils.fock_to_binary_indices(d)
        full = ref
        for fi, k in enumerate(full):
            bi = int("".join(map(str, k)), 2)
            if int(b2f[fi]) != bi:
                raise Violation("C06:fermionic:binary_to_fock_indices", f"d={d} {k}")
            if int(f2b[bi]) != fi:
                raise Violation("C06:fermionic:fock_to_binary_indices", f"d={d} {k}")
        if not np.array_equal(b2f[f2b], np.arange(2 ** d)):
            raise Violation("C06:fermionic:binary-fock-roundtrip", f"d={d}")


def grid_cases(tier):
    g = GRID[tier]
    out = []
    for d in range(1, g["bos_d"] + 1):
        for c in range(1, g["bos_c"] + 1):
            out.append({"kind": "bos", "d": d, "c": c})
    for d in range(1, g["fer_d"] + 1):
        for c in range(1, d + 2):
            out.append({"kind": "fer", "d": d, "c": c})
    # heavy cases first per shard would be nicer; interleave by cost
    out.sort(key=lambda x: -(mcomb(x["d"] + x["c"] - 1, x["d"]) if x["kind"] == "bos" else 2 ** x["d"]))
    return out


def prop_grid(case, ctx):
    if case["kind"] == "bos":
        prop_bosonic(case, ctx)
    else:
        prop_fermionic(case, ctx)


def max_total_in_range(d):
    """largest n with C(n+d, d) <= 2**31-1 (the whole basis up to that sector is
    addressable with the documented 32-bit indices)"""
    lo, hi = 0, 2 ** 31
    while lo < hi:
        mid = (lo + hi + 1) // 2
        if mcomb(mid + d, d) <= INT31:
            lo = mid
        else:
            hi = mid - 1
    return lo


@st.composite
def big_vectors(draw):
    regime = draw(st.sampled_from(["moderate", "moderate", "deep", "deep", "long"]))
    if regime == "deep":
        # few modes, as many photons as the 32-bit index range allows (n ~ 65000 for d=2,
        # ~2300 for d=3, ~90 for d=6)
        d = draw(st.integers(1, 6))
        nmax = min(max_total_in_range(d), 70000)
        total = draw(st.one_of(st.integers(0, nmax), st.integers(max(0, nmax - 50), nmax)))
        cuts = sorted(draw(st.lists(st.integers(0, total), min_size=d - 1, max_size=d - 1)))
        k = [b - a for a, b in zip([0] + cuts, cuts + [total])]
        return k
    if regime == "long":
        # many modes, few photons (d + n beyond 62, where 64-bit binomials get tight)
        d = draw(st.integers(31, 90))
        total = draw(st.integers(0, 3))
        while mcomb(total + d, d) > INT31:
            total -= 1
        k = [0] * d
        for _ in range(total):
            k[draw(st.integers(0, d - 1))] += 1
        return k
    d = draw(st.integers(1, 30))
    total = draw(st.integers(0, 40))
    style = draw(st.sampled_from(["spread", "few", "front", "back"]))
    k = [0] * d
    if style == "few":
        pos = draw(st.lists(st.integers(0, d - 1), min_size=1, max_size=3))
    elif style == "front":
        pos = list(range(min(d, 3)))
    elif style == "back":
        pos = list(range(max(0, d - 3), d))
    else:
        pos = list(range(d))
    for _ in range(total):
        k[draw(st.sampled_from(pos))] += 1
    return k


def prop_random(case, ctx):
    k = tuple(int(x) for x in case)
    d, n = len(k), sum(k)
    true = oracle_rank(k)
    in_range = mcomb(n + d, d) <= INT31  # whole space up to this sector fits int32
    regime = "deep" if (d <= 6 and n > 40) else ("long" if d > 30 else "moderate")
    ctx.case(["rand", list(k)], nontrivial=((d >= 3 and n >= 3) or regime != "moderate") and in_range,
             classes=["random_in_range" if in_range else "random_out_of_range",
                      f"random_{regime}"])
    fq = pind.to_first_quantized(np.array(k, dtype=np.int64))
    sq = pind.to_second_quantized(fq, d)
    if tuple(int(x) for x in sq) != k:
        raise Violation("C06:first-second-quantised-roundtrip", f"{k}")
    if not in_range:
        return
    gi = int(pind.get_index_in_fock_space(np.array(k, dtype=np.int64)))
    if gi != true:
        raise Violation("C06:get_index_in_fock_space:large", f"{k}: {gi} != {true}")
    gi32 = int(pind.get_index_in_fock_space(np.array(k, dtype=np.int32)))
    if gi32 != true:
        raise Violation("C06:get_index_in_fock_space:large:int32", f"{k}: {gi32} != {true}")
    arr = np.array([k, k[::-1]], dtype=np.int64)
    ga = pind.get_index_in_fock_space_array(arr)
    if int(ga[0]) != true or int(ga[1]) != oracle_rank(k[::-1]):
        raise Violation("C06:get_index_in_fock_space_array:large",
                        f"{k}: {list(ga)} != {[true, oracle_rank(k[::-1])]}")
    sub = int(pind.get_index_in_fock_subspace(np.array(k, dtype=np.int64)))
    if sub != oracle_subrank(k):
        raise Violation("C06:get_index_in_fock_subspace:large", f"{k}")
    suba = pind.get_index_in_fock_subspace_array(arr)
    if int(suba[0]) != oracle_subrank(k):
        raise Violation("C06:get_index_in_fock_subspace_array:large", f"{k}")
    if int(pfock.cutoff_fock_space_dim(n + 1, d)) != mcomb(n + d, d):
        raise Violation("C06:cutoff_fock_space_dim:large", f"d={d} c={n + 1}")
    if int(pfock.symmetric_subspace_cardinality(d, n)) != mcomb(n + d - 1, n):
        raise Violation("C06:symmetric_subspace_cardinality:large", f"d={d} n={n}")


@st.composite
def fermionic_vectors(draw):
    d = draw(st.integers(1, 28))
    return draw(st.lists(st.integers(0, 1), min_size=d, max_size=d))


def prop_random_fermionic(case, ctx):
    k = tuple(int(x) for x in case)
    d, n = len(k), sum(k)
    ctx.case(["frand", list(k)], nontrivial=(d >= 3 and n >= 2), classes=["random_fermionic"])
    pos = [m for m, o in enumerate(k) if o]
    # rank in sector: number of n-subsets lexicographically smaller (ascending positions)
    sub = 0
    prev = -1
    for i, p in enumerate(pos):
        for q in range(prev + 1, p):
            sub += mcomb(d - q - 1, n - i - 1)
        prev = p
    true = sum(mcomb(d, j) for j in range(n)) + sub
    gi = int(futils.get_fock_space_index(np.array(k, dtype=np.int64)))
    if gi != true:
        raise Violation("C06:fermionic:get_fock_space_index:large", f"{k}: {gi} != {true}")
    si = int(futils.get_fock_subspace_index(np.array(k, dtype=np.int64)))
    if si != sub:
        raise Violation("C06:fermionic:get_fock_subspace_index:large", f"{k}: {si} != {sub}")


def parts(tier):
    return [
        Part("grid", prop_grid, kind="enum", cases=grid_cases,
             budget_s={"quick": 200, "thorough": 3000}),
        Part("random", prop_random, strategy=big_vectors(),
             examples={"quick": 2000, "thorough": 50000}),
        Part("random_fermionic", prop_random_fermionic, strategy=fermionic_vectors(),
             examples={"quick": 1000, "thorough": 20000}),
    ]
