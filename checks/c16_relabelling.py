"""C16 — relabelling modes relabels the result; disjoint gates commute.

Metamorphic, no reference implementation: every oracle compares two executions of the real
simulators on programs that the property declares equivalent.

Parts (DESIGN.md §2/C16):
  relabel        bosonic program description on G / PF / F / P and a drawn permutation pi of
                 range(d): every mode tuple mapped through pi (order inside a tuple kept),
                 the input occupation numbers / superposition terms / Gaussian mean and
                 covariance permuted; the final state of pi(program) must be the pi-permuted
                 final state (probability maps, amplitudes, density matrices, Gaussian
                 moments in both orderings, the passive simulator's interferometer, marginal
                 maps on an ordered mode tuple, single-outcome probabilities).
  relabel_meas   lib/aprogs adaptive programs (mid-circuit ParticleNumberMeasurement,
                 post-selection, .when conditions, outcome-dependent parameters) on PF / P /
                 F with shots=None: equal outcome tuples with equal weights and
                 position-permuted branch states.
  full_tuple     direct relation for ALL d modes listed in a non-ascending order on PF / F / P:
                 reduced(order), get_marginal_fock_probabilities(order) and the shots=None
                 outcome tuples of a measurement on Q(*order) equal the probability table
                 re-keyed in the listed order (added after the seeded change C16_a).
  commute        every adjacent pair of instructions with disjoint supports is exchanged:
                 gates on G / P / fermionic G always, on PF / F / fermionic PF when the
                 representation is exact for them (number-conserving, or the full fermionic
                 space); gate <-> measurement / post-selection exchanges in adaptive programs.
  commute_active active Gaussian gates on PF / F from vacuum, within the truncation-leak bound
                 of C01 (leak measured on the Gaussian simulator for both orders).
  permuted_gate  a gate given on a permuted mode tuple with the correspondingly permuted
                 matrix is the same operation (Interferometer(U[s][:,s]) on modes[s],
                 GaussianTransform blocks likewise, Beamsplitter(theta, pi-phi) on (j,i),
                 symmetric gates on (j,i), any 2-mode linear gate as its permuted matrix).
  fermionic      relabelling on the fermionic Gaussian simulator (any ordered subsets, any
                 pi) and on the fermionic pure Fock simulator (ascending consecutive blocks,
                 pi a block translation), compared through probabilities and covariance.
"""

from __future__ import annotations

import copy
import math
import os
import warnings

import numpy as np
from hypothesis import strategies as st

from lib import aprogs, bootstrap, progs
from lib import gaussian_gen as gg
from lib.harness import Part, Violation

pq = bootstrap.load()

from piquasso.api.exceptions import NotImplementedCalculation, PiquassoException  # noqa: E402
from piquasso._simulators.connectors import NumpyConnector  # noqa: E402

PID = "C16"
LEVEL = "exploration"
# (C16_QUICK_SHARDS: fewer worker processes on a machine without 8 free cores; the examples
# and wall-clock budgets are totals, so this only trades evaluations for CPU)
SHARDS = {"quick": int(os.environ.get("C16_QUICK_SHARDS", "8")), "thorough": 16}
RULE = (
    "Hypothesis-generated program descriptions (lib/progs, lib/aprogs: d<=4 bosonic, d<=5 "
    "fermionic, <=7 instructions on ordered mode subsets drawn as permutation prefixes, "
    "number / superposition / vacuum / random Gaussian inputs) together with a drawn "
    "permutation of range(d) (relabel*), with every adjacent disjoint pair exchanged "
    "(commute*), or with drawn per-gate permutations of the mode tuple (permuted_gate). "
    "Non-trivial: relabel* = pi != id moves a mode touched by a multi-mode instruction and "
    "the final distribution is not a point mass; commute* = an exchanged pair includes a "
    "multi-mode instruction; permuted_gate = a gate on >=2 modes is given in another order. "
    "Distinct by hash of (description, permutation)."
)
ASSUMPTIONS = [
    "metamorphic: both sides are computed by piquasso; a defect that is itself covariant "
    "under relabelling (e.g. a wrong but label-independent matrix) is invisible here (C01, "
    "C07 cover those)",
    "tolerance 1e-9*(1+scale) on amplitudes, probabilities, density-matrix entries and "
    "Gaussian moments (scale = largest entry of the compared quantity): the two executions "
    "perform the same floating-point operations in a different order",
    "relabelling on PF / F is asserted at 1e-9 for active gates as well: the truncation "
    "(total photon number < cutoff) and the Euler factors of a gate matrix do not depend on "
    "the labels",
    "commute_active: tolerance on amplitudes 2*(e1+e2)+1e-9, on probabilities "
    "4*(2e+e^2)+1e-9 with e=e1+e2, e_i = sum over Euler-expanded prefixes of sqrt(leak above "
    "the cutoff) measured on the Gaussian simulator for each order (C01's bound; vacuum input, "
    "cutoff chosen so that e_i <= 2e-3)",
    "permuted_gate on PF / F: only number-conserving gates; an active gate on an exchanged "
    "tuple (even Squeezing2, whose matrix is invariant under the exchange) applies the "
    "exchanged Euler factors, which in the truncated space differ by the truncation error "
    "(observed 7e-4 at cutoff 3), so active gates are compared on G only",
    "the gate matrix handed to the permuted equivalent of MachZehnder, Beamsplitter5050, "
    "ControlledX is the gate's own _get_passive_block/_get_active_block (what the matrix "
    "is belongs to C07; only its placement on the modes is tested here)",
    "fermionic pure Fock simulator: its passive gates require ascending consecutive modes, "
    "so pi is restricted to translations of consecutive blocks (general pi is out of scope "
    "there: amplitudes carry Jordan-Wigner signs); number-state inputs only; fermionic "
    "states are compared through probabilities and the covariance matrix, never amplitudes",
    "outcome tuples follow the order of the measured modes as given; conditions and "
    "outcome-dependent parameters refer to outcome positions, which relabelling keeps",
    "excluded by construction (known findings, counted): passive simulator with >= 2 "
    "successive measurements and shots=None (C03:exact:P:sequential-measurements), passive "
    "Kerr after a measurement (C13:valid-crash:P:kerr-after-measurement); the finding "
    "C16:P:exact-measurement-after-postselection:remapped-modes (fixed, 019b0db) is "
    "searched again and also probed on a fixed grid by the part passive_postselect_measure",
    "finite-shot samples are not compared (samplers are not label-independent); sampling "
    "distributions are compared through the exact maps (shots=None weights, "
    "get_marginal_fock_probabilities)",
]
# fractions of all evaluations; measured on full runs at seeds 1-3: 0.31 / 0.19 / 0.17 with ~2000
# of 2562 budgeted evaluations, 0.15-0.20 / 0.13-0.24 / 0.24-0.28 on a heavily loaded machine
# (the wall-clock budgets then cut the parts unevenly, hence the wide margin)
FLOORS = {"perm_moves_multimode": 0.08, "swap_with_multimode": 0.05,
          "permuted_multimode_tuple": 0.03, "full_tuple_nonascending_asymmetric": 0.015}

TOL = 1e-9
NC = NumpyConnector()
FSim = pq.fermionic.PureFockSimulator
FGSim = pq.fermionic.GaussianSimulator


# ------------------------------------------------------------------------------ utilities

def ikey(k):
    return tuple(int(x) for x in k)


def perm_list(values, perm):
    """out[perm[k]] = values[k]: the quantity of mode k is carried by mode perm[k]."""
    out = [None] * len(values)
    for k, v in enumerate(values):
        out[perm[k]] = v
    return out


def is_identity(perm):
    return list(perm) == list(range(len(perm)))


def maxabs(x):
    x = np.asarray(x)
    return float(np.max(np.abs(x))) if x.size else 0.0


def maxdiff(a, b):
    a, b = np.asarray(a), np.asarray(b)
    if a.shape != b.shape:
        return float("inf")
    return float(np.max(np.abs(a - b))) if a.size else 0.0


def real_map(m):
    return {ikey(k): float(np.real(v)) for k, v in m.items()}


def complex_map(m):
    return {ikey(k): complex(v) for k, v in m.items()}


def cmp_maps(a, b_permuted, bucket, what, tol=TOL):
    """a: map of the base program, b_permuted: map of the transformed program with its keys
    already mapped back to the base labelling."""
    keys = set(a) | set(b_permuted)
    worst, wk = 0.0, None
    for k in keys:
        dv = abs(a.get(k, 0.0) - b_permuted.get(k, 0.0))
        if dv > worst:
            worst, wk = dv, k
    if worst > tol:
        raise Violation(bucket, f"{what}: entry {wk} differs by {worst:.3e} "
                                f"(base {a.get(wk, 0.0)!r}, transformed {b_permuted.get(wk, 0.0)!r})")


def back_keys(m, perm):
    """Map of the relabelled program expressed in base labels: key'[perm[k]] = key[k]."""
    return {tuple(k2[perm[k]] for k in range(len(perm))): v for k2, v in m.items()}


def back_keys_pos(m, rho):
    return back_keys(m, rho)


# ------------------------------------------------------------------------------ descriptions

def relabel_prep(prep, perm):
    if prep["kind"] == "vacuum":
        return dict(prep)
    if prep["kind"] == "number":
        return {"kind": "number", "occ": perm_list(prep["occ"], perm)}
    if prep["kind"] == "superposition":
        return {"kind": "superposition",
                "terms": [[perm_list(o, perm), a] for o, a in prep["terms"]]}
    if prep["kind"] == "gaussian":
        old = prep.get("perm")
        new = list(perm) if old is None else [perm[old[k]] for k in range(len(perm))]
        return {**prep, "perm": new}
    raise KeyError(prep["kind"])


def relabel_gate(g, perm):
    out = dict(g)
    out["modes"] = [perm[m] for m in g["modes"]]
    return out


def relabel_desc(desc, perm):
    return {**desc, "prep": relabel_prep(desc["prep"], perm),
            "gates": [relabel_gate(g, perm) for g in desc["gates"]]}


def blocks_of(g, cutoff):
    """(passive, active-or-None) complex-form blocks of a linear gate description."""
    name, p, k = g["g"], g["p"], len(g["modes"])
    if name == "Interferometer":
        return progs.haar_unitary(k, p["seed"], p.get("kind", "haar")), None
    if name == "GaussianTransform":
        return progs.gaussian_transform_blocks(k, p["seed"], p["rmax"])
    inst = progs.make_gate(pq, g, cutoff)
    cfg = pq.Config()
    pas = np.asarray(inst._get_passive_block(NC, cfg))
    act = None
    if hasattr(inst, "_get_active_block"):
        act = np.asarray(inst._get_active_block(NC, cfg))
        if maxabs(act) == 0.0:
            act = None
    return pas, act


def make_gate(g, cutoff):
    if g["g"] == "_permuted":
        pas, act = blocks_of(g["base"], cutoff)
        s = list(g["sig"])
        ix = np.ix_(s, s)
        if act is None:
            return pq.Interferometer(np.asarray(pas)[ix])
        return pq.GaussianTransform(passive=np.asarray(pas)[ix], active=np.asarray(act)[ix])
    return progs.make_gate(pq, g, cutoff)


def add_prep(sim, prep, d):
    if prep["kind"] == "gaussian":
        mu0, s0 = gg.dimensionless(prep["g"])  # xxpp, hbar = 1
        perm = prep.get("perm")
        if perm is not None:
            inv = [0] * d
            for k in range(d):
                inv[perm[k]] = k
            idx = inv + [d + i for i in inv]
            mu0, s0 = mu0[idx], s0[np.ix_(idx, idx)]
        pq.Q() | pq.Vacuum()
        pq.Q() | pq.Mean(gg.vec_to_xpxp(mu0))
        pq.Q() | pq.Covariance(gg.mat_to_xpxp(s0))
        return
    progs.add_prep(pq, sim, prep, d)


def run_desc(desc, sim, what):
    d, c, hbar = desc["d"], desc.get("cutoff"), desc.get("hbar", 2.0)
    try:
        with warnings.catch_warnings():
            warnings.simplefilter("ignore")
            simulator = progs.make_simulator(pq, sim, d, c, hbar)
            with pq.Program() as program:
                add_prep(sim, desc["prep"], d)
                for g in desc["gates"]:
                    pq.Q(*g["modes"]) | make_gate(g, c)
            return simulator.execute(program).state
    except Exception as e:
        raise Violation(f"C16:{what}:{sim}:raises:{type(e).__name__}",
                        f"{sim} raised {type(e).__name__}: {str(e)[:300]}")


def multimode_moved(items, perm):
    return any(len(g["modes"]) >= 2 and any(perm[m] != m for m in g["modes"]) for g in items)


# ------------------------------------------------------------------------------ state oracles

def basis_of(state):
    return [ikey(k) for k in state.fock_probabilities_map.keys()]


def index_permutation(base_state, new_state, perm):
    """q with new_vector[q[i]] <-> base_vector[i] (labels taken from the public maps)."""
    ba, bb = basis_of(base_state), basis_of(new_state)
    if len(ba) != len(bb):
        return None
    pos = {k: i for i, k in enumerate(bb)}
    try:
        return [pos[tuple(perm_list(list(k), perm))] for k in ba]
    except KeyError:
        return None


def compare_states(sim, a, b, perm, tag, marg=None, linear_only=False):
    try:
        _compare_states(sim, a, b, perm, tag, marg, linear_only)
    except Violation:
        raise
    except Exception as e:  # an observable of a reachable state must not raise
        raise Violation(f"C16:{tag}:{sim}:observable-raises:{type(e).__name__}",
                        f"{type(e).__name__}: {str(e)[:300]}")


def _compare_states(sim, a, b, perm, tag, marg=None, linear_only=False):
    """a: state of the base program; b: state of the transformed program, in which base
    mode k is called perm[k].  Raises Violation on the first difference."""
    d = len(perm)
    B = f"C16:{tag}:{sim}"
    if type(a) is not type(b):
        raise Violation(f"{B}:state-type", f"{type(a).__name__} vs {type(b).__name__}")
    # the representation decides what can be compared (PF + Attenuator gives a FockState)
    sim = {"GaussianState": "G", "PureFockState": "PF", "FockState": "F",
           "PassiveState": "P"}.get(type(a).__name__, sim)
    if int(a.d) != int(b.d):
        raise Violation(f"{B}:d", f"d = {a.d} vs {b.d}")
    if sim == "G":
        ix = [2 * perm[k] + s for k in range(d) for s in (0, 1)]
        ixx = [perm[k] for k in range(d)] + [d + perm[k] for k in range(d)]
        for name, idx in (("xpxp", ix), ("xxpp", ixx)):
            ma = np.asarray(getattr(a, name + "_mean_vector"))
            mb = np.asarray(getattr(b, name + "_mean_vector"))[idx]
            ca = np.asarray(getattr(a, name + "_covariance_matrix"))
            cb = np.asarray(getattr(b, name + "_covariance_matrix"))[np.ix_(idx, idx)]
            if maxdiff(ma, mb) > TOL * (1 + maxabs(ma)):
                raise Violation(f"{B}:{name}_mean", f"mean vectors differ by {maxdiff(ma, mb):.3e}")
            if maxdiff(ca, cb) > TOL * (1 + maxabs(ca)):
                raise Violation(f"{B}:{name}_cov",
                                f"covariance matrices differ by {maxdiff(ca, cb):.3e}")
        pm = [perm[k] for k in range(d)]
        da = np.asarray(a.complex_displacement)
        db = np.asarray(b.complex_displacement)
        idc = pm + [d + x for x in pm]
        if da.shape == db.shape and len(da) == 2 * d and maxdiff(da, db[idc]) > TOL * (1 + maxabs(da)):
            raise Violation(f"{B}:complex_displacement", f"{maxdiff(da, db[idc]):.3e}")
        cca = np.asarray(a.complex_covariance)
        ccb = np.asarray(b.complex_covariance)
        if cca.shape == (2 * d, 2 * d) and maxdiff(cca, ccb[np.ix_(idc, idc)]) > TOL * (1 + maxabs(cca)):
            raise Violation(f"{B}:complex_covariance", f"{maxdiff(cca, ccb[np.ix_(idc, idc)]):.3e}")
    pa = real_map(a.fock_probabilities_map)
    pb = back_keys(real_map(b.fock_probabilities_map), perm)
    cmp_maps(pa, pb, f"{B}:fock_probabilities_map", "fock_probabilities_map")
    if sim in ("PF", "F", "P"):
        q = index_permutation(a, b, perm)
        if q is None:
            raise Violation(f"{B}:basis", "the two states do not label the same basis")
    if sim == "PF":
        cmp_maps(complex_map(a.fock_amplitudes_map),
                 back_keys(complex_map(b.fock_amplitudes_map), perm),
                 f"{B}:fock_amplitudes_map", "fock_amplitudes_map")
        va, vb = np.asarray(a.state_vector), np.asarray(b.state_vector)[q]
        if maxdiff(va, vb) > TOL:
            raise Violation(f"{B}:state_vector", f"amplitudes differ by {maxdiff(va, vb):.3e}")
        for k in range(d):
            xa, xb = a.mean_position(k), b.mean_position(perm[k])
            if abs(xa - xb) > TOL * (1 + abs(xa)):
                raise Violation(f"{B}:mean_position",
                                f"mode {k}: {xa!r} vs mode {perm[k]}: {xb!r}")
    if sim in ("PF", "F"):
        ra, rb = np.asarray(a.density_matrix), np.asarray(b.density_matrix)[np.ix_(q, q)]
        if maxdiff(ra, rb) > TOL:
            raise Violation(f"{B}:density_matrix", f"entries differ by {maxdiff(ra, rb):.3e}")
    if sim == "P":
        cmp_maps(complex_map(a.state_vector_map),
                 back_keys(complex_map(b.state_vector_map), perm),
                 f"{B}:state_vector_map", "state_vector_map")
        # (the passive state is a pair (input amplitudes, interferometer); Kerr gates and
        # measurements fold the interferometer into the amplitudes, so the attribute is an
        # observable of the state only for purely linear programs)
        ia, ib = np.asarray(a.interferometer), np.asarray(b.interferometer)
        if linear_only and ia.shape == (d, d):
            pm = [perm[k] for k in range(d)]
            if maxdiff(ia, ib[np.ix_(pm, pm)]) > TOL:
                raise Violation(f"{B}:interferometer",
                                f"differs by {maxdiff(ia, ib[np.ix_(pm, pm)]):.3e}")
    # single-outcome interface on a few labels
    keys = sorted(pa)
    for k in keys[:: max(1, len(keys) // 5)]:
        va = float(np.real(a.get_particle_detection_probability(np.array(k))))
        vb = float(np.real(b.get_particle_detection_probability(
            np.array(perm_list(list(k), perm)))))
        if abs(va - vb) > TOL:
            raise Violation(f"{B}:get_particle_detection_probability", f"{k}: {va!r} vs {vb!r}")
    # marginal on an ORDERED tuple of modes: keys follow the given order, hence are equal
    if marg:
        mb_modes = tuple(perm[m] for m in marg)
        try:
            ma = real_map(a.get_marginal_fock_probabilities(tuple(marg)))
            mb = real_map(b.get_marginal_fock_probabilities(mb_modes))
        except NotImplementedCalculation:
            return  # documented: passive-state marginals need a single input occupation
        except Exception as e:
            raise Violation(f"{B}:marginal:raises:{type(e).__name__}", str(e)[:300])
        cmp_maps(ma, mb, f"{B}:get_marginal_fock_probabilities",
                 f"marginal on {tuple(marg)} vs {mb_modes}")
        # marginal vs full table (ordered tuple): sum over the other modes
        ref = {}
        for k, v in pa.items():
            kk = tuple(k[m] for m in marg)
            ref[kk] = ref.get(kk, 0.0) + v
        if sim != "G":  # G: the full table is cut at the cutoff, the marginal is not
            cmp_maps({k: v for k, v in ma.items()}, ref,
                     f"{B}:marginal-vs-table", f"marginal on {tuple(marg)} vs summed table")
        if sim in ("PF", "F"):  # also for a full-length (permuted) tuple
            try:
                ra = np.asarray(a.reduced(tuple(marg)).density_matrix)
                rb = np.asarray(b.reduced(mb_modes).density_matrix)
            except Exception as e:
                raise Violation(f"{B}:reduced:raises:{type(e).__name__}", str(e)[:300])
            if maxdiff(ra, rb) > TOL:
                raise Violation(f"{B}:reduced", f"reduced density matrices on {tuple(marg)} vs "
                                                f"{mb_modes} differ by {maxdiff(ra, rb):.3e}")
        if sim == "G" and len(marg) < d:
            ra, rb = a.reduced(tuple(marg)), b.reduced(mb_modes)
            if maxdiff(ra.xpxp_covariance_matrix, rb.xpxp_covariance_matrix) > TOL * (
                    1 + maxabs(ra.xpxp_covariance_matrix)) or maxdiff(
                    ra.xpxp_mean_vector, rb.xpxp_mean_vector) > TOL * (1 + maxabs(ra.xpxp_mean_vector)):
                raise Violation(f"{B}:reduced", f"reduced states on {tuple(marg)} vs {mb_modes} differ")


def linear_only(gates):
    return all(g["g"] in progs.PASSIVE for g in gates)


def point_mass(state):
    try:
        p = np.real(np.asarray(state.fock_probabilities, dtype=complex))
    except Exception:  # reported by compare_states as observable-raises
        return False
    return p.size == 0 or float(p.max()) >= 0.999


# ------------------------------------------------------------------------------ relabel

MULTI = {
    "G": ["Beamsplitter", "Interferometer", "Squeezing2", "GaussianTransform", "ControlledX",
          "MachZehnder", "ControlledZ"],
    "PF": ["Beamsplitter", "Interferometer", "CrossKerr", "MachZehnder", "Squeezing2",
           "GaussianTransform", "Beamsplitter5050"],
    "F": ["Beamsplitter", "Interferometer", "CrossKerr", "MachZehnder", "Squeezing2"],
    "P": ["Beamsplitter", "Interferometer", "CrossKerr", "MachZehnder", "Beamsplitter5050"],
}
CONSERVING = set(progs.PASSIVE + progs.KERR)


@st.composite
def gaussian_prep(draw, d):
    if draw(st.integers(0, 3)) == 0:
        return {"kind": "vacuum"}
    return {"kind": "gaussian",
            "g": {"d": d, "seed": draw(st.integers(0, 2**31)),
                  "kind": draw(st.sampled_from(["pure", "mixed", "partial"])),
                  "displaced": draw(st.booleans()), "layers": 1, "rmax": 0.5,
                  "mu_scale": 0.5}}


@st.composite
def bosonic_program(draw, sim, conserving=False, min_d=2, max_gates=6):
    d = draw(st.integers(min_d, 4 if sim in ("G", "P", "PF") else 3))
    names = sorted(progs.SUPPORT[sim])
    multi = MULTI[sim]
    if conserving:
        names = [n for n in names if n in CONSERVING]
        multi = [n for n in multi if n in CONSERVING]
    scale = 0.5
    # PF: the Attenuator turns the state into a (mixed) FockState which the simulator's
    # other steps do not accept, so there it can only be the last instruction (as in C01)
    last_att = sim == "PF" and "Attenuator" in names
    if sim == "PF":
        names = [n for n in names if n != "Attenuator"]
    gates = draw(st.lists(progs.gate(d, names, scale), min_size=0, max_size=max_gates - 1))
    extra = draw(progs.gate(d, multi, scale))
    if len(extra["modes"]) < 2:  # Interferometer / GaussianTransform drawn on one mode
        extra["modes"] = draw(progs.ordered_modes(d, draw(st.integers(2, d))))
    pos = draw(st.integers(0, len(gates)))
    gates = gates[:pos] + [extra] + gates[pos:]
    if last_att and draw(st.integers(0, 5)) == 0:
        gates.append(draw(progs.gate(d, ["Attenuator"])))
    if sim == "G":
        prep = draw(gaussian_prep(d))
        cutoff = draw(st.integers(3, 4))
    else:
        nmax = draw(st.integers(1, 3))
        kinds = ("number", "number", "superposition", "vacuum") if sim != "P" else (
            "number", "number", "superposition")
        prep = draw(progs.prep(d, nmax, kinds=kinds))
        n = progs.prep_max_photons(prep, d)
        if all(g["g"] in CONSERVING for g in gates):
            cutoff = n + 1 + (draw(st.integers(0, 1)) if sim != "P" else 0)
        else:
            cutoff = max(n + 1, draw(st.integers(3, 5)))
        if sim == "F" and d == 3:
            cutoff = min(cutoff, 4)
    hbar = draw(st.sampled_from([1.0, 2.0, 2.0, 3.7]))
    return {"d": d, "prep": prep, "gates": gates, "cutoff": cutoff, "hbar": hbar}


@st.composite
def relabel_case(draw):
    sim = draw(st.sampled_from(["G", "G", "PF", "PF", "F", "P", "P"]))
    desc = draw(bosonic_program(sim))
    d = desc["d"]
    perm = list(draw(st.permutations(list(range(d)))))
    k = d if draw(st.integers(0, 2)) == 0 else draw(st.integers(1, d))
    marg = draw(progs.ordered_modes(d, k))
    return {"sim": sim, "desc": desc, "perm": perm, "marg": marg}


def prop_relabel(case, ctx):
    sim, desc, perm, marg = case["sim"], case["desc"], case["perm"], case["marg"]
    a = run_desc(desc, sim, "relabel")
    b = run_desc(relabel_desc(desc, perm), sim, "relabel")
    moved = multimode_moved(desc["gates"], perm)
    cl = [f"relabel_{sim}", "prep_" + desc["prep"]["kind"]]
    if moved:
        cl.append("perm_moves_multimode")
    if any(list(g["modes"]) != sorted(g["modes"]) for g in desc["gates"]):
        cl.append("nonascending_modes")
    if any(g["g"] not in CONSERVING for g in desc["gates"]) and sim in ("PF", "F"):
        cl.append("relabel_truncating_gate")
    if len(marg) == desc["d"] and (list(marg) != sorted(marg)
                                   or [perm[m] for m in marg] != sorted(marg)):
        cl.append("full_tuple_nonascending")
    ctx.case(case, moved and not point_mass(a), cl)
    compare_states(sim, a, b, perm, "relabel", marg, linear_only=linear_only(desc["gates"]))


# ------------------------------------------------------------------------------ relabel_meas

def normalise_adaptive(desc):
    """Make Q()-registered steps explicit (Q() addresses the active modes ascending)."""
    out = copy.deepcopy(desc)
    for s in out["steps"]:
        if s.get("all_modes"):
            s["modes"] = sorted(s["modes"])
    return out


def relabel_adaptive(desc, perm):
    """Relabelled program; steps that the base registers with Q() are given explicitly."""
    out = copy.deepcopy(desc)
    out["prep"] = relabel_prep(desc["prep"], perm)
    for s in out["steps"]:
        modes = sorted(s["modes"]) if s.get("all_modes") else s["modes"]
        s["modes"] = [perm[m] for m in modes]
        s.pop("all_modes", None)
    return out


def run_adaptive(desc):
    with warnings.catch_warnings():
        warnings.simplefilter("ignore")
        program, sim = aprogs.build(pq, desc, seed_sequence=11)
        return sim.execute(program, shots=None)


UNSUPPORTED = "unsupported"


def run_adaptive_guarded(desc, what):
    try:
        return run_adaptive(desc)
    except NotImplementedCalculation:
        return UNSUPPORTED
    except PiquassoException as e:
        if "Marginal probabilities cannot be calculated" in str(e):
            return UNSUPPORTED
        raise Violation(f"C16:{what}:{desc['sim']}:raises:{type(e).__name__}", str(e)[:300])
    except Exception as e:
        raise Violation(f"C16:{what}:{desc['sim']}:raises:{type(e).__name__}",
                        f"{type(e).__name__}: {str(e)[:300]}")


def branch_table(res):
    """outcome -> (total weight, state or None if the outcome is not unique)."""
    out = {}
    for b in res.branches:
        k = ikey(b.outcome)
        if k in out:
            out[k] = (out[k][0] + float(b.frequency), None)
        else:
            out[k] = (float(b.frequency), b.state)
    return out


def remaining_modes(desc):
    rest = list(range(desc["d"]))
    for s in desc["steps"]:
        if s["k"] in ("measure", "postselect"):
            rest = [m for m in rest if m not in s["modes"]]
    return rest


def compare_results(sim, ra, rb, rho, tag, outcome_map=None):
    """Branch tables of two shots=None executions; rho = position permutation of the modes
    that remain (base position k is position rho[k] in the transformed program);
    outcome_map maps a base outcome tuple to the transformed one (default identity)."""
    B = f"C16:{tag}:{sim}"
    ta, tb = branch_table(ra), branch_table(rb)
    if outcome_map is not None:
        tb = {outcome_map(k, inverse=True): v for k, v in tb.items()}
    wa = {k: v[0] for k, v in ta.items()}
    wb = {k: v[0] for k, v in tb.items()}
    for k in set(wa) | set(wb):
        if len(k) != len(next(iter(wa))):
            raise Violation(f"{B}:outcome-length", f"outcome {k}")
    cmp_maps(wa, wb, f"{B}:outcome-weights", "shots=None outcome weights")
    n = 0
    for k, (w, sa) in ta.items():
        if w < 1e-7 or k not in tb:
            continue
        sb = tb[k][1]
        if sa is None or sb is None:
            continue
        if rho is None or len(rho) == 0:
            continue
        if int(sa.d) != len(rho) or int(sb.d) != len(rho):
            raise Violation(f"{B}:branch-state:d",
                            f"outcome {k}: branch states on {sa.d} / {sb.d} modes, "
                            f"{len(rho)} modes remain")
        if sa._config.cutoff != sb._config.cutoff:
            raise Violation(f"{B}:branch-state:cutoff",
                            f"outcome {k}: cutoffs {sa._config.cutoff} vs {sb._config.cutoff}")
        try:
            compare_states(sim, sa, sb, rho, tag + ":branch-state")
        except Violation as v:
            raise Violation(v.bucket, f"outcome {k}: {v.message}")
        n += 1
    return n


def position_perm(rest, perm):
    """Base program: remaining modes `rest` ascending; relabelled program: sorted(perm[r])."""
    new = sorted(perm[r] for r in rest)
    return [new.index(perm[r]) for r in rest]


@st.composite
def relabel_meas_case(draw):
    sim = draw(st.sampled_from(["PF", "PF", "P", "P", "F"]))
    desc = draw(aprogs.adaptive_program(
        sim, allow_postselect=(sim in ("PF", "P")), final_measure=draw(st.integers(0, 3)) > 0,
        max_meas=3 if sim == "PF" else 1))
    for s in desc["steps"]:
        if s["k"] == "measure":
            s["m"], s["p"] = "ParticleNumberMeasurement", {}
    last = desc["steps"][-1] if desc["steps"] else None
    if last and last["k"] == "measure" and draw(st.integers(0, 2)) == 0:
        # a final measurement of ALL remaining modes in a drawn order (the exact full-
        # measurement branch of the passive simulator reorders the outcome itself)
        rest = remaining_modes({**desc, "steps": desc["steps"][:-1]})
        if len(rest) >= 2:
            last["modes"] = draw(progs.ordered_modes(desc["d"], len(rest), rest))
            last.pop("all_modes", None)
    perm = list(draw(st.permutations(list(range(desc["d"])))))
    return {"desc": desc, "perm": perm}


B_PPS = "C16:P:exact-measurement-after-postselection:remapped-modes"


def marginal_measurement_after_postselection(desc):
    """Trigger of B_PPS: passive simulator, shots=None, a measurement of a proper subset of
    the remaining modes after a post-selection."""
    rest, seen = list(range(desc["d"])), False
    for s in desc["steps"]:
        if s["k"] == "measure" and seen and set(s["modes"]) != set(rest):
            return True
        if s["k"] in ("measure", "postselect"):
            seen = seen or s["k"] == "postselect"
            rest = [m for m in rest if m not in s["modes"]]
    return False


def passive_excluded(desc, ctx):
    if desc["sim"] != "P":
        return False
    if marginal_measurement_after_postselection(desc):
        # trigger of the finding B_PPS (fixed in 019b0db): searched again since the fix
        ctx.count("passive_marginal_measurement_after_postselection")
    if aprogs.kerr_after_measurement(desc):
        ctx.exclude("C13:valid-crash:P:kerr-after-measurement")
        return True
    if sum(1 for s in desc["steps"] if s["k"] == "measure") >= 2:
        ctx.exclude("C03:exact:P:sequential-measurements:joint-weights")
        return True
    return False


def prop_relabel_meas(case, ctx):
    desc, perm = case["desc"], case["perm"]
    sim = desc["sim"]
    if passive_excluded(desc, ctx):
        return
    ra = run_adaptive_guarded(desc, "relabel_meas")
    rb = run_adaptive_guarded(relabel_adaptive(desc, perm), "relabel_meas")
    if (ra is UNSUPPORTED) != (rb is UNSUPPORTED):
        raise Violation(f"C16:relabel_meas:{sim}:support-depends-on-labels",
                        f"base program {'refused' if ra is UNSUPPORTED else 'ran'}, relabelled "
                        f"program {'refused' if rb is UNSUPPORTED else 'ran'}")
    if ra is UNSUPPORTED:
        ctx.count("documented_unsupported")
        return
    steps = normalise_adaptive(desc)["steps"]
    nmeas = sum(1 for s in steps if s["k"] in ("measure", "postselect"))
    moved = multimode_moved(steps, perm)
    cl = [f"relabel_meas_{sim}", f"nmeas_{min(nmeas, 3)}"]
    if moved:
        cl.append("perm_moves_multimode")
    if any(s.get("when") or s.get("pexpr") for s in steps):
        cl.append("adaptive")
    if any(s["k"] == "postselect" for s in steps):
        cl.append("postselect")
    nb = len(ra.branches)
    act = list(range(desc["d"]))
    for st_ in steps:
        if st_["k"] == "measure" and len(st_["modes"]) >= 2 and set(st_["modes"]) == set(act) and (
                list(st_["modes"]) != sorted(st_["modes"])
                or [perm[m] for m in st_["modes"]] != sorted(perm[m] for m in st_["modes"])):
            cl.append("full_tuple_nonascending")
            break
        if st_["k"] in ("measure", "postselect"):
            act = [m for m in act if m not in st_["modes"]]
    ctx.case(case, moved and nmeas >= 1 and nb >= 2, cl)
    rest = remaining_modes(normalise_adaptive(desc))
    rho = position_perm(rest, perm)
    n = compare_results(sim, ra, rb, rho, "relabel_meas")
    if n:
        ctx.count("branch_states_compared", n)


# regression probe of the finding B_PPS (found by relabel_meas, fixed in 019b0db)

def pps_cases(tier):
    out = []
    for occ in ([0, 1, 0], [1, 1, 0], [0, 1, 1]):
        for ps, m in ((0, 2), (0, 1), (1, 2), (2, 0)):
            if occ[ps]:
                continue
            for perm in ([1, 0, 2], [2, 1, 0], [1, 2, 0]):
                out.append({"occ": occ, "ps": ps, "m": m, "perm": perm})
    return out


def prop_pps(case, ctx):
    occ, ps, m, perm = case["occ"], case["ps"], case["m"], case["perm"]
    desc = {"sim": "P", "d": 3, "cutoff": sum(occ) + 1, "hbar": 2.0,
            "prep": {"kind": "number", "occ": occ},
            "steps": [{"k": "gate", "g": "Beamsplitter", "modes": [1, 2],
                       "p": {"theta": 0.4, "phi": 0.3}},
                      {"k": "postselect", "modes": [ps], "photons": [0]},
                      {"k": "measure", "m": "ParticleNumberMeasurement", "modes": [m], "p": {}}]}
    ctx.case(case, True, ["passive_postselect_then_measure"])
    what = (f"PassiveSimulator, shots=None, NumberState({occ}), Beamsplitter(0.4, 0.3) on (1, 2), "
            f"PostSelectPhotons((0,)) on mode {ps}, ParticleNumberMeasurement on mode {m}")
    out = []
    for dsc in (desc, relabel_adaptive(desc, perm), {**desc, "sim": "PF"}):
        try:
            out.append({k: v[0] for k, v in branch_table(run_adaptive(dsc)).items()})
        except Exception as e:
            raise Violation(B_PPS, f"{what}{'' if dsc is desc else ' (relabelled by ' + str(perm) + ')'}"
                                   f": refused with '{str(e)[:120]}' although the measured mode "
                                   f"is not post-selected")
    base, rel, pf = out
    for name, other in (("the relabelled program", rel), ("the pure Fock simulator", pf)):
        keys = set(base) | set(other)
        bad = max(abs(base.get(k, 0.0) - other.get(k, 0.0)) for k in keys)
        if bad > TOL:
            raise Violation(B_PPS, f"{what}: weights {base} differ from {name} {other}")


# ------------------------------------------------------------------------------ full_tuple

@st.composite
def full_tuple_case(draw):
    sim = draw(st.sampled_from(["PF", "PF", "F", "F", "P"]))
    desc = draw(bosonic_program(sim, max_gates=5))
    desc["gates"] = [g for g in desc["gates"] if g["g"] != "Attenuator"]
    d = desc["d"]
    order = list(draw(st.permutations(list(range(d)))))
    if order == sorted(order):
        order = order[::-1]
    return {"sim": sim, "desc": desc, "order": order}


def prop_full_tuple(case, ctx):
    """Direct relation: ALL d modes listed in a non-ascending order.  reduced(order),
    get_marginal_fock_probabilities(order) and the shots=None outcome tuples of a
    measurement on Q(*order) must be the probability table re-keyed in the listed order."""
    sim, desc, order = case["sim"], case["desc"], case["order"]
    B = f"C16:full_tuple:{sim}"
    a = run_desc(desc, sim, "full_tuple")
    try:
        pa = real_map(a.fock_probabilities_map)
    except Exception as e:
        raise Violation(f"{B}:observable-raises:{type(e).__name__}", str(e)[:300])
    exp = {}
    for k, v in pa.items():
        kk = tuple(k[m] for m in order)
        exp[kk] = exp.get(kk, 0.0) + v
    asym = max(abs(exp.get(k, 0.0) - v) for k, v in pa.items()) > 1e-6
    ctx.case(case, asym, [f"full_tuple_{sim}"] + (
        ["full_tuple_nonascending_asymmetric"] if asym else []))
    what = f"all modes in the order {tuple(order)}"
    try:
        marg = real_map(a.get_marginal_fock_probabilities(tuple(order)))
    except NotImplementedCalculation:
        marg = None  # passive state with several input occupation numbers (documented)
    except Exception as e:
        raise Violation(f"{B}:marginal:raises:{type(e).__name__}", str(e)[:300])
    if marg is not None:
        cmp_maps(exp, marg, f"{B}:get_marginal_fock_probabilities",
                 f"get_marginal_fock_probabilities on {what} vs the re-keyed table")
    if sim in ("PF", "F"):
        try:
            red = real_map(a.reduced(tuple(order)).fock_probabilities_map)
        except Exception as e:
            raise Violation(f"{B}:reduced:raises:{type(e).__name__}", str(e)[:300])
        cmp_maps(exp, red, f"{B}:reduced", f"reduced() to {what} vs the re-keyed table")
    # measurement of Q(*order): outcome tuples follow the listed order
    adesc = {"sim": sim, "d": desc["d"], "cutoff": desc["cutoff"], "hbar": desc["hbar"],
             "prep": desc["prep"],
             "steps": [{"k": "gate", **g} for g in desc["gates"]] + [
                 {"k": "measure", "m": "ParticleNumberMeasurement", "modes": list(order), "p": {}}]}
    res = run_adaptive_guarded(adesc, "full_tuple")
    if res is UNSUPPORTED:
        ctx.count("documented_unsupported")
        return
    w = {k: v[0] for k, v in branch_table(res).items()}
    # documented (sample_from_probability_map): with shots=None the branches are "filtered
    # to non-zero probabilities" by np.isclose(p, 0), i.e. outcomes with p <= 1e-8 are absent
    for k, v in exp.items():
        if k not in w and v <= 1e-8 + TOL:
            w[k] = v
    cmp_maps(exp, w, f"{B}:outcome-weights",
             f"shots=None weights of a measurement of {what} vs the re-keyed table")
    ctx.count("full_tuple_measured")


# ------------------------------------------------------------------------------ commute

def disjoint_pairs(items):
    return [i for i in range(len(items) - 1)
            if not set(items[i]["modes"]) & set(items[i + 1]["modes"])]


def swapped(items, i):
    out = list(items)
    out[i], out[i + 1] = out[i + 1], out[i]
    return out


@st.composite
def disjoint_pair(draw, d, names, multi, scale=0.5):
    """Two gates on disjoint pools of modes (one of them on >= 2 modes when d >= 3)."""
    order = draw(progs.ordered_modes(d, d))
    cut = draw(st.integers(1, d - 1))
    pools = [order[:cut], order[cut:]]
    out = []
    for pool in pools:
        pick = [n for n in (multi if len(pool) >= 2 and draw(st.integers(0, 3)) else names)
                if (progs.ARITY[n] or 1) <= len(pool)]
        g = draw(progs.gate(d, pick or names, scale, pool=pool))
        out.append(g)
    return out if draw(st.booleans()) else out[::-1]


@st.composite
def commute_case(draw):
    sim = draw(st.sampled_from(["G", "G", "PF", "F", "P", "P"]))
    desc = draw(bosonic_program(sim, conserving=(sim in ("PF", "F")), min_d=3, max_gates=5))
    names = sorted(progs.SUPPORT[sim] - {"Attenuator"})
    multi = MULTI[sim]
    if sim in ("PF", "F"):
        names = [n for n in names if n in CONSERVING]
        multi = [n for n in multi if n in CONSERVING]
    pair = draw(disjoint_pair(desc["d"], names, multi))
    pos = draw(st.integers(0, len(desc["gates"])))
    if desc["gates"] and desc["gates"][-1]["g"] == "Attenuator":
        pos = min(pos, len(desc["gates"]) - 1)
    desc["gates"] = desc["gates"][:pos] + pair + desc["gates"][pos:]
    return {"sim": sim, "desc": desc}


def prop_commute(case, ctx):
    sim, desc = case["sim"], case["desc"]
    gates = desc["gates"]
    pairs = disjoint_pairs(gates)
    if not pairs:
        ctx.count("no_disjoint_pair")
        return
    multi = any(len(gates[i]["modes"]) >= 2 or len(gates[i + 1]["modes"]) >= 2 for i in pairs)
    cl = [f"commute_{sim}"] + (["swap_with_multimode"] if multi else [])
    ctx.case(case, multi, cl)
    a = run_desc(desc, sim, "commute")
    ident = list(range(desc["d"]))
    for i in pairs:
        b = run_desc({**desc, "gates": swapped(gates, i)}, sim, "commute")
        try:
            compare_states(sim, a, b, ident, "commute", linear_only=linear_only(gates))
        except Violation as v:
            raise Violation(v.bucket, f"exchanging instructions {i} ({gates[i]['g']} on "
                                      f"{gates[i]['modes']}) and {i + 1} ({gates[i + 1]['g']} on "
                                      f"{gates[i + 1]['modes']}): {v.message}")
        ctx.count("pairs_exchanged")


# gate <-> measurement / post-selection in adaptive programs

def adaptive_swaps(steps):
    """Indices i such that steps i, i+1 are disjoint and exchanging them provably keeps
    the meaning of every outcome position."""
    out = []
    for i in range(len(steps) - 1):
        s, t = steps[i], steps[i + 1]
        if s.get("all_modes") or t.get("all_modes"):
            continue
        if set(s["modes"]) & set(t["modes"]):
            continue
        kinds = {s["k"], t["k"]}
        if kinds == {"gate"}:
            out.append(i)
        elif "gate" in kinds and len(kinds) == 2:
            g = s if s["k"] == "gate" else t
            other = t if s["k"] == "gate" else s
            # a measurement appends outcomes: a gate that reads outcomes cannot cross it
            if other["k"] == "measure" and (g.get("when") or g.get("pexpr")):
                continue
            out.append(i)
    return out


@st.composite
def commute_meas_case(draw):
    sim = draw(st.sampled_from(["PF", "PF", "P"]))
    desc = draw(aprogs.adaptive_program(
        sim, allow_postselect=True, final_measure=draw(st.booleans()),
        max_meas=2 if sim == "PF" else 1, dmax=4))
    for s in desc["steps"]:
        if s["k"] == "measure":
            s["m"], s["p"] = "ParticleNumberMeasurement", {}
    return {"desc": desc}


def conserving_steps(desc):
    return all(s["g"] in CONSERVING for s in desc["steps"] if s["k"] == "gate")


def prop_commute_meas(case, ctx):
    desc = normalise_adaptive(case["desc"])
    for s in desc["steps"]:
        s.pop("all_modes", None)
    sim = desc["sim"]
    if passive_excluded(desc, ctx):
        return
    steps = desc["steps"]
    pairs = adaptive_swaps(steps)
    if sim == "PF" and not conserving_steps(desc):
        # truncating gates: only exchanges that do not involve one of them are exact
        pairs = [i for i in pairs if all(
            s["k"] != "gate" or s["g"] in CONSERVING for s in (steps[i], steps[i + 1]))]
    crossing = [i for i in pairs if {steps[i]["k"], steps[i + 1]["k"]} != {"gate"}]
    if not pairs:
        ctx.count("no_disjoint_pair")
        return
    ra = run_adaptive_guarded(desc, "commute_meas")
    if ra is UNSUPPORTED:
        ctx.count("documented_unsupported")
        return
    multi = any(len(steps[i]["modes"]) >= 2 or len(steps[i + 1]["modes"]) >= 2 for i in pairs)
    cl = [f"commute_meas_{sim}"] + (["swap_with_multimode"] if multi else []) + (
        ["gate_crosses_measurement"] if crossing else [])
    ctx.case(case, multi, cl)
    rest = remaining_modes(desc)
    ident = list(range(len(rest)))
    for i in pairs:
        new = {**desc, "steps": swapped(steps, i)}
        if sim == "P" and aprogs.kerr_after_measurement(new):
            ctx.exclude("C13:valid-crash:P:kerr-after-measurement")
            continue
        rb = run_adaptive_guarded(new, "commute_meas")
        if rb is UNSUPPORTED:
            raise Violation(f"C16:commute_meas:{sim}:support-depends-on-order",
                            f"exchanging steps {i},{i + 1} makes the program unsupported")
        try:
            compare_results(sim, ra, rb, ident, "commute_meas")
        except Violation as v:
            raise Violation(v.bucket, f"exchanging steps {i} ({steps[i]['k']} "
                                      f"{steps[i].get('g', '')} on {steps[i]['modes']}) and {i + 1} "
                                      f"({steps[i + 1]['k']} {steps[i + 1].get('g', '')} on "
                                      f"{steps[i + 1]['modes']}): {v.message}")
        ctx.count("pairs_exchanged")


# ------------------------------------------------------------------------------ commute_active

def _c01():
    from checks import c01_equivalence as c01
    return c01


@st.composite
def commute_active_case(draw):
    sim = draw(st.sampled_from(["PF", "PF", "F"]))
    d = draw(st.integers(2, 3))
    names = progs.PASSIVE + progs.ACTIVE_GAUSS + progs.DISPLACE
    single = ["Squeezing", "Displacement", "QuadraticPhase", "PositionDisplacement"]
    # a disjoint active pair by construction, surrounded by drawn gates
    m = draw(progs.ordered_modes(d, d))
    if d == 3 and draw(st.booleans()):
        first = draw(progs.gate(d, ["Squeezing2", "GaussianTransform", "Beamsplitter"],
                                0.5, pool=m[:2]))
        if first["g"] == "GaussianTransform":
            first["modes"] = m[:2]
    else:
        first = draw(progs.gate(d, single, 0.5, pool=m[:1]))
    second = draw(progs.gate(d, single, 0.5, pool=m[-1:]))
    before = draw(st.lists(progs.gate(d, names, 0.5), min_size=0, max_size=2))
    after = draw(st.lists(progs.gate(d, names, 0.5), min_size=0, max_size=2))
    pair = [first, second] if draw(st.booleans()) else [second, first]
    return {"sim": sim, "d": d, "prep": {"kind": "vacuum"}, "gates": before + pair + after,
            "hbar": draw(st.sampled_from([1.0, 2.0]))}


def prop_commute_active(case, ctx):
    try:
        _prop_commute_active(case, ctx)
    except Violation:
        raise
    except Exception as e:  # leak measurement on the Gaussian simulator / observables
        if type(e).__name__ == "BoundUnavailable":
            ctx.count("no_cutoff_found")
            return
        raise Violation(f"C16:commute_active:raises:{type(e).__name__}",
                        f"{type(e).__name__}: {str(e)[:300]}")


def _prop_commute_active(case, ctx):
    c01 = _c01()
    sim, hbar = case["sim"], case["hbar"]
    base = {k: case[k] for k in ("d", "prep", "gates", "hbar")}
    if "cutoff" in case:
        desc, c = base, case["cutoff"]
        try:
            e1 = sum(math.sqrt(x) for x in c01.gaussian_leaks(desc, c, hbar))
        except c01.BoundUnavailable:
            ctx.count("no_cutoff_found")
            return
    else:
        desc, c, e1 = c01.choose_cutoff(base, hbar)
        if c is None or (sim == "F" and c > 6):
            ctx.count("no_cutoff_found")
            return
    desc = {**desc, "cutoff": c}
    gates = desc["gates"]
    pairs = [i for i in disjoint_pairs(gates)
             if not (gates[i]["g"] in CONSERVING and gates[i + 1]["g"] in CONSERVING)]
    if not pairs:
        ctx.count("no_disjoint_pair")
        return
    multi = any(len(gates[i]["modes"]) >= 2 or len(gates[i + 1]["modes"]) >= 2 for i in pairs)
    ctx.case(desc, multi, [f"commute_active_{sim}"] + (["swap_with_multimode"] if multi else []))
    a = run_desc(desc, sim, "commute_active")
    for i in pairs[:2]:
        new = {**desc, "gates": swapped(gates, i)}
        try:
            e2 = sum(math.sqrt(x) for x in c01.gaussian_leaks(new, c, hbar))
        except c01.BoundUnavailable:
            ctx.count("no_cutoff_found")
            continue
        e = e1 + e2
        b = run_desc(new, sim, "commute_active")
        pa = np.real(np.asarray(a.fock_probabilities, dtype=complex))
        pb = np.real(np.asarray(b.fock_probabilities, dtype=complex))
        tol_p = 4 * (2 * e + e * e) + TOL
        what = (f"exchanging {gates[i]['g']} on {gates[i]['modes']} and {gates[i + 1]['g']} on "
                f"{gates[i + 1]['modes']} (cutoff {c}, e={e:.2e})")
        if maxdiff(pa, pb) > tol_p:
            raise Violation(f"C16:commute_active:{sim}:fock_probabilities",
                            f"{what}: |dp| = {maxdiff(pa, pb):.3e} > bound {tol_p:.3e}")
        if sim == "PF":
            va, vb = np.asarray(a.state_vector), np.asarray(b.state_vector)
            if maxdiff(va, vb) > 2 * e + TOL:
                raise Violation("C16:commute_active:PF:state_vector",
                                f"{what}: amplitudes differ by {maxdiff(va, vb):.3e} > "
                                f"{2 * e + TOL:.3e}")
        else:
            ra, rb = np.asarray(a.density_matrix), np.asarray(b.density_matrix)
            if maxdiff(ra, rb) > 4 * e + TOL:
                raise Violation("C16:commute_active:F:density_matrix",
                                f"{what}: entries differ by {maxdiff(ra, rb):.3e} > "
                                f"{4 * e + TOL:.3e}")
        ctx.count("pairs_exchanged")


# ------------------------------------------------------------------------------ permuted_gate

SYMMETRIC = ("CrossKerr", "Squeezing2", "ControlledZ")


def permuted_equivalent(g, sig, sim):
    """Description of the same operation given on the mode tuple modes[sig]; None if the
    equivalence is not exact on this simulator."""
    modes = [g["modes"][s] for s in sig]
    name = g["g"]
    if list(sig) == list(range(len(sig))):
        return g
    if name == "Beamsplitter":
        return {"g": name, "modes": modes,
                "p": {"theta": g["p"]["theta"], "phi": math.pi - g["p"]["phi"]}}
    if name == "CrossKerr" or (name in SYMMETRIC and sim == "G"):
        return {"g": name, "modes": modes, "p": dict(g["p"])}
    if name in ("Interferometer", "MachZehnder", "Beamsplitter5050"):
        return {"g": "_permuted", "modes": modes, "base": g, "sig": list(sig), "p": {}}
    if name in ("GaussianTransform", "ControlledX") and sim == "G":
        return {"g": "_permuted", "modes": modes, "base": g, "sig": list(sig), "p": {}}
    return None


@st.composite
def permuted_gate_case(draw):
    sim = draw(st.sampled_from(["G", "G", "PF", "F", "P", "P"]))
    desc = draw(bosonic_program(sim, conserving=False, min_d=2, max_gates=5))
    sigs = []
    for g in desc["gates"]:
        k = len(g["modes"])
        sigs.append(list(draw(st.permutations(list(range(k))))) if k >= 2 else [0])
    if all(sg == sorted(sg) for sg in sigs):
        i = next(i for i, g in enumerate(desc["gates"]) if len(g["modes"]) >= 2)
        sigs[i] = sigs[i][::-1]
    return {"sim": sim, "desc": desc, "sigs": sigs}


def prop_permuted_gate(case, ctx):
    sim, desc, sigs = case["sim"], case["desc"], case["sigs"]
    new_gates, changed = [], 0
    for g, sig in zip(desc["gates"], sigs):
        e = permuted_equivalent(g, sig, sim) if len(g["modes"]) >= 2 else g
        if e is None:
            e = g
        elif e is not g:
            changed += 1
        new_gates.append(e)
    if not changed:
        ctx.count("nothing_permuted")
        return
    cl = [f"permuted_gate_{sim}", "permuted_multimode_tuple"]
    if any(e["g"] == "_permuted" and len(e["modes"]) >= 3 for e in new_gates):
        cl.append("permuted_3plus_modes")
    a = run_desc(desc, sim, "permuted_gate")
    ctx.case(case, not point_mass(a), cl)
    b = run_desc({**desc, "gates": new_gates}, sim, "permuted_gate")
    try:
        compare_states(sim, a, b, list(range(desc["d"])), "permuted_gate",
                       linear_only=linear_only(desc["gates"]))
    except Violation as v:
        names = [f"{g['g']} on {g['modes']} -> {e['modes']}" for g, e in
                 zip(desc["gates"], new_gates) if e is not g]
        raise Violation(v.bucket, f"{'; '.join(names)}: {v.message}")


# ------------------------------------------------------------------------------ fermionic

F_PASSIVE = ("Interferometer", "Beamsplitter", "Phaseshifter")
F_ACTIVE = ("Squeezing2", "IsingXX")


def quadratic_hamiltonian(k, seed, scale, sig=None):
    """[[-conj A, B], [-conj B, A]] with A self-adjoint and B skew-symmetric."""
    rng = progs.rng_of(seed)
    a = rng.normal(size=(k, k)) + 1j * rng.normal(size=(k, k))
    a = (a + a.conj().T) / 2 * scale
    b = rng.normal(size=(k, k)) + 1j * rng.normal(size=(k, k))
    b = (b - b.T) / 2 * scale
    if sig is not None:
        ix = np.ix_(sig, sig)
        a, b = a[ix], b[ix]
    return np.block([[-a.conj(), b], [-b.conj(), a]])


def f_make_gate(g):
    name, p = g["g"], g["p"]
    k = len(g["modes"])
    if name == "Interferometer":
        u = progs.haar_unitary(k, p["seed"], p.get("kind", "haar"))
        if p.get("sig") is not None:
            u = u[np.ix_(p["sig"], p["sig"])]
        return pq.Interferometer(u)
    if name == "GaussianHamiltonian":
        return pq.fermionic.GaussianHamiltonian(
            quadratic_hamiltonian(k, p["seed"], p["scale"], p.get("sig")))
    if name == "IsingXX":
        return pq.fermionic.IsingXX(phi=p["phi"])
    if name == "ControlledPhase":
        return pq.fermionic.ControlledPhase(phi=p["phi"])
    return getattr(pq, name)(**p)


def f_run(kind, desc, gates, what):
    d = desc["d"]
    try:
        with warnings.catch_warnings():
            warnings.simplefilter("ignore")
            if kind == "FG":
                sim = FGSim(d=d, config=pq.Config())
            else:
                sim = FSim(d=d, config=pq.Config(cutoff=desc["cutoff"]))
            with pq.Program() as prog:
                pq.Q() | pq.NumberState(list(desc["occ"]))
                for g in gates:
                    pq.Q(*g["modes"]) | f_make_gate(g)
            return sim.execute(prog).state
    except Exception as e:
        raise Violation(f"C16:{what}:{kind}:raises:{type(e).__name__}",
                        f"{kind} raised {type(e).__name__}: {str(e)[:300]}")


def f_prob_map(kind, state, d, cutoff=None):
    if kind == "FPF":
        return real_map(state.fock_probabilities_map)
    out = {}
    p = np.real(np.asarray(state.fock_probabilities, dtype=complex))
    for i in range(2 ** d):
        occ = tuple((i >> (d - 1 - k)) & 1 for k in range(d))  # documented: lexicographic
        out[occ] = float(p[i])
    return out


def f_compare(kind, a, b, perm, tag, desc):
    try:
        _f_compare(kind, a, b, perm, tag, desc)
    except Violation:
        raise
    except Exception as e:
        raise Violation(f"C16:{tag}:{kind}:observable-raises:{type(e).__name__}",
                        f"{type(e).__name__}: {str(e)[:300]}")


def _f_compare(kind, a, b, perm, tag, desc):
    d = len(perm)
    B = f"C16:{tag}:{kind}"
    ca, cb = np.asarray(a.covariance_matrix), np.asarray(b.covariance_matrix)
    ix = [2 * perm[k] + s for k in range(d) for s in (0, 1)]
    if ca.shape != cb.shape or maxdiff(ca, cb[np.ix_(ix, ix)]) > TOL:
        raise Violation(f"{B}:covariance_matrix",
                        f"covariance matrices differ by {maxdiff(ca, cb[np.ix_(ix, ix)]):.3e}")
    pa = f_prob_map(kind, a, d)
    pb = back_keys(f_prob_map(kind, b, d), perm)
    # Gaussian probabilities are sqrt(det): absolute error 1e-14 of the determinant allows
    # sqrt(1e-14) = 1e-7 at p = 0 (C17's bound)
    cmp_maps(pa, pb, f"{B}:fock_probabilities", "probabilities",
             tol=TOL if kind == "FPF" else 2.1e-7)
    if kind == "FG":
        cmp_maps({k: v for k, v in pa.items() if v > 1e-5},
                 {k: v for k, v in pb.items() if pa.get(k, 0) > 1e-5},
                 f"{B}:fock_probabilities", "probabilities (p > 1e-5)", tol=TOL * 10)
        na = np.asarray(a.mean_particle_numbers(list(range(d))))
        nb = np.asarray(b.mean_particle_numbers([perm[k] for k in range(d)]))
        if maxdiff(na, nb) > TOL:
            raise Violation(f"{B}:mean_particle_numbers", f"{na.tolist()} vs {nb.tolist()}")
    keys = sorted(pa)
    cutoff = desc.get("cutoff", d + 1)
    for k in keys[:: max(1, len(keys) // 4)]:
        if sum(k) >= cutoff:
            continue
        va = float(np.real(a.get_particle_detection_probability(np.array(k))))
        vb = float(np.real(b.get_particle_detection_probability(np.array(perm_list(list(k), perm)))))
        if abs(va - vb) > (TOL if kind == "FPF" else 2.1e-7):
            raise Violation(f"{B}:get_particle_detection_probability", f"{k}: {va!r} vs {vb!r}")


@st.composite
def f_gate_any(draw, d, pool=None):
    """Gate of the fermionic Gaussian simulator on an arbitrary ordered subset."""
    pool = list(range(d)) if pool is None else list(pool)
    names = ["Interferometer", "GaussianHamiltonian", "Phaseshifter"]
    if len(pool) >= 2:
        names += ["Beamsplitter", "Squeezing2", "IsingXX", "Interferometer",
                  "GaussianHamiltonian"]
    name = draw(st.sampled_from(names))
    if name in ("Interferometer", "GaussianHamiltonian"):
        k = draw(st.integers(1, min(3, len(pool))))
    else:
        k = 1 if name == "Phaseshifter" else 2
    modes = draw(progs.ordered_modes(d, k, pool))
    return {"g": name, "modes": modes, "p": draw(f_params(name))}


def f_params(name):
    if name == "Interferometer":
        return st.fixed_dictionaries({"seed": st.integers(0, 2**32),
                                      "kind": st.sampled_from(["haar", "haar", "real", "perm"])})
    if name == "GaussianHamiltonian":
        return st.fixed_dictionaries({"seed": st.integers(0, 2**32),
                                      "scale": st.sampled_from([0.3, 1.0])})
    if name == "Phaseshifter":
        return st.fixed_dictionaries({"phi": progs.angle()})
    if name == "Beamsplitter":
        return st.fixed_dictionaries({"theta": progs.angle(), "phi": progs.angle()})
    if name == "Squeezing2":
        return st.fixed_dictionaries({"r": progs.angle(), "phi": progs.angle()})
    return st.fixed_dictionaries({"phi": progs.angle()})


@st.composite
def f_gate_block(draw, lo, hi):
    """Gate of the fermionic Fock simulator on ascending consecutive modes inside [lo, hi)."""
    size = hi - lo
    names = ["Interferometer", "Phaseshifter"]
    if size >= 2:
        names += ["Beamsplitter", "Squeezing2", "IsingXX", "ControlledPhase", "Interferometer"]
    name = draw(st.sampled_from(names))
    if name == "Interferometer":
        k = draw(st.integers(1, size))
    else:
        k = 1 if name == "Phaseshifter" else 2
    start = draw(st.integers(lo, hi - k))
    return {"g": name, "modes": list(range(start, start + k)), "p": draw(f_params(name))}


@st.composite
def fermionic_case(draw):
    kind = draw(st.sampled_from(["FG", "FG", "FPF"]))
    mode = draw(st.sampled_from(["relabel", "relabel", "commute", "permuted"])) \
        if kind == "FG" else draw(st.sampled_from(["relabel", "relabel", "commute"]))
    d = draw(st.integers(2, 5))
    occ = draw(st.lists(st.integers(0, 1), min_size=d, max_size=d))
    if sum(occ) == 0:
        occ[draw(st.integers(0, d - 1))] = 1
    case = {"kind": kind, "mode": mode, "d": d, "occ": occ}
    if kind == "FG":
        gates = draw(st.lists(f_gate_any(d), min_size=1, max_size=6))
        if d >= 2 and not any(len(g["modes"]) >= 2 for g in gates):
            g = draw(f_gate_any(d))
            gates.append(g)
        if mode == "commute" and d >= 2:
            order = draw(progs.ordered_modes(d, d))
            cut = draw(st.integers(1, d - 1))
            pair = [draw(f_gate_any(d, pool=order[:cut])), draw(f_gate_any(d, pool=order[cut:]))]
            pos = draw(st.integers(0, len(gates)))
            gates = gates[:pos] + pair + gates[pos:]
        case["gates"] = gates
        case["perm"] = list(draw(st.permutations(list(range(d)))))
        if mode == "permuted":
            case["sigs"] = [list(draw(st.permutations(list(range(len(g["modes"]))))))
                            for g in gates]
    else:
        # consecutive blocks; pi translates whole blocks (order inside a block kept)
        cuts = sorted(draw(st.sets(st.integers(1, d - 1), max_size=2))) if d >= 2 else []
        bounds = [0] + cuts + [d]
        blocks = [(bounds[i], bounds[i + 1]) for i in range(len(bounds) - 1)]
        gates = []
        for _ in range(draw(st.integers(1, 6))):
            lo, hi = blocks[draw(st.integers(0, len(blocks) - 1))]
            gates.append(draw(f_gate_block(lo, hi)))
        if mode == "commute" and len(blocks) >= 2:
            b1, b2 = blocks[0], blocks[1]
            pair = [draw(f_gate_block(*b1)), draw(f_gate_block(*b2))]
            pos = draw(st.integers(0, len(gates)))
            gates = gates[:pos] + (pair if draw(st.booleans()) else pair[::-1]) + gates[pos:]
        order = list(draw(st.permutations(list(range(len(blocks))))))
        perm, pos = [0] * d, 0
        for bi in order:
            lo, hi = blocks[bi]
            for m in range(lo, hi):
                perm[m] = pos
                pos += 1
        case["gates"], case["perm"], case["blocks"] = gates, perm, blocks
        n = sum(occ)
        # (ControlledPhase is number-conserving but raises IndexError for cutoff <= d:
        # calculate_indices_for_controlled_phase ignores the two particles it places;
        # outside this property, excluded by construction)
        passive = all(g["g"] in F_PASSIVE for g in gates)
        case["cutoff"] = draw(st.sampled_from([n + 1, d + 1])) if passive else d + 1
    return case


def f_permuted_equivalent(g, sig):
    if list(sig) == list(range(len(sig))):
        return g
    modes = [g["modes"][s] for s in sig]
    if g["g"] in ("Interferometer", "GaussianHamiltonian"):
        return {"g": g["g"], "modes": modes, "p": {**g["p"], "sig": list(sig)}}
    if g["g"] == "Beamsplitter":
        return {"g": "Beamsplitter", "modes": modes,
                "p": {"theta": g["p"]["theta"], "phi": math.pi - g["p"]["phi"]}}
    return g


def prop_fermionic(case, ctx):
    kind, mode, d, gates, perm = case["kind"], case["mode"], case["d"], case["gates"], case["perm"]
    cl = [f"fermionic_{kind}_{mode}"]
    a = f_run(kind, case, gates, mode)
    try:
        nonpoint = float(max(f_prob_map(kind, a, d).values())) < 0.999
    except Exception:  # reported by f_compare as observable-raises
        nonpoint = True
    if mode == "relabel":
        moved = multimode_moved(gates, perm)
        if moved:
            cl.append("perm_moves_multimode")
        ctx.case(case, moved and nonpoint, cl)
        new = {**case, "occ": perm_list(case["occ"], perm)}
        b = f_run(kind, new, [relabel_gate(g, perm) for g in gates], mode)
        f_compare(kind, a, b, perm, "relabel", case)
        return
    ident = list(range(d))
    if mode == "commute":
        pairs = disjoint_pairs(gates)
        if not pairs:
            ctx.count("no_disjoint_pair")
            return
        multi = any(len(gates[i]["modes"]) >= 2 or len(gates[i + 1]["modes"]) >= 2
                    for i in pairs)
        ctx.case(case, multi, cl + (["swap_with_multimode"] if multi else []))
        for i in pairs:
            b = f_run(kind, case, swapped(gates, i), mode)
            try:
                f_compare(kind, a, b, ident, "commute", case)
            except Violation as v:
                raise Violation(v.bucket, f"exchanging {gates[i]['g']} on {gates[i]['modes']} and "
                                          f"{gates[i + 1]['g']} on {gates[i + 1]['modes']}: "
                                          f"{v.message}")
            ctx.count("pairs_exchanged")
        return
    new_gates = [f_permuted_equivalent(g, s) for g, s in zip(gates, case["sigs"])]
    if all(e is g for e, g in zip(new_gates, gates)):
        ctx.count("nothing_permuted")
        return
    ctx.case(case, nonpoint, cl + ["permuted_multimode_tuple"])
    b = f_run(kind, case, new_gates, mode)
    f_compare(kind, a, b, ident, "permuted_gate", case)


# ------------------------------------------------------------------------------ parts

def parts(tier):
    return [
        Part("passive_postselect_measure", prop_pps, kind="enum", cases=pps_cases,
             budget_s={"quick": 60, "thorough": 120}),
        Part("relabel", prop_relabel, strategy=relabel_case(),
             examples={"quick": 640, "thorough": 10000},
             budget_s={"quick": 35, "thorough": 1500}),
        Part("relabel_meas", prop_relabel_meas, strategy=relabel_meas_case(),
             examples={"quick": 480, "thorough": 8000},
             budget_s={"quick": 25, "thorough": 1200}),
        Part("full_tuple", prop_full_tuple, strategy=full_tuple_case(),
             examples={"quick": 240, "thorough": 4000},
             budget_s={"quick": 15, "thorough": 600}),
        Part("commute", prop_commute, strategy=commute_case(),
             examples={"quick": 320, "thorough": 6000},
             budget_s={"quick": 20, "thorough": 1200}),
        Part("commute_meas", prop_commute_meas, strategy=commute_meas_case(),
             examples={"quick": 240, "thorough": 4000},
             budget_s={"quick": 15, "thorough": 900}),
        Part("commute_active", prop_commute_active, strategy=commute_active_case(),
             examples={"quick": 64, "thorough": 1500},
             budget_s={"quick": 20, "thorough": 1200}),
        Part("permuted_gate", prop_permuted_gate, strategy=permuted_gate_case(),
             examples={"quick": 320, "thorough": 6000},
             budget_s={"quick": 15, "thorough": 900}),
        Part("fermionic", prop_fermionic, strategy=fermionic_case(),
             examples={"quick": 480, "thorough": 8000},
             budget_s={"quick": 20, "thorough": 1200}),
    ]
