"""C04 -- matrix-function kernels equal their combinatorial definitions.

Driver (i): Hypothesis-generated differential test of the native permanent / Laplace
permanent / torontonian / loop torontonian / Pfaffian, the numba (loop) hafnians with
reductions and their batched variants, the JAX FFI permanent and the connector wrappers,
against the defining sums of `lib/oracles.py` (exact integer arithmetic on the dyadic
rationals that the floating-point inputs are).

Driver (ii): `native/kernels_fuzz.cpp` (libFuzzer + ASan + UBSan) linked against the C++
sources of the working tree; see `lib/c04_native.py`.

Tolerance (DESIGN.md C04): |got - ref| <= 64 u S, u the unit round-off of the overload
and S the magnitude sum of the algorithm's own formula:
  permanent / Laplace   S = 2^-(n-1) sum_delta prod C(r_i,k_i) prod_j |colsum_j|^{c_j}
  (loop) hafnian        S = [z^m] exp(sum_k (tau_k/2k + |d|^2 smax^(k-1)/2) z^k), tau_k the
                        k-th power sum of the singular values of the expanded matrix
                        (Weyl majorant of every addend of the power-trace formula)
  (loop) torontonian    S = sum_Z |term_Z| cond(1 - A_Z) (1 + y_Z/2)  (first-order
                        sensitivity of a Cholesky-based term)
  Pfaffian              u S = haf(|A| + n u max|A| J) - haf|A|  (normwise backward error
                        of the elimination on every off-diagonal entry, fill-in included)
"""

from __future__ import annotations

import math
import os

import numpy as np
from hypothesis import strategies as st

from lib import bootstrap, oracles as O, progs
from lib.harness import Part, Violation, guarded

pq = bootstrap.load()

from piquasso._math import permanent as _perm_mod  # noqa: E402
from piquasso._math import torontonian as _tor_mod  # noqa: E402
from piquasso._math import pfaffian as _pf_mod  # noqa: E402
from piquasso._math.hafnian import (  # noqa: E402
    hafnian_with_reduction,
    hafnian_with_reduction_batch,
    loop_hafnian_with_reduction,
    loop_hafnian_with_reduction_batch,
)
from piquasso._simulators.connectors import NumpyConnector  # noqa: E402

from lib import c04_native  # noqa: E402

PID = "C04"
LEVEL = "exploration"
SHARDS = {"quick": 8, "thorough": 16}
RULE = (
    "Hypothesis-drawn (kernel, shape, multiplicity pattern, matrix family, seed, scale, "
    "dtype overload, memory layout, entry point) -> matrix rebuilt deterministically from "
    "the seed -> library value compared with the exact defining sum (integer arithmetic "
    "on the dyadic inputs) under |got-ref| <= 64 u S. Multiplicity patterns: all-zero, "
    "with zeros, total <= 8 on <= 8 rows, total <= 40 on <= 3 rows incl. the 17/18/19 "
    "boundary on two rows; families: gaussian, integer, rank-deficient, zero rows/columns, "
    "unitary / physical Gaussian-state matrices. Non-trivial = dimension >= 2, some "
    "multiplicity > 1 (permanent/hafnian) or >= 2 modes (torontonian) / n >= 4 (Pfaffian), "
    "and |ref| > 1e-6 S (not pure cancellation); distinct by hash of the case description. "
    "Native part: libFuzzer inputs decoded to (kernel, dims <= 6, multiplicities, entries, "
    "precision) compared inside the ASan+UBSan target with long-double defining sums. "
    "Domain limit: row multiplicities whose binomial product bound exceeds 2**63 (int64 of the "
    "algorithm, ~64 photons on two rows) are excluded and counted; generated totals are <= 40 "
    "(<= 60 in the enumerated F3 regression part)."
)
ASSUMPTIONS = [
    "oracles: Python integer arithmetic on exactly converted inputs (lib/oracles.py), "
    "cross-checked against literal enumerations of permutations / matchings by the "
    "oracle_selfcheck part; mpmath sqrt/exp at 50 digits for the torontonian",
    "tolerance constant 64 with the magnitude sums S stated in the module docstring",
    "torontonian domain: real symmetric A with 1 - A positive definite (cond <= ~1e3); "
    "hafnian domain: symmetric matrices; Pfaffian domain: real skew-symmetric matrices; "
    "batched hafnians: last occupation number 0 (the only use in the library)",
    "native target: clang-14 libFuzzer/ASan/UBSan runtime; long double reference sums",
    "permanent_laplace: entries with column multiplicity 0 are unspecified and not compared",
]
FLOORS = {"mult_gt1": 0.10, "overload_32bit": 0.08, "small_norm_matrix": 0.02,
          "batch_last_nonzero_odd_total": 0.001}
# Debug / sensitivity aid: C04_PARTS=perm,native restricts the run to the named parts (the
# parts are independent: own Hypothesis seeds, own budgets), floors are then not applicable.
_ONLY_PARTS = [p for p in os.environ.get("C04_PARTS", "").split(",") if p]
if _ONLY_PARTS:
    FLOORS = {}

K_TOL = 64.0
# magnitude family: every kernel's matrix is multiplied by one of these (where the
# overload's exponent range allows); 64 u S scales with the matrix, so it stays meaningful
MAGS = [1e-8, 1e-6, 3e-5, 1e-4, 1e-2, 1.0, 1.0, 1.0, 1e2, 1e4]
# exponents e of the homogeneity relation f(2^e A) = 2^(e deg) f(A) (even, so that the loop
# hafnian's diagonal scales by the exact factor 2^(e/2))
HEXPS = [-26, -18, -8, 8]
SMALL_NORM = 1e-4
U64 = 2.0 ** -53
U32 = 2.0 ** -24
INT31 = 2 ** 31
INT63 = 2 ** 63
NC = NumpyConnector()

# F3 (fixed by 160e414): the running binomial product was an `int`.  Failures whose row
# multiplicities lie in the former trigger region (product bound >= 2**31) keep these buckets,
# so a regression of that fix is recognised by name.
B_PERM_OVF = "C04:permanent:binomial-int-overflow"
B_LAP_OVF = "C04:permanent_laplace:binomial-int-overflow"
# remaining documented limit of the native permanent: the product is an int64_t
B_PERM_I64 = "C04:permanent:binomial-int64-limit"
B_LAP_I64 = "C04:permanent_laplace:binomial-int64-limit"


# =====================================================================================
# deterministic matrix construction
# =====================================================================================

def build_complex(fam: str, nr: int, nc: int, seed: int, scale: float) -> np.ndarray:
    rng = progs.rng_of(seed)
    if nr == 0 or nc == 0:
        return np.zeros((nr, nc), dtype=np.complex128)
    if fam == "gauss":
        A = rng.normal(size=(nr, nc)) + 1j * rng.normal(size=(nr, nc))
    elif fam == "real":
        A = rng.normal(size=(nr, nc)) + 0j
    elif fam == "int":
        A = rng.integers(-3, 4, size=(nr, nc)) + 1j * rng.integers(-3, 4, size=(nr, nc))
    elif fam == "ones":
        A = np.ones((nr, nc), dtype=np.complex128)
    elif fam == "rankdef":
        r = 1 if min(nr, nc) < 3 else int(rng.integers(1, 3))
        U = rng.normal(size=(nr, r)) + 1j * rng.normal(size=(nr, r))
        V = rng.normal(size=(r, nc)) + 1j * rng.normal(size=(r, nc))
        A = U @ V
    elif fam == "zeros":
        A = rng.normal(size=(nr, nc)) + 1j * rng.normal(size=(nr, nc))
        A[int(rng.integers(0, nr)), :] = 0
        A[:, int(rng.integers(0, nc))] = 0
        mask = rng.random(size=(nr, nc)) < 0.3
        A[mask] = 0
    elif fam == "unitary":
        n = max(nr, nc)
        A = progs.haar_unitary(n, seed, "haar")[:nr, :nc]
    else:
        raise ValueError(fam)
    return np.asarray(A, dtype=np.complex128) * scale


def build_symmetric(fam: str, d: int, seed: int, scale: float) -> np.ndarray:
    A = build_complex("gauss" if fam == "unitary" else fam, d, d, seed, scale)
    if fam == "rankdef" and d:
        rng = progs.rng_of(seed + 1)
        v = rng.normal(size=(d, 1)) + 1j * rng.normal(size=(d, 1))
        return (v @ v.T) * scale
    if fam == "unitary" and d:
        # Gaussian-state like: B = U diag(tanh r) U^T
        U = progs.haar_unitary(d, seed, "haar")
        r = progs.rng_of(seed + 2).uniform(0.1, 1.2, size=d)
        return (U * np.tanh(r)) @ U.T * scale
    return (A + A.T) / 2 if fam != "int" else (A + A.T)


def build_skew(fam: str, n: int, seed: int, scale: float) -> np.ndarray:
    rng = progs.rng_of(seed)
    if n == 0:
        return np.zeros((0, 0))
    if fam == "int":
        B = rng.integers(-4, 5, size=(n, n)).astype(float)
    elif fam == "rankdef":
        u, v = rng.normal(size=(n, 1)), rng.normal(size=(n, 1))
        B = u @ v.T
        if n >= 4:
            u2, v2 = rng.normal(size=(n, 1)), rng.normal(size=(n, 1))
            B = B + u2 @ v2.T
    else:
        B = rng.normal(size=(n, n))
    A = (B - B.T) * scale
    if fam == "zeros":
        A[rng.random(size=(n, n)) < 0.35] = 0
        A = np.triu(A, 1)
        A = A - A.T
    if fam == "pivot" and n >= 4:
        # tiny / zero (0,1) entry: the first elimination step must pivot
        A[0, 1] = A[1, 0] = 0.0
        if n >= 6:
            A[2, 3] = A[3, 2] = 0.0
    return A


def build_tor(fam: str, d: int, seed: int, strength: float):
    """Real symmetric A (xpxp ordering, dimension 2d) with 1 - A positive definite, and a
    displacement vector."""
    rng = progs.rng_of(seed)
    n = 2 * d
    if d == 0:
        return np.zeros((0, 0)), np.zeros(0)
    if fam == "spd_gauss":
        L = rng.normal(size=(n, n)) * strength
        M = np.eye(n) * rng.uniform(0.3, 1.5) + L @ L.T / n
    elif fam == "spd_int":
        L = np.tril(rng.integers(-2, 3, size=(n, n))).astype(float)
        M = (np.eye(n) * 4 + L @ L.T) / 8.0
    elif fam == "lowrank":
        v = rng.normal(size=(n, 1)) * strength
        M = np.eye(n) + v @ v.T
    elif fam == "zero_rows":
        L = rng.normal(size=(n, n)) * strength
        M = np.eye(n) * rng.uniform(0.3, 1.5) + L @ L.T / n
        k = int(rng.integers(0, d))
        for b in (2 * k, 2 * k + 1):
            M[b, :] = 0
            M[:, b] = 0
            M[b, b] = 1.0
    elif fam == "physical":
        # covariance of a random Gaussian state (hbar-free units: vacuum = identity)
        S = _random_symplectic_xpxp(d, rng, strength)
        nu = 1.0 + rng.uniform(0.0, 1.0, size=d) * (rng.random(size=d) < 0.5)
        cov = S @ np.diag(np.repeat(nu, 2)) @ S.T
        Sigma = (cov + np.eye(n)) / 2
        M = np.linalg.inv(Sigma)
        M = (M + M.T) / 2
    else:
        raise ValueError(fam)
    A = np.eye(n) - M
    A = (A + A.T) / 2
    gamma = rng.normal(size=n) * 0.6
    if fam == "zero_rows":
        gamma[rng.random(size=n) < 0.4] = 0.0
    return A, gamma


def _random_symplectic_xpxp(d, rng, strength):
    """O1 . squeeze . O2 with O from unitaries, in xpxp ordering."""
    def orth(U):
        X, Y = U.real, U.imag
        O_ = np.zeros((2 * d, 2 * d))
        O_[0::2, 0::2] = X
        O_[0::2, 1::2] = -Y
        O_[1::2, 0::2] = Y
        O_[1::2, 1::2] = X
        return O_

    def haar(seed):
        Z = rng.normal(size=(d, d)) + 1j * rng.normal(size=(d, d))
        Q, R = np.linalg.qr(Z)
        return Q * (np.diag(R) / np.abs(np.diag(R)))

    r = rng.uniform(0.0, strength, size=d)
    sq = np.zeros(2 * d)
    sq[0::2] = np.exp(-r)
    sq[1::2] = np.exp(r)
    return orth(haar(0)) @ np.diag(sq) @ orth(haar(1))


# =====================================================================================
# layouts / dtypes
# =====================================================================================

LAYOUTS = ["C", "F", "strided", "offset", "neg", "ro"]
SENTINEL = 1.0e30


def apply_layout(A: np.ndarray, layout: str) -> np.ndarray:
    """A view / copy of A with the requested memory layout and identical values; the
    surrounding memory of strided views holds a huge sentinel so that a wrapper that
    ignores strides cannot produce a plausible value."""
    A = np.array(A, copy=True, order="C")
    sentinel = SENTINEL if A.dtype.kind in "fc" else 10 ** 9
    if layout == "C" or A.size == 0:
        return A
    if layout == "F":
        return np.asfortranarray(A)
    if layout == "ro":
        A.setflags(write=False)
        return A
    if A.ndim == 1:
        n = A.shape[0]
        if layout in ("strided", "offset"):
            big = np.full(2 * n + 1, sentinel, dtype=A.dtype)
            big[1::2][:n] = A
            return big[1::2][:n]
        if layout == "neg":
            # reversed view whose first element is followed, in memory, by sentinels of the
            # same buffer: a wrapper that ignores strides reads (or writes) sentinels, never
            # foreign heap memory -> deterministic and memory-safe
            big = np.full(2 * n + 1, sentinel, dtype=A.dtype)
            big[:n] = A[::-1]
            return big[:n][::-1]
    n, m = A.shape
    if layout == "strided":
        big = np.full((2 * n + 1, 2 * m + 1), sentinel, dtype=A.dtype)
        v = big[1::2, 1::2]
        v[...] = A
        return v
    if layout == "offset":
        big = np.full((n + 2, m + 3), sentinel, dtype=A.dtype)
        v = big[1:n + 1, 2:m + 2]
        v[...] = A
        return v
    if layout == "neg":
        big = np.full(2 * n * m + 1, sentinel, dtype=A.dtype)
        base = big[:n * m].reshape(n, m)
        base[...] = A[::-1, ::-1]
        return base[::-1, ::-1]
    raise ValueError(layout)


def mult_array(v, kind: str):
    v = [int(x) for x in v]
    if kind == "list":
        return v
    if kind == "int32":
        return np.array(v, dtype=np.int32)
    if kind == "uint64":
        return np.array(v, dtype=np.uint64)
    if kind == "strided":
        big = np.full(2 * len(v) + 1, 7, dtype=np.int64)
        big[1::2][:len(v)] = v
        return big[1::2][:len(v)]
    return np.array(v, dtype=np.int64)


def cast(A: np.ndarray, dtype: str) -> np.ndarray:
    """Cast to the overload's dtype; the *cast* values are the exact input of the case."""
    if dtype == "c128":
        return np.asarray(A, dtype=np.complex128)
    if dtype == "c64":
        return np.asarray(A, dtype=np.complex64)
    if dtype == "f64":
        return np.asarray(A.real if np.iscomplexobj(A) else A, dtype=np.float64)
    if dtype == "f32":
        return np.asarray(A.real if np.iscomplexobj(A) else A, dtype=np.float32)
    if dtype == "i64":
        return np.asarray(np.rint(A.real), dtype=np.int64)
    raise ValueError(dtype)


def unit_roundoff(dtype: str) -> float:
    return U32 if dtype in ("c64", "f32") else U64


# =====================================================================================
# comparison
# =====================================================================================

def ratio_class(kernel: str, ratio: float) -> str:
    for b in (1, 8, 64):
        if ratio <= b:
            return f"err_ratio:{kernel}:<={b}"
    return f"err_ratio:{kernel}:>64"


def check_value(ctx, bucket, kernel, got, ref, S, u, what):
    """|got - ref| <= 64 u S (+ one ulp of the reference for the final rounding)."""
    got = complex(got)
    ref = complex(ref)
    if not (math.isfinite(got.real) and math.isfinite(got.imag)):
        raise Violation(bucket.replace(":value", ":nonfinite"),
                        f"{what}: library returned {got}, reference {ref}")
    err = abs(got - ref)
    tol = K_TOL * u * S + 2 * u * abs(ref)
    ratio = err / (u * S) if S > 0 else (0.0 if err == 0 else math.inf)
    ctx.count(ratio_class(kernel, ratio))
    if ratio > 8 and os.environ.get("C04_DEBUG"):
        print(f"RATIO {ratio:.3g} {what}", flush=True)
    if err > tol:
        raise Violation(bucket, f"{what}: got {got!r}, reference {ref!r}, |diff|={err:.3e} "
                        f"> 64*u*S={tol:.3e} (S={S:.3e}, ratio {ratio:.3g})")
    return ratio


def layout_or_value(bprefix, layout, v, contiguous_ok):
    """A failure on a non-contiguous / read-only view: if the same values in a fresh
    C-contiguous array pass, the wrapper mishandles the layout (one stable bucket, whatever
    garbage was read); otherwise it is a value error."""
    if layout != "C":
        try:
            ok = contiguous_ok()
        except Exception:  # noqa: BLE001
            ok = False
        if ok:
            return Violation(f"{bprefix}:layout:{layout}", v.message)
    return v


def in_range(values, lo=1e-250, hi=1e250) -> bool:
    return all(math.isfinite(v) and lo < v < hi for v in values)


def fro(A) -> float:
    A = np.asarray(A)
    return float(np.sqrt(np.sum(np.abs(A.astype(np.complex128)) ** 2))) if A.size else 0.0


def fit_exponent(e: int, degree: int, limit: int) -> int:
    """Largest |e'| <= |e| (same sign, even) with |e'| * degree <= limit; 0 = skip."""
    if degree <= 0:
        return 0
    m = min(abs(e), (limit // degree) // 2 * 2)
    return int(math.copysign(m, e)) if m >= 2 else 0


def check_homogeneity(ctx, bprefix, kernel, got_scaled, got_base, factor, tol_base, what):
    """f(cA) = c^deg f(A), c a power of two (exact scaling of the inputs): both library
    values carry at most the tolerance of their own evaluation."""
    a, b = complex(got_scaled), complex(got_base) * factor
    if not (math.isfinite(a.real) and math.isfinite(a.imag)):
        raise Violation(f"{bprefix}:homogeneity", f"{what}: scaled call returned {a}")
    if abs(a - b) > 2 * tol_base * factor:
        raise Violation(f"{bprefix}:homogeneity",
                        f"{what}: f(cA)={a!r} but c^deg f(A)={b!r}, |diff|={abs(a - b):.3e} > "
                        f"2*tol={2 * tol_base * factor:.3e}")
    ctx.count(f"homogeneity_checked:{kernel}")


def call_guarded(bucket_prefix, fn, *args):
    """Call library code that must not raise on in-domain input."""
    try:
        return fn(*args)
    except Violation:
        raise
    except Exception as e:  # noqa: BLE001
        raise Violation(f"{bucket_prefix}:raises:{type(e).__name__}",
                        f"{type(e).__name__}: {str(e)[:300]}")


# =====================================================================================
# permanent / permanent_laplace
# =====================================================================================

def perm_is_safe(rows) -> bool:
    """Inside the domain of the native permanent: the running binomial product (int64_t
    since 160e414) cannot overflow -- roughly 64 photons on two rows."""
    return O.binomial_overflow_bound(rows) < INT63


def in_int32_region(rows) -> bool:
    """Former trigger region of F3 (the product would overflow a 32-bit int)."""
    return O.binomial_overflow_bound(rows) >= INT31


def _perm_call(kernel, via):
    if via == "connector":
        return NC.permanent if kernel == "permanent" else NC.permanent_laplace
    return _perm_mod.permanent if kernel == "permanent" else _perm_mod.permanent_laplace


def prop_perm(case, ctx, region="main"):
    kernel = case["k"]
    if _disabled(ctx, kernel):
        return
    rows, cols = list(case["rows"]), list(case["cols"])
    nr, nc = len(rows), len(cols)
    if not perm_is_safe(rows):
        # beyond the int64 limit of the algorithm: outside the domain, counted
        ctx.exclude(B_PERM_I64 if kernel == "permanent" else B_LAP_I64)
        return
    safe = not in_int32_region(rows)  # selects the bucket name only
    mag = float(case.get("mag", 1.0))
    A0 = build_complex(case["fam"], nr, nc, case["seed"], case["scale"])
    def smallest_sum(M):
        """Smallest magnitude sum among the values the kernel returns."""
        if kernel == "permanent":
            return O.glynn_abs_sum(M, rows, cols)
        sums = [O.glynn_abs_sum(M, rows, cols[:l] + [cols[l] - 1] + cols[l + 1:])
                for l in range(nc) if cols[l] > 0]
        return min(sums) if sums else 1.0

    if mag != 1.0 and rows and cols:
        if case["dtype"] == "i64" or not in_range([smallest_sum(A0 * mag)]) or \
                abs(O.glynn_max_addend(A0 * mag, rows, cols)) > 250:
            ctx.count("mag_out_of_range_reset")
            mag = 1.0
    A0 = A0 * mag
    dtype = case["dtype"]
    if dtype in ("c64", "f32") and rows and cols and (
            O.glynn_max_addend(A0, rows, cols) > 30 or smallest_sum(A0) < 1e-25):
        # float32 range: the addends would overflow / underflow; use the double overload
        ctx.count("c64_range_switched_to_c128")
        dtype = "c128" if dtype == "c64" else "f64"
    A = cast(A0, dtype)
    u = unit_roundoff(dtype)
    layout = case["layout"]
    Ain = apply_layout(A, layout)
    r_in = mult_array(rows, case["mk"])
    c_in = mult_array(cols, case["mk"])
    n = sum(rows)
    fn = _perm_call(kernel, case["via"])
    classes = [kernel, "dtype_" + dtype, "layout_" + layout, "fam_" + case["fam"],
               "via_" + case["via"]]
    if layout not in ("C", "ro"):
        classes.append("layout_noncontig")
    if dtype in ("c64", "f32"):
        classes.append("overload_32bit")
    if max(rows + cols + [0]) > 1:
        classes.append("mult_gt1")
    if n == 0:
        classes.append("mult_all_zero")
    elif 0 in rows or 0 in cols:
        classes.append("mult_with_zeros")
    if max(rows + [0]) >= 14:
        classes.append("mult_ge14")
    if n >= 20:
        classes.append("total_ge20")
    if not safe:
        classes.append("perm_int32_overflow_region")
    classes.append(f"mag_{mag:g}")
    hexp = fit_exponent(int(case.get("hexp", 0)), n if kernel == "permanent" else n,
                        60 if dtype in ("c64", "f32") else 600) if dtype != "i64" else 0
    if A.size and (fro(A) < SMALL_NORM or (hexp and fro(A) * 2.0 ** hexp < SMALL_NORM)):
        classes.append("small_norm_matrix")
    bprefix = f"C04:{kernel}"

    if kernel == "permanent":
        ref = O.permanent_ref(A, rows, cols)
        S = O.glynn_abs_sum(A, rows, cols)
        refs, Ss, idxs = [ref], [S], [None]
    else:
        refs, Ss, idxs = [], [], []
        for l in range(nc):
            if cols[l] == 0:
                continue
            c2 = list(cols)
            c2[l] -= 1
            refs.append(O.permanent_ref(A, rows, c2))
            Ss.append(O.glynn_abs_sum(A, rows, c2))
            idxs.append(l)
    nontrivial = (nr >= 2 and nc >= 2 and max(rows + cols + [0]) > 1
                  and any(abs(r) > 1e-6 * s for r, s in zip(refs, Ss)))
    ctx.case(case, nontrivial, classes)

    snapshot = Ain.copy()
    got = call_guarded(bprefix, fn, Ain, r_in, c_in)
    if not np.array_equal(snapshot, Ain, equal_nan=True):
        raise Violation(f"{bprefix}:input-modified", "the matrix argument was modified")
    got = np.asarray(got)
    want_dt = np.complex64 if dtype in ("c64", "f32") else np.complex128
    if got.dtype != want_dt:
        raise Violation(f"{bprefix}:result-dtype", f"{got.dtype} for input dtype {dtype}")
    if kernel == "permanent":
        if got.shape != ():
            raise Violation(f"{bprefix}:result-shape", f"shape {got.shape}")
        gots = [complex(got)]
    else:
        if n == 0 or nr == 0 or nc == 0:
            return  # documented degenerate return ([1]); nothing to compare
        if got.shape != (nc,):
            raise Violation(f"{bprefix}:result-shape", f"shape {got.shape}, expected ({nc},)")
        gots = [complex(got[l]) for l in idxs]
    tag = "binomial-int-overflow" if not safe else "value"
    for g, r, s, l in zip(gots, refs, Ss, idxs):
        what = f"{kernel}[{l}]" if l is not None else kernel
        what += f" rows={rows} cols={cols} dtype={dtype} layout={layout}"
        try:
            check_value(ctx, f"{bprefix}:{tag}" if not safe else f"{bprefix}:value:{dtype}",
                        kernel, g, r, s, u, what)
        except Violation as v:
            if layout != "C":
                # is it the layout or the value?
                g2 = np.asarray(fn(np.ascontiguousarray(A), np.array(rows), np.array(cols)))
                g2 = complex(g2) if l is None else complex(g2[l])
                if abs(g2 - r) <= K_TOL * u * s + 2 * u * abs(r):
                    raise Violation(f"{bprefix}:layout:{layout}", v.message)
            raise
    # homogeneity: per(cA; r, c) = c^n per(A; r, c)  (Laplace entries: degree n as well,
    # sum(cols) - 1 = n)
    if hexp and n > 0 and nr and nc:
        c = 2.0 ** hexp
        deg = n
        if in_range([s_ * c ** deg for s_ in Ss if s_ > 0], *((1e-25, 1e30) if u == U32 else ())) \
                and abs(O.glynn_max_addend(A, rows, cols)) + abs(hexp) * 0.30103 * (deg + 1) < \
                (30 if u == U32 else 250):
            got2 = np.asarray(call_guarded(bprefix, fn, cast(A * c, dtype), r_in, c_in))
            g2s = [complex(got2)] if kernel == "permanent" else [complex(got2[l]) for l in idxs]
            for ga, gb, r, s_, l in zip(g2s, gots, refs, Ss, idxs):
                check_homogeneity(ctx, bprefix, kernel, ga, gb, c ** deg,
                                  K_TOL * u * s_ + 2 * u * abs(r),
                                  f"{kernel}[{l}] rows={rows} cols={cols} dtype={dtype} c=2^{hexp}")


def prop_perm_overflow(case, ctx):
    prop_perm(case, ctx, region="overflow")


MATRIX_FAMS = ["gauss", "gauss", "int", "rankdef", "zeros", "unitary", "real", "ones"]


@st.composite
def mult_pattern(draw, safe_only=True):
    """(rows, cols) with equal totals."""
    style = draw(st.sampled_from(["many", "many", "ones", "few", "few", "few", "pair",
                                  "zero", "single"]))
    if style == "zero":
        nr, nc = draw(st.integers(0, 4)), draw(st.integers(0, 4))
        return [0] * nr, [0] * nc
    if style == "ones":
        n = draw(st.integers(1, 8))
        return [1] * n, [1] * n
    if style == "single":
        nc = draw(st.integers(1, 4))
        tot = draw(st.integers(1, 30))
        cols = _spread(draw, nc, tot)
        return [tot], cols
    if style == "many":
        nr, nc = draw(st.integers(1, 8)), draw(st.integers(1, 8))
        tot = draw(st.integers(1, 8))
        return _spread(draw, nr, tot), _spread(draw, nc, tot)
    if style == "pair":
        # two rows around the 17/18/19 boundary, unequal row / column patterns
        a = draw(st.integers(12, 20))
        b = draw(st.integers(12, 20))
        rows = [a, b]
        nc = draw(st.integers(2, 3))
        cols = _spread(draw, nc, a + b, even=True)
        if draw(st.booleans()):
            rows, cols = cols, rows
    else:
        nr, nc = draw(st.integers(1, 3)), draw(st.integers(1, 3))
        tot = draw(st.integers(2, 40))
        rows = _spread(draw, nr, tot, even=draw(st.booleans()))
        cols = _spread(draw, nc, tot, even=draw(st.booleans()))
    if safe_only:
        # stay inside the int64 limit of the algorithm by construction (totals <= 40 always
        # are; the loop is a guard for future generator changes)
        while not perm_is_safe(rows):
            i = rows.index(max(rows))
            rows[i] -= 1
            j = cols.index(max(cols))
            cols[j] -= 1
    return rows, cols


def _spread(draw, k, tot, even=False):
    v = [0] * k
    if even:
        for i in range(k):
            v[i] = tot // k
        rest = tot - sum(v)
    else:
        rest = tot
    if k == 1:
        v[0] += rest
        return v
    cuts = draw(st.lists(st.integers(0, k - 1), min_size=rest, max_size=rest)) if rest <= 10 \
        else None
    if cuts is not None:
        for c in cuts:
            v[c] += 1
    else:
        # draw proportions
        w = draw(st.lists(st.integers(0, 6), min_size=k, max_size=k))
        if sum(w) == 0:
            w[0] = 1
        acc = 0
        for i in range(k):
            share = rest * w[i] // sum(w)
            v[i] += share
            acc += share
        v[draw(st.integers(0, k - 1))] += rest - acc
    return v


@st.composite
def perm_cases(draw):
    kernel = draw(st.sampled_from(["permanent", "permanent", "permanent_laplace"]))
    rows, cols = draw(mult_pattern())
    if kernel == "permanent_laplace":
        # sum(cols) = sum(rows) + 1
        if len(cols) == 0:
            cols = [0]
        j = draw(st.integers(0, len(cols) - 1))
        cols = list(cols)
        cols[j] += 1
    dtype = draw(st.sampled_from(["c128", "c128", "c64", "c64", "f64", "f32", "i64"]))
    fam = draw(st.sampled_from(MATRIX_FAMS))
    if dtype == "i64":
        fam = "int"
    return {
        "k": kernel, "rows": rows, "cols": cols, "fam": fam,
        "seed": draw(st.integers(0, 2 ** 32)),
        "scale": draw(st.sampled_from([0.25, 1.0, 1.0, 3.0])),
        "mag": draw(st.sampled_from(MAGS)),
        "hexp": draw(st.sampled_from(HEXPS)),
        "dtype": dtype,
        "layout": draw(st.sampled_from(["C", "C", "F", "strided", "offset", "neg", "ro"])),
        "mk": draw(st.sampled_from(["int64", "int64", "int32", "list", "strided", "uint64"])),
        "via": draw(st.sampled_from(["direct", "direct", "connector"])),
    }


def overflow_cases(tier):
    """Enumerated regression of F3 (32-bit binomial product, fixed by 160e414): the former
    trigger region and its boundary, compared with the exact big-int oracle under the
    Glynn-sum tolerance.  Every case lies inside the int64 limit."""
    out = []

    def add(kernel, rows, cols, fam="ones", dtype="c128", seed=1, scale=1.0):
        cols = list(cols)
        if kernel == "permanent_laplace":
            cols[0] += 1
        out.append({"k": kernel, "rows": list(rows), "cols": cols, "fam": fam, "seed": seed,
                    "scale": scale, "dtype": dtype, "layout": "C", "mk": "int64",
                    "via": "direct"})

    for kernel in ("permanent", "permanent_laplace"):
        for m in (16, 17, 18, 19, 20, 25, 30):
            add(kernel, [m, m], [m, m])
            add(kernel, [m, m], [m, m], fam="gauss", seed=m, scale=0.5 if m >= 25 else 1.0)
        add(kernel, [18, 18], [18, 18], dtype="c64", fam="unitary")
        add(kernel, [17, 19], [20, 16], fam="gauss", seed=5)
        add(kernel, [18, 19], [12, 12, 13], fam="gauss", seed=6)
        add(kernel, [30, 1], [16, 15], fam="gauss", seed=7)
        add(kernel, [30, 1], [31], fam="ones")
        add(kernel, [35, 1], [18, 18], fam="gauss", seed=8)
        add(kernel, [36, 2], [19, 19], fam="gauss", seed=9)
        add(kernel, [36, 2], [19, 19], fam="ones")
        add(kernel, [12, 12, 12], [12, 12, 12], fam="gauss", seed=10)
        add(kernel, [13, 13, 14], [20, 20], fam="gauss", seed=11)
        add(kernel, [10, 10, 10, 10], [20, 20], fam="gauss", seed=12)
        add(kernel, [30, 30], [20, 20, 20], fam="unitary", seed=13)
        add(kernel, [25, 25], [50], fam="int", seed=14)
    assert all(perm_is_safe(c["rows"]) for c in out)
    return out


# =====================================================================================
# hafnian family
# =====================================================================================

def prop_haf(case, ctx):
    kernel = case["k"]  # haf | lhaf | haf_batch | lhaf_batch
    occ = [int(x) for x in case["occ"]]
    d = len(occ)
    dtype = case["dtype"]
    loop = kernel.startswith("lhaf")
    batch = kernel.endswith("batch")
    mag = float(case.get("mag", 1.0))
    cutoff = int(case.get("cutoff", 0))
    n = sum(occ)
    A_unit = build_symmetric(case["fam"], d, case["seed"], case["scale"])
    diag_unit = build_complex("gauss" if case["fam"] != "int" else "int", 1, d,
                              case["seed"] + 7, case["scale"])[0] if d else np.zeros(0, complex)

    def prepare(m):
        # a pair weighs m, a loop sqrt(m): every term of the (loop) hafnian scales alike
        A_ = cast(A_unit * m, dtype)
        dg_ = cast(diag_unit * math.sqrt(m), dtype)
        if batch:
            occs_ = [occ[:-1] + [occ[-1] + k] for k in range(cutoff)]
        else:
            occs_ = [occ]
        full = list(occ)
        if batch:
            full[-1] += cutoff + 1  # largest expanded matrix the batched algorithm works on
        refs_, Ss_ = [], []
        for o in occs_:
            if not batch:
                Ss_.append(O.powertrace_abs_sum(A_, dg_ if loop else None, o))
            elif sum(o) % 2 and not loop:
                Ss_.append(1.0)
            else:
                Ss_.append(2 * O.powertrace_abs_sum(A_, dg_ if loop else None, full,
                                                    order=(sum(o) + 1) // 2, pad_unit=True))
        return A_, dg_, occs_, refs_, Ss_

    A, diag, occs, refs, Ss = prepare(mag)
    if mag != 1.0 and not in_range(Ss):
        ctx.count("mag_out_of_range_reset")
        mag = 1.0
        A, diag, occs, refs, Ss = prepare(mag)
    for o in occs:
        refs.append(O.loop_hafnian_ref(A, diag, o) if loop else O.hafnian_ref(A, o))
    layout = case["layout"]
    Ain = apply_layout(A, layout)
    din = apply_layout(diag, layout if layout in ("strided", "neg") else "C")
    occ_in = np.array(occ, dtype=np.int64)
    classes = [kernel, "dtype_" + dtype, "layout_" + layout, "fam_" + case["fam"],
               "via_" + case["via"]]
    if layout not in ("C", "ro"):
        classes.append("layout_noncontig")
    if max(occ + [0]) > 1:
        classes.append("mult_gt1")
    if n == 0:
        classes.append("mult_all_zero")
    elif 0 in occ:
        classes.append("mult_with_zeros")
    if n % 2:
        classes.append("odd_total")
    if max(occ + [0]) >= 14:
        classes.append("mult_ge14")
    if n >= 20:
        classes.append("total_ge20")
    if sum(1 for x in occ if x) >= 11:
        classes.append("haf_reduced_dim_gt10")
    classes.append(f"mag_{mag:g}")
    if batch and occ[-1] != 0:
        classes.append("batch_last_nonzero")
        if n % 2:
            classes.append("batch_last_nonzero_odd_total")
    hexp = 0
    if not batch and n >= 2 and (loop or n % 2 == 0):
        hexp = fit_exponent(int(case.get("hexp", 0)), (n + 1) // 2, 600)
        if hexp and not in_range([s_ * 2.0 ** (hexp * n / 2) for s_ in Ss]):
            hexp = 0
    if A.size and (fro(A) < SMALL_NORM or (hexp and fro(A) * 2.0 ** hexp < SMALL_NORM)):
        classes.append("small_norm_matrix")
    nontrivial = (d >= 2 and max(o for oo in occs for o in oo) > 1
                  and any(abs(r) > 1e-6 * s for r, s in zip(refs, Ss)))
    ctx.case(case, nontrivial, classes)

    via = case["via"]
    name = {"haf": "hafnian_with_reduction", "lhaf": "loop_hafnian_with_reduction",
            "haf_batch": "hafnian_with_reduction_batch",
            "lhaf_batch": "loop_hafnian_with_reduction_batch"}[kernel]
    bprefix = f"C04:{name}"
    snapshot = Ain.copy()
    if kernel == "haf":
        fn = NC.hafnian if via == "connector" else hafnian_with_reduction
        got = call_guarded(bprefix, fn, Ain, occ_in)
    elif kernel == "lhaf":
        fn = NC.loop_hafnian if via == "connector" else loop_hafnian_with_reduction
        got = call_guarded(bprefix, fn, Ain, din, occ_in)
    elif kernel == "haf_batch":
        got = call_guarded(bprefix, hafnian_with_reduction_batch, Ain, occ_in, cutoff)
    else:
        fn = NC.loop_hafnian_batch if via == "connector" else loop_hafnian_with_reduction_batch
        got = call_guarded(bprefix, fn, Ain, din, occ_in, cutoff)
    if not np.array_equal(snapshot, Ain, equal_nan=True):
        raise Violation(f"{bprefix}:input-modified", "the matrix argument was modified")
    if list(occ_in) != occ:
        raise Violation(f"{bprefix}:input-modified", "the occupation numbers were modified")
    got = np.atleast_1d(np.asarray(got))
    if got.shape != (len(occs),):
        raise Violation(f"{bprefix}:result-shape", f"{got.shape}, expected ({len(occs)},)")
    for g, r, s, o in zip(got, refs, Ss, occs):
        check_value(ctx, f"{bprefix}:value:{dtype}", name, g, r, s, U64,
                    f"{name} occ={o} dtype={dtype} layout={layout} fam={case['fam']} mag={mag:g}")
    # homogeneity: haf(cA) = c^(n/2) haf(A), lhaf(cA, sqrt(c) d) = c^(n/2) lhaf(A, d)
    if hexp:
        c = 2.0 ** hexp
        A2 = cast(A * c, dtype)
        if kernel == "haf":
            got2 = call_guarded(bprefix, hafnian_with_reduction, A2, occ_in)
        else:
            got2 = call_guarded(bprefix, loop_hafnian_with_reduction, A2,
                                cast(diag * 2.0 ** (hexp // 2), dtype), occ_in)
        factor = 2.0 ** (hexp * n / 2)
        # the magnitude sum of the scaled evaluation is computed for the scaled input: for odd
        # totals the implementation pads with a unit vertex, which does not scale
        S2 = O.powertrace_abs_sum(A2, cast(diag * 2.0 ** (hexp // 2), dtype) if loop else None, occ)
        tol_sum = (K_TOL * U64 * Ss[0] + 2 * U64 * abs(refs[0])) * factor + K_TOL * U64 * S2
        check_homogeneity(ctx, bprefix, name, got2, got[0], factor, tol_sum / (2 * factor),
                          f"{name} occ={occ} dtype={dtype} fam={case['fam']} mag={mag:g} c=2^{hexp}")


def _warm_haf():
    """Compile (or load from numba's cache) every specialisation the part uses *before* the
    part's time budget starts: a cold numba cache must not eat the search budget."""
    occ = np.array([1, 1], dtype=np.int64)
    A = build_symmetric("gauss", 2, 1, 1.0)
    dg = np.array([0.5, 0.25], dtype=np.complex128)
    for lay in ("C", "F", "strided"):
        M = apply_layout(A, lay)
        dv = apply_layout(dg, lay if lay == "strided" else "C")
        hafnian_with_reduction(M, occ)
        loop_hafnian_with_reduction(M, dv, occ)
        hafnian_with_reduction_batch(M, occ, 3)
        loop_hafnian_with_reduction_batch(M, dv, occ, 3)
    R = np.ascontiguousarray(A.real)
    hafnian_with_reduction(R, occ)
    loop_hafnian_with_reduction(R, dg.real.copy(), occ)


@st.composite
def occupation_pattern(draw, batch=False):
    style = draw(st.sampled_from(["many", "many", "few", "few", "pair", "zero", "single",
                                  "wide"]))
    if style == "zero":
        occ = [0] * draw(st.integers(1, 5))
    elif style == "wide":
        # >= 6 distinct edges: the reduced matrix is larger than 10 x 10, which switches on
        # the rescaling branch of the power-trace hafnians (needs more than 10 modes)
        d = draw(st.integers(12, 14))
        occ = [1] * d
        for _ in range(d - 12):
            occ[draw(st.integers(0, d - 1))] = 0
        if draw(st.booleans()):
            occ[draw(st.integers(0, d - 1))] += 1
            occ[draw(st.integers(0, d - 1))] += 1
    elif style == "single":
        occ = [draw(st.integers(0, 24))]
    elif style == "many":
        d = draw(st.integers(1, 8))
        # up to 14 photons: >= 6 distinct edges, i.e. reduced matrices larger than 10 x 10,
        # switch on the rescaling branch of the power-trace hafnians
        occ = _spread(draw, d, draw(st.sampled_from([1, 2, 3, 4, 5, 6, 7, 8, 9, 10, 12, 13, 14])))
    elif style == "pair":
        occ = [draw(st.integers(12, 20)), draw(st.integers(12, 20))]
        if draw(st.booleans()):
            occ.insert(draw(st.integers(0, 2)), draw(st.integers(0, 2)))
    else:
        d = draw(st.integers(1, 3))
        occ = _spread(draw, d, draw(st.integers(2, 40)), even=draw(st.booleans()))
    if batch:
        # the batched kernels return the values for occ[-1], occ[-1] + 1, ...: any start
        occ = occ + [draw(st.sampled_from([0, 0, 1, 2, 3]))]
    return occ


@st.composite
def haf_cases(draw):
    kernel = draw(st.sampled_from(["haf", "haf", "lhaf", "lhaf", "haf_batch", "lhaf_batch"]))
    batch = kernel.endswith("batch")
    occ = draw(occupation_pattern(batch=batch))
    case = {
        "k": kernel, "occ": occ,
        "fam": draw(st.sampled_from(["gauss", "gauss", "int", "rankdef", "zeros", "unitary",
                                     "real"])),
        "seed": draw(st.integers(0, 2 ** 32)),
        "scale": draw(st.sampled_from([0.25, 1.0, 1.0, 2.0])),
        "mag": draw(st.sampled_from(MAGS)),
        "hexp": draw(st.sampled_from(HEXPS)),
        "dtype": "c128",
        "layout": draw(st.sampled_from(["C", "C", "C", "F", "strided"])),
        "via": draw(st.sampled_from(["direct", "direct", "connector"])),
    }
    if batch:
        case["cutoff"] = draw(st.integers(1, 12))
        if sum(occ) + case["cutoff"] > 44:
            case["cutoff"] = max(1, 44 - sum(occ))
    if kernel in ("haf", "lhaf") and case["layout"] == "C" and draw(st.integers(0, 3)) == 0:
        case["dtype"] = "f64"
        if case["fam"] in ("gauss", "unitary", "rankdef", "zeros"):
            case["fam"] = "real"
    if kernel == "haf_batch":
        case["via"] = "direct"  # no connector entry for the plain batched hafnian
    return case


# =====================================================================================
# torontonian family
# =====================================================================================

def prop_tor(case, ctx):
    kernel = case["k"]  # tor | ltor
    d = int(case["d"])
    dtype = case["dtype"]
    A0, g0 = build_tor(case["fam"], d, case["seed"], case["strength"])
    amag = float(case.get("amag", 1.0))   # 0 < amag <= 1 keeps 1 - amag A positive definite
    A0 = A0 * amag
    A = cast(A0, dtype)
    gamma = cast(g0, dtype)
    layout = case["layout"]
    u = unit_roundoff(dtype)
    name = "torontonian" if kernel == "tor" else "loop_torontonian"
    if _disabled(ctx, name):
        return
    bprefix = f"C04:{name}"
    try:
        ref, S = O.torontonian_ref(A, gamma if kernel == "ltor" else None)
    except ValueError:
        ctx.count("tor_out_of_domain_after_cast")
        return
    if not math.isfinite(S) or S > 1e12:
        ctx.count("tor_ill_conditioned_skipped")
        return
    classes = [name, "dtype_" + dtype, "layout_" + layout, "fam_" + case["fam"], f"tor_d{d}",
               f"mag_{amag:g}"]
    if d and fro(A) < SMALL_NORM:
        classes.append("small_norm_matrix")
    if layout not in ("C", "ro"):
        classes.append("layout_noncontig")
    if dtype == "f32":
        classes.append("overload_32bit")
    ctx.case(case, d >= 2 and abs(ref) > 1e-6 * S, classes)
    Ain = apply_layout(A, layout)
    snapshot = Ain.copy()
    if kernel == "tor":
        got = call_guarded(bprefix, _tor_mod.torontonian, Ain)
    else:
        gin = apply_layout(gamma, layout if layout in ("strided", "neg", "ro") else "C")
        got = call_guarded(bprefix, _tor_mod.loop_torontonian, Ain, gin)
    if not np.array_equal(snapshot, Ain):
        raise Violation(f"{bprefix}:input-modified", "the matrix argument was modified")
    got = np.asarray(got)
    want = np.float32 if dtype == "f32" else np.float64
    if got.dtype != want or got.shape != ():
        raise Violation(f"{bprefix}:result-dtype", f"{got.dtype}{got.shape} for {dtype}")
    try:
        check_value(ctx, f"{bprefix}:value:{dtype}", name, float(got), ref, S, u,
                    f"{name} d={d} fam={case['fam']} dtype={dtype} layout={layout}")
    except Violation as v:
        def contiguous_ok():
            Ac = np.array(A, copy=True, order="C")
            g2 = _tor_mod.torontonian(Ac) if kernel == "tor" else \
                _tor_mod.loop_torontonian(Ac, np.array(gamma, copy=True))
            return abs(float(np.asarray(g2)) - ref) <= K_TOL * u * S + 2 * u * abs(ref)
        raise layout_or_value(bprefix, layout, v, contiguous_ok)


@st.composite
def tor_cases(draw):
    d = draw(st.sampled_from([0, 1, 1, 2, 2, 2, 3, 3, 3, 4, 4, 5, 6]))
    return {
        "k": draw(st.sampled_from(["tor", "ltor"])),
        "d": d,
        "fam": draw(st.sampled_from(["spd_gauss", "spd_int", "lowrank", "zero_rows",
                                     "physical", "physical"])),
        "seed": draw(st.integers(0, 2 ** 32)),
        "strength": draw(st.sampled_from([0.2, 0.5, 0.8, 1.0])),
        "amag": draw(st.sampled_from([1e-8, 1e-6, 3e-5, 1e-4, 1e-2, 1.0, 1.0, 1.0, 1.0, 1.0])),
        "dtype": draw(st.sampled_from(["f64", "f64", "f32"])),
        "layout": draw(st.sampled_from(["C", "C", "F", "strided", "offset", "neg", "ro"])),
    }


# =====================================================================================
# pfaffian
# =====================================================================================

def prop_pf(case, ctx):
    if _disabled(ctx, "pfaffian"):
        return
    n = int(case["n"])
    dtype = case["dtype"]
    mag = float(case.get("mag", 1.0))
    A_unit = build_skew(case["fam"], n, case["seed"], case["scale"])
    amax = float(np.max(np.abs(A_unit))) if n else 0.0
    lo_hi = (1e-30, 1e30) if dtype == "f32" else (1e-250, 1e250)

    def pf_in_range(factor):
        return n < 2 or amax == 0 or in_range([(amax * factor) ** (n // 2), amax * factor], *lo_hi)

    if mag != 1.0 and not pf_in_range(mag):
        ctx.count("mag_out_of_range_reset")
        mag = 1.0
    A = cast(A_unit * mag, dtype)
    layout = case["layout"]
    u = unit_roundoff(dtype)
    bprefix = "C04:pfaffian"
    A64 = np.asarray(A, dtype=np.float64)
    ref, det = O.pfaffian_ref(A64)
    # tolerance 64 * bound, bound = u * S: express it through S so that the common rule applies
    S = O.pfaffian_error_bound(A64, u) / u
    classes = ["pfaffian", "dtype_" + dtype, "layout_" + layout, "fam_" + case["fam"],
               "via_" + case["via"], "pf_odd" if n % 2 else "pf_even"]
    if layout not in ("C", "ro"):
        classes.append("layout_noncontig")
    if dtype == "f32":
        classes.append("overload_32bit")
    classes.append(f"mag_{mag:g}")
    hexp = int(case.get("hexp", 0)) if n >= 2 and n % 2 == 0 else 0
    if hexp and not pf_in_range(mag * 2.0 ** hexp):
        hexp = 0
    if n and (fro(A) < SMALL_NORM or (hexp and fro(A) * 2.0 ** hexp < SMALL_NORM)):
        classes.append("small_norm_matrix")
    ctx.case(case, n >= 4 and n % 2 == 0 and abs(ref) > 1e-6 * S, classes)
    Ain = apply_layout(A, layout)
    fn = NC.pfaffian if case["via"] == "connector" else _pf_mod.pfaffian
    got = call_guarded(bprefix, fn, Ain)  # (in-place modification of the input: C12 / F9)
    got = np.asarray(got)
    want = np.float32 if dtype == "f32" else np.float64
    if got.dtype != want or got.shape != ():
        raise Violation(f"{bprefix}:result-dtype", f"{got.dtype}{got.shape} for {dtype}")
    g = float(got)
    try:
        check_value(ctx, f"{bprefix}:value:{dtype}", "pfaffian", g, ref, S, u,
                    f"pfaffian n={n} fam={case['fam']} dtype={dtype} layout={layout}")
    except Violation as v:
        def contiguous_ok():
            g2 = float(np.asarray(fn(np.array(A, copy=True, order="C"))))
            return abs(g2 - ref) <= K_TOL * u * S + 2 * u * abs(ref)
        raise layout_or_value(bprefix, layout, v, contiguous_ok)
    # Pf^2 = det (exact integers inside the oracle; here on the library value)
    if n % 2 == 0 and math.isfinite(det):
        tol2 = 2 * abs(ref) * (K_TOL * u * S + 2 * u * abs(ref)) + (K_TOL * u * S) ** 2 \
            + 4 * u * abs(det)
        if abs(g * g - det) > tol2:
            raise Violation(f"{bprefix}:pf-squared-is-det",
                            f"n={n}: Pf^2={g * g!r}, det={det!r}")
    # homogeneity: Pf(cA) = c^(n/2) Pf(A)
    if hexp:
        c = 2.0 ** hexp
        g2 = float(np.asarray(call_guarded(bprefix, fn, cast(A * c, dtype))))
        check_homogeneity(ctx, bprefix, "pfaffian", g2, g, c ** (n // 2),
                          K_TOL * u * S + 2 * u * abs(ref),
                          f"pfaffian n={n} fam={case['fam']} dtype={dtype} mag={mag:g} c=2^{hexp}")


@st.composite
def pf_cases(draw):
    return {
        "n": draw(st.sampled_from([0, 1, 2, 2, 3, 4, 4, 4, 5, 6, 6, 6, 8, 8, 10])),
        "fam": draw(st.sampled_from(["gauss", "gauss", "int", "rankdef", "zeros", "pivot",
                                     "pivot"])),
        "seed": draw(st.integers(0, 2 ** 32)),
        "scale": draw(st.sampled_from([0.25, 1.0, 3.0])),
        "mag": draw(st.sampled_from(MAGS)),
        "hexp": draw(st.sampled_from(HEXPS)),
        "dtype": draw(st.sampled_from(["f64", "f64", "f32"])),
        "layout": draw(st.sampled_from(["C", "C", "F", "strided", "offset", "neg", "ro"])),
        "via": draw(st.sampled_from(["direct", "connector"])),
    }


# =====================================================================================
# oracle self-check (literal enumerations vs grouped recursions; no piquasso involved)
# =====================================================================================

def selfcheck_cases(tier):
    return [{"i": i} for i in range(24 if tier == "quick" else 120)]


def prop_selfcheck(case, ctx):
    rng = progs.rng_of(1000 + case["i"])
    G, G0, G1 = O.G, O.G0, O.G1
    ctx.count("oracle_selfcheck")

    def gi():
        return G(int(rng.integers(-3, 4)), int(rng.integers(-3, 4)))

    nr, nc = (int(x) for x in rng.integers(1, 4, 2))
    rows = [int(x) for x in rng.integers(0, 3, nr)]
    cols = [0] * nc
    for _ in range(sum(rows)):
        cols[int(rng.integers(0, nc))] += 1
    A = [[gi() for _ in range(nc)] for _ in range(nr)]
    a = O.permanent_tables(A, rows, cols)
    b = O.permanent_literal(O.expand(A, rows, cols), G1, G0) if sum(rows) else G1
    if not a == b:
        raise AssertionError(f"oracle permanent_tables disagrees with permutation sum {rows} {cols}")
    d = int(rng.integers(1, 4))
    occ = [int(x) for x in rng.integers(0, 4, d)]
    if sum(occ) > 8:
        occ = [min(x, 2) for x in occ]
    S = [[None] * d for _ in range(d)]
    for i in range(d):
        for j in range(i, d):
            S[i][j] = S[j][i] = gi()
    D = [gi() for _ in range(d)]
    idx = [i for i, k in enumerate(occ) for _ in range(k)]
    E = [[S[i][j] for j in idx] for i in idx]
    a = O.hafnian_rep(S, None, occ, G1, G0, False)
    b = O.hafnian_literal(E, G1, G0) if len(idx) % 2 == 0 else G0
    if not a == b:
        raise AssertionError(f"oracle hafnian_rep disagrees with matching sum {occ}")
    EL = [[(D[i] if p == q else S[i][j]) for q, j in enumerate(idx)] for p, i in enumerate(idx)]
    if not O.hafnian_rep(S, D, occ, G1, G0, True) == O.loop_hafnian_literal(EL, G1, G0):
        raise AssertionError(f"oracle loop hafnian disagrees with matching sum {occ}")
    n = int(rng.integers(1, 7))
    M = rng.integers(-4, 5, (n, n)).tolist()
    if O.det_int(M) != O.det_literal(M):
        raise AssertionError("oracle det_int disagrees with the Leibniz sum")
    K = [[0] * n for _ in range(n)]
    for i in range(n):
        for j in range(i + 1, n):
            K[i][j] = int(rng.integers(-4, 5))
            K[j][i] = -K[i][j]
    p = O.pfaffian_int(K)
    if p != O.pfaffian_literal(K) or p * p != O.det_int(K):
        raise AssertionError("oracle pfaffian disagrees with signed matching sum / Pf^2=det")


# =====================================================================================
# JAX entry (values only; few cases: import + trace are slow)
# =====================================================================================

JAX_CASES = [
    {"rows": [1, 1, 1], "cols": [1, 1, 1], "fam": "gauss", "seed": 1},
    {"rows": [2, 1, 0], "cols": [1, 1, 1], "fam": "unitary", "seed": 2},
    {"rows": [3, 2], "cols": [1, 4], "fam": "gauss", "seed": 3},
    {"rows": [2, 2, 2], "cols": [3, 0, 3], "fam": "int", "seed": 4},
    {"rows": [1, 0, 2, 1], "cols": [1, 1, 1, 1], "fam": "zeros", "seed": 5},
    {"rows": [9, 8], "cols": [8, 9], "fam": "gauss", "seed": 6},
    {"rows": [5, 5, 5], "cols": [7, 8], "fam": "rankdef", "seed": 7},
    {"rows": [1] * 6, "cols": [1] * 6, "fam": "unitary", "seed": 8},
    {"rows": [19, 18], "cols": [18, 19], "fam": "gauss", "seed": 9},   # former F3 region
    {"rows": [36, 2], "cols": [19, 19], "fam": "unitary", "seed": 10},
]
_jax_state: dict = {}


def prop_jax(case, ctx):
    if "perm" not in _jax_state:
        import jax

        jax.config.update("jax_enable_x64", True)
        import jax.numpy as jnp
        from piquasso.jax_extensions import perm
        from piquasso._simulators.connectors import JaxConnector

        _jax_state.update(perm=perm, jnp=jnp, conn=JaxConnector())
    perm, jnp = _jax_state["perm"], _jax_state["jnp"]
    rows, cols = case["rows"], case["cols"]
    if _disabled(ctx, "permanent"):
        return
    if not perm_is_safe(rows):
        ctx.exclude(B_PERM_I64)
        return
    A = build_complex(case["fam"], len(rows), len(cols), case["seed"], 1.0)
    ref = O.permanent_ref(A, rows, cols)
    S = O.glynn_abs_sum(A, rows, cols)
    ctx.case({"jax": case}, max(rows + cols) > 1 and abs(ref) > 1e-6 * S,
             ["jax_perm", "mult_gt1" if max(rows + cols) > 1 else "mult_le1"])
    got = call_guarded("C04:jax_perm", perm, jnp.asarray(A),
                       jnp.asarray(rows, dtype=jnp.uint64), jnp.asarray(cols, dtype=jnp.uint64))
    check_value(ctx, "C04:jax_perm:value:c128", "jax_perm", complex(got), ref, S, U64,
                f"jax perm rows={rows} cols={cols}")
    got2 = call_guarded("C04:JaxConnector.permanent", _jax_state["conn"].permanent,
                        jnp.asarray(A), rows, cols)
    check_value(ctx, "C04:JaxConnector.permanent:value:c128", "jax_perm", complex(got2), ref, S,
                U64, f"JaxConnector.permanent rows={rows} cols={cols}")


def run_jax(ctx, tier):
    seen: set = set()
    cases = list(JAX_CASES)
    if tier == "thorough":
        rng = progs.rng_of(ctx.seed)
        for i in range(40):
            nr, nc = int(rng.integers(1, 5)), int(rng.integers(1, 5))
            tot = int(rng.integers(1, 14))
            rows = np.bincount(rng.integers(0, nr, tot), minlength=nr).tolist()
            cols = np.bincount(rng.integers(0, nc, tot), minlength=nc).tolist()
            cases.append({"rows": rows, "cols": cols, "fam": "gauss", "seed": 100 + i})
    for case in cases:
        if ctx.out_of_time():
            ctx.notes["skipped_time_budget"] += 1
            continue
        v = guarded(prop_jax, case, ctx, seen)
        if v is not None:
            ctx.add_failure("jax", v.bucket, case, v.message)
            seen.add(v.bucket)



# =====================================================================================
# crash canary: a native defect that kills the process (SIGFPE, SIGSEGV, abort) must
# become a violation with its own bucket, not a dead worker.  A small subprocess that
# loads only the freshly built extension modules (no piquasso import) runs every kernel
# on a few fixed inputs; a kernel that dies there is reported and switched off for the
# in-process parts of this shard (counted as excluded).
# =====================================================================================

DISABLED: set = set()

_CANARY_SRC = r"""
import importlib.util, sys, numpy as np
paths = dict(a.split('=', 1) for a in sys.argv[2:])
skip = set(sys.argv[1].split(',')) if sys.argv[1] else set()
def load(name):
    spec = importlib.util.spec_from_file_location(name, paths[name])
    m = importlib.util.module_from_spec(spec); spec.loader.exec_module(m); return m
pm, tm, fm = load('permanent'), load('torontonian'), load('pfaffian')
rng = np.random.Generator(np.random.PCG64(7))
def perm_inputs():
    for nr, nc, rows, cols in [(1, 1, [1], [1]), (2, 2, [1, 1], [1, 1]), (2, 2, [2, 1], [1, 2]),
                               (2, 2, [3, 3], [3, 3]), (2, 2, [0, 2], [1, 1]), (3, 3, [2, 1, 1], [1, 1, 2]),
                               (3, 2, [4, 0, 3], [5, 2]), (2, 2, [9, 8], [8, 9]), (4, 4, [1] * 4, [1] * 4),
                               (2, 2, [0, 0], [0, 0])]:
        A = rng.normal(size=(nr, nc)) + 1j * rng.normal(size=(nr, nc))
        for dt in (np.complex128, np.complex64):
            yield A.astype(dt), np.array(rows), np.array(cols)
def spd(d):
    L = rng.normal(size=(2 * d, 2 * d)) * 0.4
    return np.eye(2 * d) - (np.eye(2 * d) * 0.8 + L @ L.T / (2 * d))
kernels = {
    'permanent': lambda: [pm.permanent(A, r, c) for A, r, c in perm_inputs()],
    'permanent_laplace': lambda: [pm.permanent_laplace(A, r, np.array([c[0] + 1, *c[1:]]))
                                  for A, r, c in perm_inputs()],
    'torontonian': lambda: [tm.torontonian(spd(d).astype(dt)) for d in (0, 1, 2, 3, 4)
                            for dt in (np.float64, np.float32)],
    'loop_torontonian': lambda: [tm.loop_torontonian(spd(d).astype(dt), (rng.normal(size=2 * d) * 0.5).astype(dt))
                                 for d in (0, 1, 2, 3, 4) for dt in (np.float64, np.float32)],
    'pfaffian': lambda: [fm.pfaffian(((lambda B: B - B.T)(rng.normal(size=(n, n)))).astype(dt))
                         for n in (0, 1, 2, 4, 6, 8) for dt in (np.float64, np.float32)],
}
for name, fn in kernels.items():
    if name in skip:
        continue
    print('START', name, flush=True)
    fn()
    print('DONE', name, flush=True)
"""


def run_canary(ctx, tier):
    import signal
    import subprocess
    import sys

    from lib import native_build

    sos = native_build.build(["permanent", "torontonian", "pfaffian"])
    args = [f"{k}={v}" for k, v in sos.items()]
    for _ in range(6):
        p = subprocess.run([sys.executable, "-c", _CANARY_SRC, ",".join(sorted(DISABLED)), *args],
                           capture_output=True, text=True, timeout=600)
        started = [ln.split()[1] for ln in p.stdout.splitlines() if ln.startswith("START")]
        done = {ln.split()[1] for ln in p.stdout.splitlines() if ln.startswith("DONE")}
        ctx.count("canary_kernels_ok", len(done))
        if p.returncode == 0:
            return
        crashed = next((k for k in started if k not in done), None)
        if crashed is None:
            raise RuntimeError(f"canary failed outside a kernel: rc={p.returncode}\n{p.stderr[-2000:]}")
        if p.returncode < 0:
            try:
                how = signal.Signals(-p.returncode).name
            except ValueError:
                how = f"signal-{-p.returncode}"
        else:
            how = "exception"
        bucket = f"C04:{crashed}:crash:{how}"
        msg = (f"{crashed} killed the interpreter ({how}) on a fixed small input of the canary "
               f"(multiplicities <= 9, dimension <= 4); stderr: {p.stderr[-300:]}")
        if ctx.is_known(bucket):
            ctx.known_hits[bucket] += 1
        else:
            ctx.add_failure("native_canary", bucket, {"kernel": crashed}, msg)
        DISABLED.add(crashed)
        ctx.exclude(bucket)


def prop_canary(case, ctx):
    """Replay of a canary failure: run the canary for that kernel only."""
    import subprocess
    import sys

    from lib import native_build

    sos = native_build.build(["permanent", "torontonian", "pfaffian"])
    others = {"permanent", "permanent_laplace", "torontonian", "loop_torontonian",
              "pfaffian"} - {case["kernel"]}
    p = subprocess.run([sys.executable, "-c", _CANARY_SRC, ",".join(sorted(others)),
                        *[f"{k}={v}" for k, v in sos.items()]], capture_output=True, text=True)
    ctx.case(case, True, ["canary_replay"])
    if p.returncode != 0:
        raise Violation(f"C04:{case['kernel']}:crash:rc{p.returncode}", p.stderr[-400:])


def _disabled(ctx, kernel) -> bool:
    if kernel in DISABLED:
        ctx.exclude(f"C04:{kernel}:crash")
        return True
    return False

# =====================================================================================
# parts
# =====================================================================================

def parts(tier):
    all_parts = _all_parts(tier)
    if _ONLY_PARTS:
        return [p for p in all_parts if p.name in _ONLY_PARTS or p.name == "native_canary"]
    return all_parts


def _all_parts(tier):
    return [
        Part("native_canary", prop_canary, kind="custom", run=run_canary),
        Part("oracle_selfcheck", prop_selfcheck, kind="enum", cases=selfcheck_cases),
        Part("perm_int_overflow", prop_perm_overflow, kind="enum", cases=overflow_cases),
        Part("perm", prop_perm, strategy=perm_cases(),
             examples={"quick": 2400, "thorough": 60000},
             budget_s={"quick": 70, "thorough": 3000}),
        Part("haf", prop_haf, strategy=lambda tier: (_warm_haf(), haf_cases())[1],
             examples={"quick": 1600, "thorough": 40000},
             budget_s={"quick": 60, "thorough": 3000}),
        Part("tor", prop_tor, strategy=tor_cases(),
             examples={"quick": 1200, "thorough": 30000},
             budget_s={"quick": 30, "thorough": 2000}),
        Part("pf", prop_pf, strategy=pf_cases(),
             examples={"quick": 1200, "thorough": 30000},
             budget_s={"quick": 25, "thorough": 1500}),
        Part("jax", prop_jax, kind="custom", run=run_jax, only_shard0=True,
             budget_s={"quick": 45, "thorough": 600}),
        *c04_native.parts(tier),
    ]
