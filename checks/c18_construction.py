"""C18 — Program construction is faithful: round trips, nesting, preparation algebra.

Parts
  blackbird        (a) to_blackbird_code / loads_blackbird round trip, oracle = the case
                       description + an independent copy of the documented name table
  as_code          (b) exec(pq.as_code(...)) reproduces instructions / simulator / config
  as_code_exec     (b) ... and the same result under the same seed
  as_code_regions  (b) enumerated regression probes of the four as_code defects repaired in
                       /repo commit 195aeff (array precision / dtype name / summarisation,
                       string parameters); the same regions are also drawn in `as_code`
  from_dict        (c)
  copy             (d)
  nesting          (e) oracle = composition of the register maps computed here
  prep             (f) oracle = exact rational amplitude dictionaries
  prep_f11         (f) enumerated regression probe of finding F11 (NumberState + weighted
                       FockStateVector, repaired in /repo commit d862810); also drawn in `prep`

Every case is a JSON description; objects (also matrices) are rebuilt from it.
"""

from __future__ import annotations

import itertools
import math
import os
import warnings
from fractions import Fraction

# all matrices here are tiny: one BLAS/OpenMP thread per shard (8-16 shards run in parallel)
for _v in ("OMP_NUM_THREADS", "OPENBLAS_NUM_THREADS", "MKL_NUM_THREADS"):
    os.environ.setdefault(_v, "1")

import numpy as np  # noqa: E402
from hypothesis import strategies as st

from lib import bootstrap, progs
from lib.harness import Part, Violation

pq = bootstrap.load()

import blackbird as bb  # noqa: E402
from piquasso.api.exceptions import PiquassoException  # noqa: E402

PID = "C18"
LEVEL = "exploration"
SHARDS = {"quick": 8, "thorough": 16}
RULE = (
    "blackbird: programs of 0..8 instructions over the 15 exportable gates, ordered mode "
    "tuples with gaps and offsets, every parameter an arbitrary finite double (Hypothesis "
    "floats incl. subnormals, -0.0, 1e+-300, max double, integer-valued), Python int (up to "
    "2**70), np.float64 or np.float32; defaults omitted or given; 5% with a non-exportable "
    "instruction (must raise PiquassoException). as_code / from_dict / copy: programs of "
    "0..6 instructions over 44 instruction classes (scalar, complex, tuple, dict, list, "
    "expression-string and array parameters; arrays up to 8x8 of float64/complex128/int64/"
    "float32/complex64 with short-decimal, integer or full-precision entries incl. -0.0, "
    "1e300, 5e-324, Haar unitaries; in as_code 5% of the cases carry an array of > 1000 "
    "elements and 2.5% a 1-D empty or 0-d array), simulators G/PF/F/Sampling/Passive with d "
    "given or None, Config with none / one / some / all ten fields non-default; "
    "as_code_exec: executable programs (lib.progs gates, Haar / real / diagonal / permutation "
    "interferometers, constant expression-string parameters, photon counting) compared on "
    "samples and every branch state under the same seed. nesting: inner program of 1..5 "
    "instructions registered through 1..3 levels of drawn injective registers (or Q()), "
    "optionally twice per level. prep: expression trees of <= 5 leaves over NumberState / "
    "FockStateVector with +, left/right scalar *, / (float, int, complex, numpy scalars), "
    "evaluated exactly as written and compared with exact rational arithmetic, plus up to 6 "
    "re-associations / commutations of the top-level sum. as_code_regions / prep_f11: "
    "enumerated regression probes of the five repaired defects. Non-trivial = round-trip "
    "programs with >= 3 instructions, >= 1 non-default float and >= 1 multi-mode gate; "
    "nesting depth >= 2 with a non-idempotent register; trees with >= 3 leaves mixing both "
    "leaf kinds. Distinct by the whole case description."
)
ASSUMPTIONS = [
    "the blackbird package parses the text it is given correctly (its parser is used both by "
    "piquasso and, for the text-level oracle, by the check)",
    "Python's float repr / Fraction arithmetic are exact; json round-trips finite doubles",
    "parameter equality is value equality (2 == 2.0, np.float64(x) == x, tuple vs list of "
    "equal items); the sign of zero is compared for real scalars and real arrays",
    "array parameters with a zero-length axis among two or more axes (e.g. shape (0, 2)) are "
    "not generated: no instruction accepts such a matrix in an executable program (every "
    "matrix shape derives from a number of modes >= 1 or a cutoff >= 1); as_code still emits "
    "`shape=` for them (observation). 1-D empty and 0-d arrays are generated",
    "string parameters are documented expression strings; in executed programs they are "
    "constant expressions (no measurement outcome is referenced)",
    "operands of the preparation operators are fresh objects (the operators mutate in place)",
]
FLOORS = {
    "bb_multimode_gate": 0.02,
    "nest_nonidempotent": 0.02,
    "prep_mixed_ge3": 0.02,
    "code_array_param": 0.02,
    "code_full_precision_array": 0.01,
    "code_f32_c64_array": 0.005,
    "code_large_array": 0.002,
    "code_str_param": 0.005,
    "prep_number_plus_weighted_vector": 0.005,
}
F11_BUCKET = "C18:prep:NumberState+weighted-FockStateVector"

# ======================================================================= value descriptions


def build_array(v):
    shape = tuple(v["shape"])
    n = int(np.prod(shape)) if shape else 1
    rng = progs.rng_of(v["seed"])
    dtype = v.get("dtype", "float64")
    style = v.get("style", "short")
    if style == "unitary":
        a = progs.haar_unitary(shape[0], v["seed"], v.get("kind", "perm")) * v.get("scale", 1.0)
        if dtype in ("float64", "float32", "int64"):
            a = a.real
        return np.ascontiguousarray(a.astype(dtype))
    if style == "cov":  # valid detection covariance: diag(1 + |a|), entries short or full
        a = ((1_000_000 + rng.integers(0, 2_000_001, size=shape[0])) / 1_000_000
             if v.get("entries") != "full" else 1.0 + np.abs(rng.normal(size=shape[0])))
        return np.diag(a).astype(dtype)
    if style == "int":
        a = rng.integers(-5, 6, size=n).astype(float)
        b = rng.integers(-5, 6, size=n).astype(float)
    elif style == "short":
        a = rng.integers(-2_000_000, 2_000_001, size=n) / 1_000_000
        b = rng.integers(-2_000_000, 2_000_001, size=n) / 1_000_000
    elif style == "full":
        a = rng.normal(size=n)
        b = rng.normal(size=n)
    else:
        raise KeyError(style)
    if dtype.startswith("complex"):
        arr = (a + 1j * b).astype(dtype)
    else:
        arr = a.astype(dtype)
    for idx, val in v.get("specials", []):
        arr[idx % n] = val
    return arr.reshape(shape)


def build_value(v):
    k = v["k"]
    if k == "float":
        return float(v["v"])
    if k == "int":
        return int(v["v"])
    if k == "f64":
        return np.float64(v["v"])
    if k == "f32":
        return np.float32(v["v"])
    if k == "cplx":
        return complex(v["v"][0], v["v"][1])
    if k == "c128":
        return np.complex128(complex(v["v"][0], v["v"][1]))
    if k == "tuple":
        return tuple(int(x) for x in v["v"])
    if k == "list":
        return [float(x) for x in v["v"]]
    if k == "map":
        return {tuple(int(x) for x in o): complex(a[0], a[1]) for o, a in v["v"]}
    if k == "str":
        return str(v["v"])
    if k == "arr":
        return build_array(v)
    raise KeyError(k)


def make_inst(desc):
    cls = getattr(pq, desc["g"])
    kwargs = {name: build_value(v) for name, v in desc["p"].items()}
    with warnings.catch_warnings():
        warnings.simplefilter("ignore")
        inst = cls(**kwargs)
    if desc.get("modes") is not None:
        inst = inst.on_modes(*desc["modes"])
    return inst


def make_program(descs):
    return pq.Program(instructions=[make_inst(d) for d in descs])


# ----------------------------------------------------------------------- value comparison

_NUM = (int, float, complex, np.number)


def diff_value(a, b):
    """None if `b` reproduces `a`; else (kind, text)."""
    if isinstance(a, np.ndarray) or isinstance(b, np.ndarray):
        if not (isinstance(a, np.ndarray) and isinstance(b, np.ndarray)):
            return "type", f"{type(a).__name__} became {type(b).__name__}"
        if a.shape != b.shape:
            return "array-shape", f"shape {a.shape} became {b.shape}"
        if a.dtype != b.dtype:
            return "array-dtype", f"dtype {a.dtype} became {b.dtype}"
        if not np.array_equal(a, b):
            return "array-values", f"max |difference| = {np.max(np.abs(a - b)):.3e}"
        if a.dtype.kind == "f" and not np.array_equal(np.signbit(a), np.signbit(b)):
            return "array-zero-sign", "sign of a zero entry changed"
        return None
    if isinstance(a, dict):
        if not isinstance(b, dict):
            return "type", f"dict became {type(b).__name__}"
        ka = [tuple(k) if isinstance(k, (tuple, list)) else k for k in a]
        kb = [tuple(k) if isinstance(k, (tuple, list)) else k for k in b]
        if ka != kb:
            return "keys", f"keys {ka} became {kb}"
        for x, y in zip(a.values(), b.values()):
            d = diff_value(x, y)
            if d:
                return d
        return None
    if isinstance(a, (tuple, list)):
        if not isinstance(b, (tuple, list)):
            return "type", f"{type(a).__name__} became {type(b).__name__}"
        if len(a) != len(b):
            return "len", f"length {len(a)} became {len(b)}"
        for x, y in zip(a, b):
            d = diff_value(x, y)
            if d:
                return d
        return None
    if isinstance(a, str) or isinstance(b, str):
        return None if (type(a) is type(b) and a == b) else ("str", f"{a!r} became {b!r}")
    if isinstance(a, (bool, np.bool_)) or a is None:
        return None if a == b else ("scalar", f"{a!r} became {b!r}")
    if isinstance(a, _NUM):
        if not isinstance(b, _NUM) or isinstance(b, (bool, np.bool_)):
            return "type", f"{a!r} became {b!r} ({type(b).__name__})"
        if isinstance(a, (complex, np.complexfloating)) or isinstance(
            b, (complex, np.complexfloating)
        ):
            return None if complex(a) == complex(b) else (
                "scalar", f"{a!r} became {b!r}")
        if isinstance(a, (int, np.integer)) and isinstance(b, (int, np.integer)):
            return None if int(a) == int(b) else ("scalar", f"{a!r} became {b!r}")
        fa, fb = float(a), float(b)
        if fa != fb or math.copysign(1.0, fa) != math.copysign(1.0, fb):
            return "scalar", f"{a!r} ({fa!r}) became {b!r} ({fb!r})"
        return None
    return None if a == b else ("other", f"{a!r} became {b!r}")


def compare_instructions(orig, new, where, modes_exact_type=False):
    if len(orig) != len(new):
        raise Violation(f"C18:{where}:length",
                        f"{len(orig)} instructions became {len(new)}")
    for i, (a, b) in enumerate(zip(orig, new)):
        if type(a) is not type(b):
            raise Violation(f"C18:{where}:class",
                            f"instruction {i}: {type(a).__name__} became {type(b).__name__}")
        if tuple(a.modes) != tuple(b.modes):
            raise Violation(f"C18:{where}:modes",
                            f"instruction {i} {type(a).__name__}: modes {a.modes} became {b.modes}")
        if modes_exact_type and not (
            isinstance(b.modes, tuple) and all(type(m) is int for m in b.modes)
        ):
            raise Violation(f"C18:{where}:modes-type",
                            f"instruction {i} {type(a).__name__}: modes are {b.modes!r} "
                            f"({type(b.modes).__name__}) - not a tuple of ints, so "
                            f"Instruction.__eq__ with the directly built one is "
                            f"{a == b}")
        if list(a.params.keys()) != list(b.params.keys()):
            raise Violation(f"C18:{where}:param-names",
                            f"instruction {i} {type(a).__name__}: parameters "
                            f"{list(a.params)} became {list(b.params)}")
        for k in a.params:
            d = diff_value(a.params[k], b.params[k])
            if d:
                raise Violation(f"C18:{where}:param-value:{d[0]}",
                                f"instruction {i} {type(a).__name__}.{k}: {d[1]}")


def snapshot(insts):
    """Deep, piquasso-independent snapshot of (id, class, modes, params)."""
    def cp(x):
        if isinstance(x, np.ndarray):
            return x.copy()
        if isinstance(x, dict):
            return {k: cp(v) for k, v in x.items()}
        if isinstance(x, (list, tuple)):
            return type(x)(cp(v) for v in x)
        return x
    return [(id(i), type(i), tuple(i.modes), cp(i.params)) for i in insts]


def check_unchanged(insts, snap, bucket, what):
    if len(insts) != len(snap):
        raise Violation(bucket, f"{what}: number of instructions changed")
    for i, (inst, (id_, cls, modes, params)) in enumerate(zip(insts, snap)):
        if id(inst) != id_ or type(inst) is not cls:
            raise Violation(bucket, f"{what}: instruction {i} was replaced by another object")
        if tuple(inst.modes) != modes:
            raise Violation(bucket, f"{what}: instruction {i} {cls.__name__} modes "
                                    f"{modes} became {tuple(inst.modes)}")
        if list(inst.params) != list(params):
            raise Violation(bucket, f"{what}: instruction {i} parameter names changed")
        for k in params:
            d = diff_value(params[k], inst.params[k])
            if d:
                raise Violation(bucket, f"{what}: instruction {i} {cls.__name__}.{k}: {d[1]}")


# ============================================================================ scalar strategies

SPECIAL_FLOATS = [
    0.0, -0.0, 5e-324, -5e-324, 2.2250738585072014e-308, -2.2250738585072009e-308,
    1e300, -1e300, 1e-300, -1e-300, 1.7976931348623157e308, 1.0, -1.0, 3.0, -7.0, 1e16,
    9007199254740992.0, 1e22, 1e23, 0.1, 0.30000000000000004, math.pi, 1e-5, 1e-4, 1e-7,
    123456789.0, 1.5e-7,
]


def any_float():
    return st.one_of(
        st.floats(allow_nan=False, allow_infinity=False, width=64),
        st.floats(-10, 10, allow_nan=False, width=64),
        st.sampled_from(SPECIAL_FLOATS),
        st.integers(-1000, 1000).map(float),
    )


STR_PARAMS = ["x[0]", "x[-1] * 0.5", "0.5", "x[0] + 1", "(x[0] == 1) * 0.25",
              "0.25 + 0.5", "-1e-05", "x[0] ** 2 / 3"]


def scalar_desc(strings=False):
    if strings:
        return st.one_of(*([scalar_desc()] * 11),
                         st.sampled_from(STR_PARAMS).map(lambda t: {"k": "str", "v": t}))
    f32 = st.one_of(st.floats(allow_nan=False, allow_infinity=False, width=32),
                    st.sampled_from([0.1, 0.3, 1 / 3, 1e-10, 3.1415927, 16777216.0, -2.7e20]))
    return st.one_of(
        any_float().map(lambda x: {"k": "float", "v": x}),
        any_float().map(lambda x: {"k": "float", "v": x}),
        st.integers(-10**6, 10**6).map(lambda n: {"k": "int", "v": n}),
        st.integers(-2**70, 2**70).map(lambda n: {"k": "int", "v": n}),
        any_float().map(lambda x: {"k": "f64", "v": x}),
        f32.map(lambda x: {"k": "f32", "v": float(np.float32(x))}),
    )


def complex_desc():
    part = st.one_of(st.floats(-4, 4, allow_nan=False, width=64),
                     st.sampled_from([0.0, 1.0, -1.0, 0.5, 1e-300, 1e300, 0.1]))
    return st.one_of(
        st.tuples(part, part).map(lambda t: {"k": "cplx", "v": [t[0], t[1]]}),
        st.tuples(part, part).map(lambda t: {"k": "c128", "v": [t[0], t[1]]}),
        any_float().map(lambda x: {"k": "float", "v": x}),
        st.integers(-5, 5).map(lambda n: {"k": "int", "v": n}),
    )


# ============================================================================ (a) Blackbird

# independent copy of the documented Strawberry Fields / Blackbird names and the
# constructor order of the piquasso classes (piquasso/instructions/gates.py signatures)
BB = {
    "Displacement": ("Dgate", ["r", "phi"], 1),
    "PositionDisplacement": ("Xgate", ["x"], 1),
    "MomentumDisplacement": ("Zgate", ["p"], 1),
    "Squeezing": ("Sgate", ["r", "phi"], 1),
    "QuadraticPhase": ("Pgate", ["s"], 1),
    "Kerr": ("Kgate", ["xi"], 1),
    "Phaseshifter": ("Rgate", ["phi"], 1),
    "Beamsplitter": ("BSgate", ["theta", "phi"], 2),
    "MachZehnder": ("MZgate", ["int_", "ext"], 2),
    "Squeezing2": ("S2gate", ["r", "phi"], 2),
    "ControlledX": ("CXgate", ["s"], 2),
    "ControlledZ": ("CZgate", ["s"], 2),
    "CrossKerr": ("CKgate", ["xi"], 2),
    "CubicPhase": ("Vgate", ["gamma"], 1),
    "Fourier": ("Fouriergate", [], 1),
}
BB_DEFAULTS = {
    "Beamsplitter": {"theta": math.pi / 4, "phi": 0.0},
    "Displacement": {"phi": 0.0},
    "Squeezing": {"phi": 0.0},
    "Squeezing2": {"phi": 0.0},
}
NOT_EXPORTABLE = ["Vacuum", "Beamsplitter5050", "ParticleNumberMeasurement",
                  "HeterodyneMeasurement"]


@st.composite
def bb_inst(draw, d, offset):
    name = draw(st.sampled_from(sorted(BB)))
    _, pnames, arity = BB[name]
    modes = [m + offset for m in draw(progs.ordered_modes(d, arity))]
    p = {}
    for pn in pnames:
        if pn in BB_DEFAULTS.get(name, {}) and draw(st.integers(0, 3)) == 0:
            # a trailing default may be omitted; 'theta' only together with 'phi'
            if pn == "theta":
                break
            continue
        p[pn] = draw(scalar_desc())
    if name == "Beamsplitter" and "theta" not in p:
        p = {}
    return {"g": name, "modes": modes, "p": p}


@st.composite
def bb_case(draw):
    d = draw(st.integers(2, 6))
    offset = draw(st.sampled_from([0, 0, 0, 1, 7, 100]))
    n = draw(st.integers(0, 8))
    insts = [draw(bb_inst(d, offset)) for _ in range(n)]
    case = {"insts": insts}
    k = draw(st.integers(0, 19))
    if k == 0:
        case["bad"] = {"g": draw(st.sampled_from(NOT_EXPORTABLE)),
                       "at": draw(st.integers(0, n))}
    elif k == 1:
        case["preexisting"] = True
    return case


def expected_scalar(v):
    """The real number (and Python type class) a scalar description denotes."""
    x = build_value(v)
    if v["k"] == "int":
        return int(x)
    return float(repr(float(x)))  # one float(repr) round trip: exact


def same_real(want, got):
    if isinstance(got, (bool, np.bool_)) or not isinstance(got, (int, float, np.integer, np.floating)):
        return False
    if isinstance(want, int):
        return isinstance(got, (int, np.integer)) and int(got) == want or (
            not isinstance(got, (int, np.integer)) and float(got) == want and abs(want) < 2**53)
    g = float(got)
    return g == want and math.copysign(1.0, g) == math.copysign(1.0, want)


def prop_blackbird(case, ctx):
    descs = case["insts"]
    floats = sum(1 for d in descs for v in d["p"].values() if v["k"] != "int")
    multi = any(BB[d["g"]][2] == 2 for d in descs)
    classes = ["bb"]
    if multi:
        classes.append("bb_multimode_gate")
    if any(v["k"] == "f32" for d in descs for v in d["p"].values()):
        classes.append("bb_np_float32")
    if any(v["k"] == "float" and v["v"] != 0 and abs(v["v"]) < 2.3e-308
           for d in descs for v in d["p"].values()):
        classes.append("bb_subnormal")
    if any(len(d["p"]) < len(BB[d["g"]][1]) for d in descs):
        classes.append("bb_default_omitted")
    if any(d["modes"] != sorted(d["modes"]) for d in descs):
        classes.append("bb_descending_modes")
    ctx.case(case, len(descs) >= 3 and floats >= 1 and multi, classes)

    program = make_program(descs)
    if "bad" in case:
        ctx.count("bb_nonexportable")
        bad = make_inst({"g": case["bad"]["g"], "modes": [0, 1] if case["bad"]["g"] ==
                         "Beamsplitter5050" else [0], "p": {}})
        program.instructions.insert(case["bad"]["at"], bad)
        try:
            text = program.to_blackbird_code()
        except PiquassoException:
            return
        except Exception as e:  # noqa: BLE001
            raise Violation(f"C18:blackbird:nonexportable-wrong-exception:{type(e).__name__}",
                            f"{case['bad']['g']}: {e!r}")
        raise Violation("C18:blackbird:nonexportable-accepted",
                        f"{case['bad']['g']} was exported as\n{text}")

    snap = snapshot(program.instructions)
    try:
        text = program.to_blackbird_code()
    except Exception as e:  # noqa: BLE001
        raise Violation(f"C18:blackbird:export-raises:{type(e).__name__}", f"{e!r}")
    check_unchanged(program.instructions, snap, "C18:blackbird:export-mutates-program",
                    "after to_blackbird_code")

    # text-level oracle: the documented operation names and positional order
    try:
        ops = bb.loads(text).operations
    except Exception as e:  # noqa: BLE001
        raise Violation(f"C18:blackbird:text-unparsable:{type(e).__name__}",
                        f"{e!r}\n{text}")
    if len(ops) != len(descs):
        raise Violation("C18:blackbird:text-length", f"{len(descs)} instructions, "
                        f"{len(ops)} operations in\n{text}")
    for i, (d, op) in enumerate(zip(descs, ops)):
        bbname, pnames, _ = BB[d["g"]]
        want = [expected_scalar(d["p"][n]) if n in d["p"] else BB_DEFAULTS[d["g"]][n]
                for n in pnames]
        if op["op"] != bbname:
            raise Violation("C18:blackbird:text-op-name",
                            f"instruction {i} {d['g']} exported as {op['op']}, documented "
                            f"name {bbname}")
        if list(op["modes"]) != list(d["modes"]):
            raise Violation("C18:blackbird:text-modes",
                            f"instruction {i} {d['g']} on {d['modes']} exported on {op['modes']}")
        args = list(op.get("args") or [])
        if len(args) != len(want) or not all(same_real(w, g) for w, g in zip(want, args)):
            raise Violation("C18:blackbird:text-args",
                            f"instruction {i} {d['g']}({', '.join(pnames)}) = {want!r} "
                            f"exported with positional arguments {args!r}")

    loaded = pq.Program()
    if case.get("preexisting"):
        ctx.count("bb_load_into_nonempty")
        loaded = pq.Program(instructions=[pq.Vacuum()])
    try:
        loaded.loads_blackbird(text)
    except Exception as e:  # noqa: BLE001
        raise Violation(f"C18:blackbird:import-raises:{type(e).__name__}", f"{e!r}\n{text}")
    got = loaded.instructions
    if case.get("preexisting"):
        if not got or type(got[0]) is not pq.Vacuum:
            raise Violation("C18:blackbird:import-drops-existing",
                            "loads_blackbird removed the instruction already in the program")
        got = got[1:]
    if len(got) != len(descs):
        raise Violation("C18:blackbird:length", f"{len(descs)} -> {len(got)}\n{text}")
    for i, (d, inst) in enumerate(zip(descs, got)):
        _, pnames, _ = BB[d["g"]]
        if type(inst) is not getattr(pq, d["g"]):
            raise Violation("C18:blackbird:class",
                            f"instruction {i}: {d['g']} became {type(inst).__name__}")
        if tuple(inst.modes) != tuple(d["modes"]) or not isinstance(inst.modes, tuple):
            raise Violation("C18:blackbird:modes",
                            f"instruction {i} {d['g']}: modes {d['modes']} became {inst.modes!r}")
        if list(inst.params) != pnames:
            raise Violation("C18:blackbird:param-names",
                            f"instruction {i} {d['g']}: parameters {list(inst.params)}")
        for n in pnames:
            want = expected_scalar(d["p"][n]) if n in d["p"] else BB_DEFAULTS[d["g"]][n]
            if not same_real(want, inst.params[n]):
                raise Violation("C18:blackbird:param-value",
                                f"instruction {i} {d['g']}.{n}: {want!r} became "
                                f"{inst.params[n]!r} (all: {dict(inst.params)!r}; text line: "
                                f"{text.splitlines()[3 + i] if len(text.splitlines()) > 3 + i else ''})")
    # second trip is the identity on the text
    try:
        text2 = pq.Program(instructions=list(got)).to_blackbird_code()
    except Exception as e:  # noqa: BLE001
        raise Violation(f"C18:blackbird:reexport-raises:{type(e).__name__}", f"{e!r}")
    if text2 != text:
        raise Violation("C18:blackbird:not-idempotent", f"{text!r}\nbecame\n{text2!r}")


# ============================================================================ (b) as_code

# name -> (arity or None for k modes / "all" for mode-less, [(param, kind)])
# kinds: s scalar, c complex coefficient, occ tuple of naturals, list floats,
# map amplitude dict, ("arr", rows, cols) with symbolic sizes k (modes), 2k, c (cutoff-like)
S = "s"
CODE_CAT = {
    "Displacement": (1, [("r", S), ("phi", S)]),
    "PositionDisplacement": (1, [("x", S)]),
    "MomentumDisplacement": (1, [("p", S)]),
    "Squeezing": (1, [("r", S), ("phi", S)]),
    "QuadraticPhase": (1, [("s", S)]),
    "Kerr": (1, [("xi", S)]),
    "Phaseshifter": (1, [("phi", S)]),
    "Beamsplitter": (2, [("theta", S), ("phi", S)]),
    "MachZehnder": (2, [("int_", S), ("ext", S)]),
    "Squeezing2": (2, [("r", S), ("phi", S)]),
    "ControlledX": (2, [("s", S)]),
    "ControlledZ": (2, [("s", S)]),
    "CrossKerr": (2, [("xi", S)]),
    "CubicPhase": (1, [("gamma", S)]),
    "Fourier": (1, []),
    "Beamsplitter5050": (2, []),
    "Attenuator": (1, [("theta", S), ("mean_thermal_excitation", S)]),
    "UniformLoss": ("all", [("transmissivity", S)]),
    "HomodyneMeasurement": (None, [("phi", S), ("z", S)]),
    "HeterodyneMeasurement": (None, []),
    "ParticleNumberMeasurement": ("all", []),
    "ThresholdMeasurement": (None, []),
    "Vacuum": ("all", []),
    "Create": (None, []),
    "Annihilate": (None, []),
    "Interferometer": (None, [("matrix", ("arr", "k", "k"))]),
    "LossyInterferometer": (None, [("matrix", ("arr", "k", "k"))]),
    "GaussianTransform": (None, [("passive", ("arr", "k", "k")), ("active", ("arr", "k", "k"))]),
    "Graph": (None, [("adjacency_matrix", ("arr", "k", "k")), ("mean_photon_number", S)]),
    "Mean": ("all", [("mean", ("arr", "2k"))]),
    "Covariance": ("all", [("cov", ("arr", "2k", "2k"))]),
    "GeneraldyneMeasurement": (None, [("detection_covariance", ("arr", "2", "2"))]),
    "SNAP": (1, [("theta", ("arr", "c"))]),
    "Loss": (1, [("transmissivity", ("arr", "1"))]),
    "DeterministicGaussianChannel": (None, [("X", ("arr", "2k", "2k")), ("Y", ("arr", "2k", "2k"))]),
    "ImperfectParticleNumberMeasurement": (None, [("detector_efficiency_matrix", ("arr", "c", "c"))]),
    "ImperfectPostSelectPhotons": (None, [("photon_counts", "occ"),
                                          ("detector_efficiency_matrix", ("arr", "c", "c"))]),
    "PostSelectPhotons": (None, [("photon_counts", "occ")]),
    "Thermal": (None, [("mean_photon_numbers", "list")]),
    "NumberState": ("all", [("occupation_numbers", "occ"), ("coefficient", "c")]),
    "FockStateVector": ("all", [("fock_amplitude_map", "map"), ("coefficient", "c")]),
    "StateVector": ("all", [("occupation_numbers", "occ"), ("coefficient", "c")]),
    "DensityMatrix": ("all", [("ket", "occ"), ("bra", "occ"), ("coefficient", "c")]),
    "DistinguishableNumberState": ("all", [("occupation_numbers", "occ"),
                                           ("particle_overlap", "s_or_arr")]),
}
ARRAY_GATES = [n for n, (_, ps) in CODE_CAT.items()
               if any(isinstance(k, tuple) for _, k in ps)]


@st.composite
def arr_desc(draw, shape):
    """Arrays of every kind as_code has to reproduce: short-decimal, integer-valued and
    full-precision entries, float64 / complex128 / int64 / float32 / complex64."""
    v = {"k": "arr", "shape": list(shape), "seed": draw(st.integers(0, 2**32))}
    v["dtype"] = draw(st.sampled_from(["float64", "float64", "complex128", "complex128",
                                        "int64", "float32", "complex64"]))
    if v["dtype"] == "int64":
        v["style"] = "int"
        return v
    v["style"] = draw(st.sampled_from(["short", "full", "full", "int"]))
    n = int(np.prod(shape)) if shape else 1
    if v["dtype"] == "float64" and n and draw(st.integers(0, 3)) == 0:
        v["specials"] = draw(st.lists(
            st.tuples(st.integers(0, 10**6),
                      st.sampled_from([0.0, -0.0, 1e300, -1e-300, 5e-324, 1.0, 1e-5,
                                       123456.5, 1e16, 0.1, math.pi])).map(list),
            min_size=1, max_size=3))
    return v


def sym_size(sym, k, c):
    return {"k": k, "2k": 2 * k, "c": c, "1": 1, "2": 2}[sym]


@st.composite
def code_inst(draw, d, names, big=None):
    name = draw(st.sampled_from(names))
    arity, pspec = CODE_CAT[name]
    if arity == "all":
        modes, k = ([] if draw(st.booleans()) else None), d
    elif arity is None:
        modes = draw(progs.ordered_modes(d))
        k = len(modes)
    else:
        modes = draw(progs.ordered_modes(max(d, arity), arity))
        k = arity
    if modes is None:
        modes_out = None
    else:
        modes_out = modes
    c = draw(st.integers(1, 5))
    occ_len = k
    p = {}
    for pname, kind in pspec:
        if kind == S:
            p[pname] = draw(scalar_desc(strings=True))
        elif kind == "c":
            if draw(st.integers(0, 3)) == 0:
                continue  # default coefficient
            p[pname] = draw(complex_desc())
        elif kind == "occ":
            p[pname] = {"k": "tuple", "v": draw(st.lists(st.integers(0, 3), min_size=occ_len,
                                                          max_size=occ_len))}
        elif kind == "list":
            p[pname] = {"k": "list", "v": draw(st.lists(any_float(), min_size=k, max_size=k))}
        elif kind == "map":
            nterms = draw(st.integers(1, 3))
            seen, terms = set(), []
            for _ in range(nterms):
                o = draw(st.lists(st.integers(0, 2), min_size=occ_len, max_size=occ_len))
                if tuple(o) in seen:
                    continue
                seen.add(tuple(o))
                a = draw(complex_desc())
                val = build_value(a)
                terms.append([o, [float(complex(val).real), float(complex(val).imag)]])
            p[pname] = {"k": "map", "v": terms}
        elif kind == "s_or_arr":
            if draw(st.booleans()):
                p[pname] = draw(scalar_desc())
            else:
                n = draw(st.integers(1, 4))
                p[pname] = draw(arr_desc((n, n)))
        else:
            shape = tuple(sym_size(s_, k, c) for s_ in kind[1:])
            if big is not None:
                shape = big if len(shape) == 2 else (big[0] * big[1],)
            p[pname] = draw(arr_desc(shape))
            if name == "GeneraldyneMeasurement":
                # validated at construction (uncertainty relation)
                p[pname] = {"k": "arr", "shape": list(shape), "seed": p[pname]["seed"],
                            "style": "cov", "entries": draw(st.sampled_from(["short", "full"])),
                            "dtype": draw(st.sampled_from(["float64", "float64", "float32"]))}
            if name == "LossyInterferometer":
                # the constructor validates the singular values: contraction by construction
                dt = draw(st.sampled_from(["complex128", "complex128", "float64", "complex64"]))
                p[pname] = {"k": "arr", "shape": list(shape), "seed": p[pname]["seed"],
                            "style": "unitary", "kind": draw(st.sampled_from(["haar", "perm"])),
                            "scale": draw(st.sampled_from([0.5, 0.25] if dt == "complex64"
                                                          else [1.0, 0.5, 0.25])),
                            "dtype": dt}
    return {"g": name, "modes": modes_out, "p": p}


SIMS = {"G": "GaussianSimulator", "PF": "PureFockSimulator", "F": "FockSimulator",
        "P": "SamplingSimulator", "PS": "PassiveSimulator"}
CONFIG_DEFAULTS = dict(cutoff=None, dtype="float64", measurement_cutoff=5, hbar=2.0,
                       seed_sequence=None, use_torontonian=False, cache_size=32,
                       validate=True, use_dask=False, max_sample_generation_trials=1000)


@st.composite
def config_desc(draw, executable=False):
    cfg = {}
    if executable:
        cfg["seed_sequence"] = draw(st.integers(1, 2**40))
    pick = draw(st.sampled_from(["default", "one", "few", "few", "all"]))
    if pick == "default":
        return cfg
    fields = ["cutoff", "dtype", "measurement_cutoff", "hbar", "seed_sequence",
              "use_torontonian", "cache_size", "validate", "use_dask",
              "max_sample_generation_trials"]
    only = draw(st.sampled_from(fields)) if pick == "one" else None
    counter = iter(fields)

    def want():
        f = next(counter)
        if pick == "one":
            return f == only
        return pick == "all" or draw(st.integers(0, 3)) == 0

    if want():
        cfg["cutoff"] = draw(st.integers(3, 6) if executable else st.integers(1, 40))
    if want():
        cfg["dtype"] = draw(st.sampled_from(["float32", "float64", "float"])) if not executable \
            else "float32" if pick == "all" else draw(st.sampled_from(["float32", "float64"]))
    if want():
        cfg["measurement_cutoff"] = draw(st.integers(3, 6) if executable else st.integers(1, 50))
    if want():
        cfg["hbar"] = draw(st.sampled_from([1.0, 0.5, 1.7, 2.0, 3.0])) if executable else \
            draw(st.one_of(st.floats(1e-300, 1e300, allow_nan=False), st.integers(1, 9)))
    if want() and not executable:
        cfg["seed_sequence"] = draw(st.integers(0, 2**64))
    if want():
        cfg["use_torontonian"] = draw(st.booleans()) if pick != "all" else True
    if want():
        cfg["cache_size"] = draw(st.integers(0, 100)) if pick != "all" else 7
    if want():
        cfg["validate"] = draw(st.booleans()) if pick != "all" else False
    if want() and not executable:
        cfg["use_dask"] = draw(st.booleans()) if pick != "all" else True
    if want():
        cfg["max_sample_generation_trials"] = draw(st.integers(1, 5000)) if pick != "all" else 77
    return cfg


def make_config(cfg):
    kw = dict(cfg)
    if "dtype" in kw:
        kw["dtype"] = {"float32": np.float32, "float64": np.float64, "float": float}[kw["dtype"]]
    return pq.Config(**kw)


def make_sim(sim):
    cls = getattr(pq, SIMS[sim["kind"]])
    kw = {}
    if sim.get("d") is not None:
        kw["d"] = sim["d"]
    if sim.get("config") is not None:
        kw["config"] = make_config(sim["config"])
    with warnings.catch_warnings():
        warnings.simplefilter("ignore")
        return cls(**kw)


CONFIG_FIELDS = ["cutoff", "dtype", "measurement_cutoff", "hbar", "use_torontonian",
                 "cache_size", "validate", "use_dask", "max_sample_generation_trials"]


def check_config(cfg, want, got, where):
    """Field-by-field comparison with the description (not only Config.__eq__)."""
    exp = dict(CONFIG_DEFAULTS)
    exp.update(cfg or {})
    exp["dtype"] = {"float32": np.float32, "float64": np.float64, "float": np.float64}[exp["dtype"]]
    for f in CONFIG_FIELDS:
        e = exp[f] if not (f == "cutoff" and exp[f] is None) else 4
        g = getattr(got, f)
        if not (g == e and (f == "dtype" or type(g) is type(e) or isinstance(g, (int, float)))):
            raise Violation(f"C18:{where}:config-field:{f}",
                            f"Config.{f} described as {e!r}, reproduced as {g!r}")
    if got._original_seed_sequence != exp["seed_sequence"]:
        raise Violation(f"C18:{where}:config-field:seed_sequence",
                        f"seed_sequence {exp['seed_sequence']!r} reproduced as "
                        f"{got._original_seed_sequence!r}")
    if exp["seed_sequence"] is not None and got.seed_sequence != exp["seed_sequence"]:
        raise Violation(f"C18:{where}:config-field:seed_sequence",
                        f"effective seed {got.seed_sequence!r} != {exp['seed_sequence']!r}")
    if not (got == want) or not (want == got):
        raise Violation(f"C18:{where}:config-eq", f"config {want!r} reproduced as {got!r}")


def run_generated(code, where):
    ns: dict = {}
    try:
        with warnings.catch_warnings():
            warnings.simplefilter("ignore")
            exec(compile(code, "<as_code>", "exec"), ns)  # noqa: S102
    except Exception as e:  # noqa: BLE001
        detail = ""
        if isinstance(e, NameError):
            nm = getattr(e, "name", "") or ""
            detail = ":dtype-name" if hasattr(np, nm) and isinstance(getattr(np, nm), type) \
                else ":free-name"
        elif isinstance(e, TypeError) and "shape" in str(e):
            detail = ":summarised-array"
        elif isinstance(e, SyntaxError):
            detail = ""
        lines = [ln for ln in code.splitlines() if "pq.Q(" in ln or "simulator =" in ln]
        raise Violation(f"C18:{where}:exec-raises:{type(e).__name__}{detail}",
                        f"{type(e).__name__}: {str(e)[:200]}\ngenerated code (excerpt):\n"
                        + "\n".join(ln[:160] for ln in lines[:6]))
    for name in ("program", "simulator", "result"):
        if name not in ns:
            raise Violation(f"C18:{where}:missing-name", f"generated code defines no `{name}`")
    return ns


@st.composite
def code_case(draw):
    d = draw(st.integers(1, 4))
    n = draw(st.integers(0, 6))
    names = sorted(CODE_CAT)
    pool = draw(st.sampled_from([names, names, ARRAY_GATES, sorted(BB)]))
    insts = [draw(code_inst(d, pool)) for _ in range(n)]
    rare = draw(st.integers(0, 39))
    if rare <= 1:  # above NumPy's summarisation threshold (1000 elements); kept rare for speed
        big = draw(st.sampled_from([[32, 32], [26, 40], [1, 1001], [34, 34]]))
        inst = draw(code_inst(d, ["Mean", "Covariance", "SNAP", "Interferometer"], big))
        for v in inst["p"].values():
            if v["k"] == "arr" and v["dtype"] == "int64":
                v["dtype"], v["style"] = "float64", "full"
        insts.insert(draw(st.integers(0, len(insts))), inst)
    elif rare == 2:  # 1-D empty and 0-d arrays
        shape = draw(st.sampled_from([[0], []]))
        a = draw(arr_desc(shape))
        a.pop("specials", None)
        insts.append({"g": draw(st.sampled_from(["Mean", "SNAP"])), "modes": None, "p": {}})
        insts[-1]["p"] = {"mean" if insts[-1]["g"] == "Mean" else "theta": a}
        if insts[-1]["g"] == "SNAP":
            insts[-1]["modes"] = [0]
    sim = {"kind": draw(st.sampled_from(sorted(SIMS))),
           "d": draw(st.sampled_from([None, d, d, d + 2])),
           "config": draw(st.one_of(st.none(), config_desc()))}
    return {"insts": insts, "sim": sim, "shots": draw(st.sampled_from([1, 1, 7, 1000, None]))}


def array_count(descs):
    n = 0
    for d in descs:
        for v in d["p"].values():
            if v["k"] == "arr":
                n += 1
    return n


class _StubResult:
    pass


def as_code_static(case, ctx, where):
    """as_code + exec with `execute` stubbed out: only construction is reproduced."""
    descs = case["insts"]
    program = make_program(descs)
    sim = make_sim(case["sim"])
    snap = snapshot(program.instructions)
    try:
        code = pq.as_code(program, sim, case["shots"])
    except Exception as e:  # noqa: BLE001
        raise Violation(f"C18:{where}:as_code-raises:{type(e).__name__}", f"{e!r}")
    check_unchanged(program.instructions, snap, f"C18:{where}:mutates-program", "after as_code")
    if not code.endswith(f"result = simulator.execute(program, shots={case['shots']})\n"):
        raise Violation(f"C18:{where}:shots", f"last line: {code.splitlines()[-1]!r}")
    # construction only: replace the execute line (programs here are not executable)
    static = code.rsplit("result = ", 1)[0] + "result = None\n"
    ns = run_generated(static, where)
    p2, s2 = ns["program"], ns["simulator"]
    if type(p2) is not pq.Program:
        raise Violation(f"C18:{where}:program-class", f"{type(p2)!r}")
    compare_instructions(program.instructions, p2.instructions, where)
    if type(s2) is not type(sim):
        raise Violation(f"C18:{where}:simulator-class",
                        f"{type(sim).__name__} reproduced as {type(s2).__module__}."
                        f"{type(s2).__name__}")
    if s2.d != case["sim"].get("d"):
        raise Violation(f"C18:{where}:simulator-d", f"d={case['sim'].get('d')} -> {s2.d}")
    check_config(case["sim"].get("config"), sim.config, s2.config, where)


def prop_as_code(case, ctx):
    descs = case["insts"]
    cfg = case["sim"].get("config") or {}
    classes = ["code", f"code_sim_{case['sim']['kind']}"]
    na = array_count(descs)
    if na:
        classes.append("code_array_param")
    arrs = [v for d in descs for v in d["p"].values() if v["k"] == "arr"]
    if any(v.get("style") == "full" or v.get("entries") == "full"
           or (v.get("style") == "unitary" and v.get("kind") == "haar") for v in arrs):
        classes.append("code_full_precision_array")
    if any(v.get("dtype") in ("float32", "complex64") for v in arrs):
        classes.append("code_f32_c64_array")
    if any(int(np.prod(v["shape"])) > 1000 for v in arrs):
        classes.append("code_large_array")
    if any(0 in v["shape"] or not v["shape"] for v in arrs):
        classes.append("code_empty_or_0d_array")
    if any(v["k"] == "str" for d in descs for v in d["p"].values()):
        classes.append("code_str_param")
    if case["sim"].get("d") is None:
        classes.append("code_d_none")
    if len(cfg) >= 9:
        classes.append("code_config_all_fields")
    elif cfg:
        classes.append("code_config_some_fields")
    for f in cfg:
        classes.append(f"code_cfg_{f}")
    if any(d["modes"] is None or d["modes"] == [] for d in descs):
        classes.append("code_modeless_instruction")
    multi = any(d["modes"] and len(d["modes"]) >= 2 for d in descs)
    floats = any(v["k"] in ("float", "f64", "f32") for d in descs for v in d["p"].values())
    ctx.case(case, len(descs) >= 3 and floats and multi, classes)
    as_code_static(case, ctx, "as_code")


# ---- executable programs: same result under the same seed

EXEC_GATES = {
    "G": ["Phaseshifter", "Beamsplitter", "MachZehnder", "Fourier", "Beamsplitter5050",
          "Squeezing", "QuadraticPhase", "Squeezing2", "Displacement", "PositionDisplacement",
          "MomentumDisplacement", "ControlledX", "ControlledZ", "Interferometer"],
    "PF": ["Phaseshifter", "Beamsplitter", "MachZehnder", "Fourier", "Beamsplitter5050",
           "Squeezing", "Displacement", "Kerr", "CrossKerr", "CubicPhase", "Interferometer"],
    "F": ["Phaseshifter", "Beamsplitter", "Fourier", "Squeezing", "Displacement", "Kerr",
          "Interferometer"],
    "P": ["Phaseshifter", "Beamsplitter", "MachZehnder", "Fourier", "Beamsplitter5050",
          "Interferometer"],
}


@st.composite
def exec_case(draw):
    kind = draw(st.sampled_from(["G", "PF", "PF", "F", "P"]))
    d = draw(st.integers(2, 3))
    cfg = draw(config_desc(executable=True))
    cfg.setdefault("cutoff", 4)
    if kind == "F":
        cfg["cutoff"] = min(cfg["cutoff"], 4)
    insts = []
    if kind == "P":
        occ = draw(progs.occupation(d, min(3, cfg["cutoff"] - 1)))
        insts.append({"g": "NumberState", "modes": None, "p": {"occupation_numbers":
                                                                {"k": "tuple", "v": occ}}})
    elif kind == "PF" and draw(st.booleans()):
        occ = draw(progs.occupation(d, min(2, cfg["cutoff"] - 1)))
        insts.append({"g": "NumberState", "modes": None, "p": {"occupation_numbers":
                                                                {"k": "tuple", "v": occ}}})
    else:
        insts.append({"g": "Vacuum", "modes": None, "p": {}})
    for _ in range(draw(st.integers(1, 5))):
        g = draw(progs.gate(d, EXEC_GATES[kind], scale=0.5))
        if g["g"] == "Interferometer":
            k = len(g["modes"])
            ukind = draw(st.sampled_from(["haar", "haar", "real", "diag", "perm", "identity"]))
            # low-precision dtypes only where the cast is exact (stays unitary)
            dts = (["complex128", "float64", "int64", "complex64", "float32"]
                   if ukind in ("perm", "identity") else
                   ["float64", "complex128"] if ukind == "real" else ["complex128"])
            p = {"matrix": {"k": "arr", "shape": [k, k], "seed": g["p"]["seed"],
                            "style": "unitary", "kind": ukind, "dtype": draw(st.sampled_from(dts))}}
        else:
            p = {}
            for n, v in g["p"].items():
                kk = draw(st.sampled_from(["float", "float", "float", "f64", "f64", "str"]))
                p[n] = {"k": "str", "v": repr(float(v))} if kk == "str" else {"k": kk, "v": v}
        insts.append({"g": g["g"], "modes": g["modes"], "p": p})
    measured = kind != "F" and draw(st.booleans())
    if measured:
        insts.append({"g": "ParticleNumberMeasurement", "modes": None, "p": {}})
    shots = draw(st.sampled_from([1, 3, 10])) if measured else 1
    return {"insts": insts, "sim": {"kind": kind, "d": d, "config": cfg}, "shots": shots}


def state_arrays(state):
    out = {}
    for name in ("state_vector", "density_matrix", "xpxp_mean_vector",
                 "xpxp_covariance_matrix", "fock_probabilities"):
        try:
            out[name] = np.asarray(getattr(state, name))
        except Exception:  # noqa: BLE001
            continue
    return out


def prop_as_code_exec(case, ctx):
    descs, kind = case["insts"], case["sim"]["kind"]
    cfg = case["sim"]["config"]
    measured = descs[-1]["g"] == "ParticleNumberMeasurement"
    classes = ["exec", f"exec_sim_{kind}"] + (["exec_sampled"] if measured else [])
    if any(v["k"] == "str" for d in descs for v in d["p"].values()):
        classes.append("exec_str_param")
    if any(v["k"] == "arr" and v.get("kind") in ("haar", "real", "diag")
           for d in descs for v in d["p"].values()):
        classes.append("exec_full_precision_unitary")
    if len(cfg) >= 8:
        classes.append("exec_config_all_fields")
    multi = any(d["modes"] and len(d["modes"]) >= 2 for d in descs)
    ctx.case(case, len(descs) >= 3 and multi, classes)
    program = make_program(descs)
    code = pq.as_code(program, make_sim(case["sim"]), case["shots"])
    try:
        ns = run_generated(code, "as_code_exec")
    except Violation as v:
        # is the program executable at all?  (generator error otherwise -> harness error)
        sim = make_sim(case["sim"])
        with warnings.catch_warnings():
            warnings.simplefilter("ignore")
            sim.execute(make_program(descs), shots=case["shots"])
        raise v
    compare_instructions(program.instructions, ns["program"].instructions, "as_code_exec")
    check_config(cfg, make_sim(case["sim"]).config, ns["simulator"].config, "as_code_exec")
    got = ns["result"]
    # direct execution: fresh seeded config created immediately before, as in the code
    sim = make_sim(case["sim"])
    with warnings.catch_warnings():
        warnings.simplefilter("ignore")
        want = sim.execute(make_program(descs), shots=case["shots"])
    if list(map(tuple, want.samples)) != list(map(tuple, got.samples)):
        raise Violation(f"C18:as_code_exec:samples:{kind}",
                        f"direct samples {want.samples} != generated-code samples {got.samples}")
    if len(want.branches) != len(got.branches):
        raise Violation(f"C18:as_code_exec:branches:{kind}",
                        f"{len(want.branches)} branches vs {len(got.branches)}")
    for bw, bg in zip(want.branches, got.branches):
        if tuple(bw.outcome) != tuple(bg.outcome) or bw.frequency != bg.frequency:
            raise Violation(f"C18:as_code_exec:branches:{kind}",
                            f"branch ({bw.outcome}, {bw.frequency}) vs ({bg.outcome}, {bg.frequency})")
        a, b = state_arrays(bw.state), state_arrays(bg.state)
        if sorted(a) != sorted(b):
            raise Violation(f"C18:as_code_exec:state-kind:{kind}", f"{sorted(a)} vs {sorted(b)}")
        for name in a:
            if a[name].shape != b[name].shape or (
                a[name].size and np.max(np.abs(a[name] - b[name])) > 1e-12
            ):
                raise Violation(f"C18:as_code_exec:state:{kind}",
                                f"{name} of the generated-code result differs from the direct run")


# ---- regression probes of the repaired as_code defects (one bucket per root cause)

def region_cases(tier):
    """Deterministic cases of the four as_code defects repaired in /repo 195aeff, plus
    1-D empty / 0-d arrays."""
    sim = {"kind": "G", "d": 3, "config": None}
    out = []

    def arr(shape, seed, dtype, style):
        return {"k": "arr", "shape": list(shape), "seed": seed, "dtype": dtype, "style": style}

    def add(region, g, modes, p):
        out.append({"region": region, "insts": [{"g": g, "modes": modes, "p": p}],
                    "sim": sim, "shots": 1})

    n = 4 if tier == "quick" else 40
    for seed in range(n):
        dt = ["complex128", "float64"][seed % 2]
        k = 1 + seed % 3
        add("full", "Interferometer", list(range(k)), {"matrix": arr((k, k), seed, dt, "full")})
        add("full", "Mean", None, {"mean": arr((2 * k,), seed, "float64", "full")})
        add("full", "Covariance", None, {"cov": arr((2 * k, 2 * k), seed, "float64", "full")})
        add("full", "SNAP", [0], {"theta": arr((k + 2,), seed, "float64", "full")})
        add("full", "GaussianTransform", list(range(k)),
            {"passive": arr((k, k), seed, "complex128", "full"),
             "active": arr((k, k), seed + 1, "complex128", "short")})
    for seed in range(max(2, n // 2)):
        for dt in ("float32", "complex64"):
            add("dtype", "Interferometer", [0, 1], {"matrix": arr((2, 2), seed, dt, "int")})
            add("dtype", "Mean", None, {"mean": arr((4,), seed, dt, "short")})
    for shape, g, key, modes in (((32, 32), "Interferometer", "matrix", list(range(32))),
                                 ((1001,), "Mean", "mean", None),
                                 ((1, 1001), "Covariance", "cov", None),
                                 ((40, 40), "Covariance", "cov", None)):
        for dt in ("float64", "complex128"):
            add("large", g, modes, {key: arr(shape, 5, dt, "short")})
    for src in ("x[0]", "x[-1] * 0.5", "0.5"):
        add("str", "Phaseshifter", [0], {"phi": {"k": "str", "v": src}})
    for shape in ([0], []):
        for dt in ("float64", "float32", "complex128"):
            add("degenerate", "Mean", None, {"mean": arr(shape, 1, dt, "full")})
    return out


REGION_BUCKETS = {
    # (region, bucket raised by the generic oracle) -> bucket naming the root cause
    ("full", "C18:as_code:param-value:array-values"): "C18:as_code:array-precision",
    ("dtype", "C18:as_code:exec-raises:NameError:dtype-name"): "C18:as_code:array-dtype-name",
    ("large", "C18:as_code:exec-raises:TypeError:summarised-array"): "C18:as_code:array-summarised",
    ("large", "C18:as_code:exec-raises:SyntaxError"): "C18:as_code:array-summarised",
    ("large", "C18:as_code:param-value:array-shape"): "C18:as_code:array-summarised",
    ("large", "C18:as_code:param-value:array-dtype"): "C18:as_code:array-summarised",
    ("str", "C18:as_code:exec-raises:NameError:free-name"): "C18:as_code:string-parameter",
    ("str", "C18:as_code:param-value:str"): "C18:as_code:string-parameter",
}


def prop_as_code_regions(case, ctx):
    ctx.case(case, True, ["region", f"region_{case['region']}"])
    try:
        as_code_static(case, ctx, "as_code")
    except Violation as v:
        b = REGION_BUCKETS.get((case["region"], v.bucket))
        if b is None:
            raise
        raise Violation(b, v.message)


# ============================================================================ (c) from_dict


@st.composite
def static_case(draw):
    d = draw(st.integers(1, 4))
    n = draw(st.integers(0, 6))
    names = sorted(CODE_CAT)
    pool = draw(st.sampled_from([names, names, ARRAY_GATES]))
    return {"insts": [draw(code_inst(d, pool)) for _ in range(n)]}


def static_classes(descs, tag):
    classes = [tag]
    if array_count(descs):
        classes.append(f"{tag}_array_param")
    multi = any(d["modes"] and len(d["modes"]) >= 2 for d in descs)
    floats = any(v["k"] in ("float", "f64", "f32") for d in descs for v in d["p"].values())
    return classes, len(descs) >= 3 and floats and multi


def prop_from_dict(case, ctx):
    descs = case["insts"]
    classes, nt = static_classes(descs, "dict")
    ctx.case(case, nt, classes)
    direct = make_program(descs)
    literal = {"instructions": [
        {"type": d["g"],
         "attributes": {"constructor_kwargs": {k: build_value(v) for k, v in d["p"].items()},
                        "modes": list(d["modes"] or [])}}
        for d in descs]}
    try:
        with warnings.catch_warnings():
            warnings.simplefilter("ignore")
            got = pq.Program.from_dict(literal)
    except Exception as e:  # noqa: BLE001
        raise Violation(f"C18:from_dict:raises:{type(e).__name__}", f"{e!r}")
    if type(got) is not pq.Program:
        raise Violation("C18:from_dict:program-class", repr(type(got)))
    compare_instructions(direct.instructions, got.instructions, "from_dict")
    # the literal itself is not consumed
    for d, e in zip(descs, literal["instructions"]):
        if e["type"] != d["g"] or e["attributes"]["modes"] != list(d["modes"] or []):
            raise Violation("C18:from_dict:mutates-input", "the dict literal was modified")
    # Observation, not asserted: from_dict stores the modes in the container it was given (a
    # list for the documented JSON-shaped literal), so `Instruction.__eq__` with the directly
    # built instruction (tuple modes) is False.  tests/api/program/test_parsing.py pins
    # `.modes == [0, 1]`, i.e. upstream treats the list as intended: counted only.
    try:
        if any(not (a == b) for a, b in zip(direct.instructions, got.instructions)):
            ctx.count("dict_eq_false_because_modes_is_a_list")
    except ValueError:
        # Instruction.__eq__ compares the params dicts with ==, which raises for array
        # parameters once the modes agree (second observation, not part of C18)
        ctx.count("dict_eq_raises_on_array_params")


# ============================================================================ (d) copy


def arrays_of(x):
    if isinstance(x, np.ndarray):
        yield x
    elif isinstance(x, dict):
        for v in x.values():
            yield from arrays_of(v)
    elif isinstance(x, (list, tuple)):
        for v in x:
            yield from arrays_of(v)


def prop_copy(case, ctx):
    descs = case["insts"]
    classes, nt = static_classes(descs, "copy")
    ctx.case(case, nt, classes)
    program = make_program(descs)
    snap = snapshot(program.instructions)
    try:
        cp = program.copy()
        icp = [i.copy() for i in program.instructions]
    except Exception as e:  # noqa: BLE001
        raise Violation(f"C18:copy:raises:{type(e).__name__}", f"{e!r}")
    if type(cp) is not pq.Program or cp is program or cp.instructions is program.instructions:
        raise Violation("C18:copy:not-a-new-program", "copy() returned the same program / list")
    for where, new in (("copy", cp.instructions), ("copy:instruction", icp)):
        compare_instructions(program.instructions, new, where, modes_exact_type=True)
        for i, (a, b) in enumerate(zip(program.instructions, new)):
            if a is b or a.params is b.params:
                raise Violation(f"C18:{where}:shared-object",
                                f"instruction {i} / its params dict is shared with the copy")
            for x in arrays_of(a.params):
                for y in arrays_of(b.params):
                    if np.shares_memory(x, y):
                        raise Violation(f"C18:{where}:shared-array",
                                        f"instruction {i} {type(a).__name__}: array memory is shared")
            for pa, pb in zip(a.params.values(), b.params.values()):
                if isinstance(pa, (dict, list)) and pa is pb:
                    raise Violation(f"C18:{where}:shared-container",
                                    f"instruction {i} {type(a).__name__}: container shared")
    # independence: wreck the copies, the original must not move
    for new in (cp.instructions, icp):
        for b in new:
            for y in arrays_of(b.params):
                if y.size and y.flags.writeable:
                    y.flat[0] = 12345
            for k in list(b.params):
                if isinstance(b.params[k], dict):
                    b.params[k].clear()
                elif isinstance(b.params[k], list):
                    b.params[k].append(1.0)
                else:
                    b.params[k] = "overwritten"
            b._modes = (99,)
    cp.instructions.clear()
    check_unchanged(program.instructions, snap, "C18:copy:not-independent",
                    "after modifying the copies")


# ============================================================================ (e) nesting

NEST_SCALAR = ["Phaseshifter", "Beamsplitter", "Squeezing", "Kerr", "MachZehnder",
               "CrossKerr", "Fourier", "Displacement"]
NEST_MODELESS = ["Vacuum", "ParticleNumberMeasurement"]


@st.composite
def nest_inst(draw, d):
    k = draw(st.integers(0, 9))
    if k == 0:
        return {"g": draw(st.sampled_from(NEST_MODELESS)), "modes": None, "p": {}}
    if k == 1:
        modes = draw(progs.ordered_modes(d))
        return {"g": "Interferometer", "modes": modes,
                "p": {"matrix": {"k": "arr", "shape": [len(modes)] * 2, "style": "short",
                                 "dtype": "complex128", "seed": draw(st.integers(0, 2**32))}}}
    names = [n for n in NEST_SCALAR if BB[n][2] <= d]
    name = draw(st.sampled_from(names))
    _, pnames, arity = BB[name]
    modes = draw(progs.ordered_modes(d, arity))
    p = {n: {"k": "float", "v": draw(st.floats(-3, 3, allow_nan=False))} for n in pnames}
    return {"g": name, "modes": modes, "p": p}


@st.composite
def nest_case(draw):
    d = draw(st.integers(1, 4))
    inner = [draw(nest_inst(d)) for _ in range(draw(st.integers(1, 5)))]
    depth = draw(st.integers(1, 3))
    levels = []
    for _ in range(depth):
        if draw(st.integers(0, 7)) == 0:
            reg, d_next = [], d
        else:
            d_next = d + draw(st.integers(0, 2))
            reg = list(draw(st.permutations(list(range(d_next))))[:d])
        lvl = {"reg": reg,
               "pre": [draw(nest_inst(d_next)) for _ in range(draw(st.integers(0, 1)))],
               "post": [draw(nest_inst(d_next)) for _ in range(draw(st.integers(0, 1)))]}
        if draw(st.integers(0, 2)) == 0:
            lvl["reg2"] = list(draw(st.permutations(list(range(d_next))))[:d])
        levels.append(lvl)
        d = d_next
    return {"inner": inner, "levels": levels}


def map_modes(reg, modes):
    if len(reg) == 0:
        return tuple(modes)
    if len(modes) == 0:
        return tuple(reg)
    return tuple(reg[m] for m in modes)


def build_with(descs_and_programs):
    """A program built with the `with` syntax from (kind, payload) items."""
    with pq.Program() as p:
        for kind, payload in descs_and_programs:
            if kind == "inst":
                modes = payload["modes"] or []
                pq.Q(*modes) | make_inst({**payload, "modes": None})
            else:
                reg, prog = payload
                pq.Q(*reg) | prog
    return p


def prop_nesting(case, ctx):
    levels = case["levels"]
    nonidem = any(
        lvl["reg"] and any(lvl["reg"][m] < len(lvl["reg"]) and lvl["reg"][lvl["reg"][m]] != lvl["reg"][m]
                           or lvl["reg"][m] >= len(lvl["reg"])
                           for m in range(len(lvl["reg"])))
        for lvl in levels)
    twice = any("reg2" in lvl for lvl in levels)
    classes = ["nest", f"nest_depth_{len(levels)}"]
    if nonidem:
        classes.append("nest_nonidempotent")
    if twice:
        classes.append("nest_registered_twice")
    if any(not lvl["reg"] for lvl in levels):
        classes.append("nest_empty_register")
    if any(i["modes"] is None for i in case["inner"]):
        classes.append("nest_modeless_inner_instruction")
    ctx.case(case, len(levels) >= 2 and nonidem, classes)

    try:
        cur = build_with([("inst", i) for i in case["inner"]])
    except Exception as e:  # noqa: BLE001
        raise Violation(f"C18:nesting:inner-raises:{type(e).__name__}", f"{e!r}")
    compare_flat(cur.instructions, [(i, tuple(i["modes"] or [])) for i in case["inner"]],
                 "C18:nesting:flat-program")
    flat = [(i, tuple(i["modes"] or [])) for i in case["inner"]]
    built = [(cur, snapshot(cur.instructions))]
    for li, lvl in enumerate(levels):
        items = [("inst", i) for i in lvl["pre"]] + [("prog", (lvl["reg"], cur))]
        new_flat = [(i, tuple(i["modes"] or [])) for i in lvl["pre"]]
        new_flat += [(i, map_modes(lvl["reg"], m)) for i, m in flat]
        if "reg2" in lvl:
            items.append(("prog", (lvl["reg2"], cur)))
            new_flat += [(i, map_modes(lvl["reg2"], m)) for i, m in flat]
        items += [("inst", i) for i in lvl["post"]]
        new_flat += [(i, tuple(i["modes"] or [])) for i in lvl["post"]]
        try:
            nxt = build_with(items)
        except Exception as e:  # noqa: BLE001
            from piquasso.core import _context
            _context.program_stack.clear()
            raise Violation(f"C18:nesting:raises:{type(e).__name__}",
                            f"level {li + 1}, register {lvl['reg']}: {e!r}")
        compare_flat(nxt.instructions, new_flat, "C18:nesting:mapped-modes")
        # every program registered so far is untouched (modes, params, identity)
        for k, (prog, snap) in enumerate(built):
            check_unchanged(prog.instructions, snap, "C18:nesting:inner-modified",
                            f"program of level {k} after registering at level {li + 1}")
        built.append((nxt, snapshot(nxt.instructions)))
        cur, flat = nxt, new_flat
    # independence: no instruction object, params dict or array is shared between programs
    # or between the two registrations of the same inner program
    seen_i, seen_p = {}, {}
    arrays = []
    for k, (prog, _) in enumerate(built):
        for j, inst in enumerate(prog.instructions):
            for table, key in ((seen_i, id(inst)), (seen_p, id(inst.params))):
                if key in table:
                    raise Violation("C18:nesting:shared-instruction",
                                    f"level {k} instruction {j} ({type(inst).__name__}) is the "
                                    f"same object / params dict as level {table[key][0]} "
                                    f"instruction {table[key][1]}")
                table[key] = (k, j)
            for a in arrays_of(inst.params):
                for (k2, j2, a2) in arrays:
                    if np.shares_memory(a, a2):
                        raise Violation("C18:nesting:shared-array",
                                        f"level {k} instruction {j} shares array memory with "
                                        f"level {k2} instruction {j2}")
                arrays.append((k, j, a))
    # and modifying the outermost copies leaves everything below unchanged
    for inst in built[-1][0].instructions:
        for key in list(inst.params):
            if isinstance(inst.params[key], np.ndarray):
                inst.params[key][...] = 7
            else:
                inst.params[key] = -123.0
    for k, (prog, snap) in enumerate(built[:-1]):
        check_unchanged(prog.instructions, snap, "C18:nesting:copies-not-independent",
                        f"program of level {k} after modifying the outermost program")


def compare_flat(insts, flat, bucket):
    if len(insts) != len(flat):
        raise Violation(bucket, f"{len(flat)} instructions expected, {len(insts)} found")
    for j, (inst, (desc, modes)) in enumerate(zip(insts, flat)):
        if type(inst) is not getattr(pq, desc["g"]):
            raise Violation(bucket, f"instruction {j}: expected {desc['g']}, "
                                    f"found {type(inst).__name__}")
        if tuple(inst.modes) != tuple(modes) or not all(
            isinstance(m, (int, np.integer)) for m in inst.modes
        ):
            raise Violation(bucket, f"instruction {j} {desc['g']}: expected modes {modes} "
                                    f"(composition of the registers), found {inst.modes}")
        ref = make_inst({**desc, "modes": None})
        if list(ref.params) != list(inst.params):
            raise Violation(bucket, f"instruction {j} {desc['g']}: parameter names differ")
        for k in ref.params:
            d = diff_value(ref.params[k], inst.params[k])
            if d:
                raise Violation(bucket + ":params", f"instruction {j} {desc['g']}.{k}: {d[1]}")


# ============================================================================ (f) preparation algebra


def prep_scalar():
    mag = st.one_of(st.floats(0.1, 8, allow_nan=False, width=64),
                    st.sampled_from([0.5, 2.0, 3.0, 0.25, 1.0, 1 / 3, math.sqrt(0.5)]))
    sgn = st.sampled_from([1, 1, -1])
    real = st.tuples(mag, sgn).map(lambda t: t[0] * t[1])
    return st.one_of(
        real.map(lambda x: {"k": "float", "v": x}),
        st.sampled_from([1, 2, 3, -1, -2, 4]).map(lambda n: {"k": "int", "v": n}),
        st.tuples(real, real).map(lambda t: {"k": "cplx", "v": [t[0], t[1]]}),
        st.sampled_from([[0.0, 1.0], [0.0, -1.0], [0.5, 0.5], [1.0, 0.0]]).map(
            lambda v: {"k": "cplx", "v": v}),
        real.map(lambda x: {"k": "f64", "v": x}),
        st.tuples(real, real).map(lambda t: {"k": "c128", "v": [t[0], t[1]]}),
    )


@st.composite
def prep_leaf(draw, pool):
    if draw(st.booleans()):
        c = draw(st.one_of(st.none(), prep_scalar()))
        return {"t": "N", "occ": draw(st.sampled_from(pool)), "c": c}
    n = draw(st.integers(1, min(3, len(pool))))
    occs = draw(st.permutations(pool))[:n]
    amps = [draw(st.one_of(prep_scalar(), st.just({"k": "float", "v": 0.0})))
            if draw(st.integers(0, 9)) == 0 else draw(prep_scalar()) for _ in occs]
    c = draw(st.one_of(st.none(), st.none(), prep_scalar()))
    return {"t": "V", "map": [[o, a] for o, a in zip(occs, amps)], "c": c}


@st.composite
def prep_tree(draw, pool, leaves):
    def wrap(node):
        k = draw(st.integers(0, 9))
        if k <= 4:
            return node
        if k <= 7:
            return {"t": "mul", "x": node, "s": draw(prep_scalar()),
                    "side": draw(st.sampled_from(["L", "R"]))}
        return {"t": "div", "x": node, "s": draw(prep_scalar())}

    if leaves == 1:
        return wrap(draw(prep_leaf(pool)))
    nl = draw(st.integers(1, leaves - 1))
    node = {"t": "add", "l": draw(prep_tree(pool, nl)), "r": draw(prep_tree(pool, leaves - nl))}
    return wrap(node) if draw(st.integers(0, 2)) == 0 else node


@st.composite
def prep_case(draw):
    d = draw(st.integers(1, 3))
    npool = draw(st.integers(1, 4))
    pool, seen = [], set()
    for _ in range(npool):
        o = draw(progs.occupation(d, 3))
        if tuple(o) not in seen:
            seen.add(tuple(o))
            pool.append(o)
    leaves = draw(st.sampled_from([1, 2, 2, 3, 3, 3, 4, 4, 5, 5]))
    return {"d": d, "tree": draw(prep_tree(pool, leaves)), "rseed": draw(st.integers(0, 2**32))}


def frac_c(z):
    z = complex(z)
    return (Fraction(z.real), Fraction(z.imag))


def c_mul(a, b):
    return (a[0] * b[0] - a[1] * b[1], a[0] * b[1] + a[1] * b[0])


def c_div(a, b):
    n = b[0] * b[0] + b[1] * b[1]
    return c_mul(a, (b[0] / n, -b[1] / n))


def ref_eval(node):
    """Exact amplitude dictionary {occupation: (Fraction re, Fraction im)} and a bound on
    the sum of the magnitudes of all contributions (for the tolerance)."""
    t = node["t"]
    if t == "N":
        c = frac_c(build_value(node["c"])) if node["c"] is not None else (Fraction(1), Fraction(0))
        return {tuple(node["occ"]): c}, abs(complex(float(c[0]), float(c[1])))
    if t == "V":
        c = frac_c(build_value(node["c"])) if node["c"] is not None else (Fraction(1), Fraction(0))
        out, mag = {}, 0.0
        for o, a in node["map"]:
            v = c_mul(c, frac_c(build_value(a)))
            out[tuple(o)] = v
            mag += abs(complex(float(v[0]), float(v[1])))
        return out, mag
    if t == "add":
        a, ma = ref_eval(node["l"])
        b, mb = ref_eval(node["r"])
        out = dict(a)
        for k, v in b.items():
            out[k] = (out[k][0] + v[0], out[k][1] + v[1]) if k in out else v
        return out, ma + mb
    x, m = ref_eval(node["x"])
    s = frac_c(build_value(node["s"]))
    sm = abs(complex(build_value(node["s"])))
    if t == "mul":
        return {k: c_mul(v, s) for k, v in x.items()}, m * sm
    return {k: c_div(v, s) for k, v in x.items()}, m / sm


def pq_eval(node, stats, commute_f11=False):
    """Build the piquasso object of the tree from fresh leaves, exactly as written.
    `stats["f11"]` counts additions `NumberState + FockStateVector(coefficient != 1)` (the
    operand pattern of finding F11); `commute_f11` evaluates those in the commuted order and
    is used only to attribute a mismatch to that root cause."""
    t = node["t"]
    if t == "N":
        kw = {} if node["c"] is None else {"coefficient": build_value(node["c"])}
        return pq.NumberState(list(node["occ"]), **kw)
    if t == "V":
        kw = {} if node["c"] is None else {"coefficient": build_value(node["c"])}
        return pq.FockStateVector({tuple(o): build_value(a) for o, a in node["map"]}, **kw)
    if t == "add":
        left = pq_eval(node["l"], stats, commute_f11)
        right = pq_eval(node["r"], stats, commute_f11)
        trigger = (isinstance(left, pq.NumberState) and isinstance(right, pq.FockStateVector)
                   and right.params["coefficient"] != 1)
        if trigger:
            stats["f11"] += 1
            if commute_f11:
                return right + left
        return left + right
    x = pq_eval(node["x"], stats, commute_f11)
    s = build_value(node["s"])
    if t == "mul":
        return s * x if node["side"] == "L" else x * s
    return x / s


def effective_map(obj):
    if type(obj) is pq.NumberState:
        return {tuple(obj.params["occupation_numbers"]): complex(obj.params["coefficient"])}
    if type(obj) is pq.FockStateVector:
        c = complex(obj.params["coefficient"])
        return {tuple(k): c * complex(v) for k, v in obj.params["fock_amplitude_map"].items()}
    raise Violation("C18:prep:result-type", f"the expression evaluated to {type(obj)!r}")


def map_mismatch(ref, got, tol):
    for k in set(ref) | set(got):
        r = ref.get(k, (Fraction(0), Fraction(0)))
        g = complex(got.get(k, 0.0))
        if abs(g - complex(float(r[0]), float(r[1]))) > tol:
            return k, complex(float(r[0]), float(r[1])), g
    return None


def leaves_of(node):
    if node["t"] in ("N", "V"):
        return [node["t"]]
    if node["t"] == "add":
        return leaves_of(node["l"]) + leaves_of(node["r"])
    return leaves_of(node["x"])


def summands(node):
    if node["t"] == "add":
        return summands(node["l"]) + summands(node["r"])
    return [node]


def random_bracketing(items, rng):
    items = list(items)
    while len(items) > 1:
        i = int(rng.integers(0, len(items) - 1))
        items[i:i + 2] = [{"t": "add", "l": items[i], "r": items[i + 1]}]
    return items[0]


def show(node):
    t = node["t"]
    if t == "N":
        c = "" if node["c"] is None else f", {build_value(node['c'])!r}"
        return f"N({node['occ']}{c})"
    if t == "V":
        c = "" if node["c"] is None else f", {build_value(node['c'])!r}"
        m = ", ".join(f"{tuple(o)}: {build_value(a)!r}" for o, a in node["map"])
        return f"V({{{m}}}{c})"
    if t == "add":
        return f"({show(node['l'])} + {show(node['r'])})"
    if t == "mul":
        s = repr(build_value(node["s"]))
        return f"{s}*{show(node['x'])}" if node["side"] == "L" else f"{show(node['x'])}*{s}"
    return f"{show(node['x'])}/{build_value(node['s'])!r}"


def check_tree(tree, ref, tol, d, ctx, simulate):
    stats = {"f11": 0}
    try:
        with warnings.catch_warnings():
            warnings.simplefilter("ignore")
            obj = pq_eval(tree, stats)
    except Exception as e:  # noqa: BLE001
        raise Violation(f"C18:prep:raises:{type(e).__name__}", f"{show(tree)}: {e!r}")
    if stats["f11"]:
        ctx.count("prep_number_plus_weighted_vector_additions", stats["f11"])
    got = effective_map(obj)
    bad = map_mismatch(ref, got, tol)
    trig = False
    if bad and stats["f11"]:
        # root cause F11 iff the mismatch disappears when exactly those additions are commuted
        try:
            with warnings.catch_warnings():
                warnings.simplefilter("ignore")
                alt = effective_map(pq_eval(tree, {"f11": 0}, commute_f11=True))
            trig = map_mismatch(ref, alt, tol) is None
        except Exception:  # noqa: BLE001
            trig = False
    if bad:
        raise Violation(F11_BUCKET if trig else "C18:prep:effective-map",
                        f"{show(tree)} denotes amplitude {bad[1]!r} on |{bad[0]}> but the "
                        f"instruction holds {bad[2]!r} (effective map {got!r})")
    if not simulate:
        return
    cutoff = max([sum(k) for k in ref] + [0]) + 1
    basis = None
    for simname in ("PureFockSimulator", "SamplingSimulator"):
        with warnings.catch_warnings():
            warnings.simplefilter("ignore")
            sim = getattr(pq, simname)(d=d, config=pq.Config(cutoff=cutoff))
            with pq.Program() as program:
                pq.Q() | obj
            try:
                state = sim.execute(program).state
                vec = np.asarray(state.state_vector)
            except Exception as e:  # noqa: BLE001
                raise Violation(f"C18:prep:execute-raises:{simname}:{type(e).__name__}",
                                f"{show(tree)}: {e!r}")
        if basis is None:
            basis = progs.basis_tuples(pq, d, cutoff)
        if len(vec) != len(basis):
            raise Violation(f"C18:prep:state-size:{simname}", f"{len(vec)} != {len(basis)}")
        prepared = {b: complex(v) for b, v in zip(basis, vec) if v != 0}
        bad = map_mismatch(ref, prepared, tol)
        if bad:
            raise Violation(f"C18:prep:prepared-state:{simname}",
                            f"{show(tree)} denotes amplitude {bad[1]!r} on |{bad[0]}> but "
                            f"{simname} prepared {bad[2]!r}")


def has_f11_pattern(tree) -> bool:
    stats = {"f11": 0}
    try:
        with warnings.catch_warnings():
            warnings.simplefilter("ignore")
            pq_eval(tree, stats)
    except Exception:  # noqa: BLE001
        return False
    return stats["f11"] > 0


def prop_prep(case, ctx):
    tree, d = case["tree"], case["d"]
    kinds = leaves_of(tree)
    mixed3 = len(kinds) >= 3 and len(set(kinds)) == 2
    classes = ["prep", f"prep_leaves_{len(kinds)}"]
    if mixed3:
        classes.append("prep_mixed_ge3")
    if has_f11_pattern(tree):
        classes.append("prep_number_plus_weighted_vector")
    ctx.case(case, mixed3, classes)
    ref, mag = ref_eval(tree)
    tol = 1e-12 * max(1.0, mag)
    check_tree(tree, ref, tol, d, ctx, simulate=True)
    # every association / commutation of the same multiset of summands denotes the same state
    terms = summands(tree) if tree["t"] == "add" else None
    if terms and len(terms) >= 2:
        rng = progs.rng_of(case["rseed"])
        n_re = 6 if ctx.tier == "quick" else 12
        for r in range(n_re):
            order = [terms[i] for i in rng.permutation(len(terms))]
            other = random_bracketing(order, rng)
            ref2, mag2 = ref_eval(other)
            if map_mismatch(ref, {k: complex(float(v[0]), float(v[1])) for k, v in ref2.items()},
                            1e-15 * max(1.0, mag)):
                raise RuntimeError("oracle inconsistency: rearranged reference differs")
            ctx.count("prep_rearrangements")
            check_tree(other, ref, 1e-12 * max(1.0, mag2), d, ctx, simulate=(r == 0))


def f11_cases(tier):
    """Regression probe: NumberState-typed left operand + FockStateVector right operand with
    coefficient != 1.  The first entry is the minimal input of finding F11 (repaired)."""
    half = {"k": "float", "v": 0.5}
    one = {"k": "int", "v": 1}

    def N(occ, c=None):
        return {"t": "N", "occ": occ, "c": c}

    def V(m, c=None):
        return {"t": "V", "map": [[o, a] for o, a in m], "c": c}

    def add(a, b):
        return {"t": "add", "l": a, "r": b}

    weighted = {
        "lmul": lambda v, s: {"t": "mul", "x": v, "s": s, "side": "L"},
        "rmul": lambda v, s: {"t": "mul", "x": v, "s": s, "side": "R"},
        "div": lambda v, s: {"t": "div", "x": v, "s": s},
        "ctor": lambda v, s: {**v, "c": s},
    }
    out = []
    scalars = [half, {"k": "cplx", "v": [0.0, 1.0]}, {"k": "int", "v": 3},
               {"k": "f64", "v": -0.25}]
    for how, s_ in itertools.product(weighted, scalars):
        w = weighted[how]
        # disjoint support (the design's minimal input), overlapping support, longer sums
        out.append(add(N([1, 0]), w(V([([0, 1], one)]), s_)))
        out.append(add(N([0, 1], half), w(V([([0, 1], one), ([1, 0], {"k": "int", "v": 3})]), s_)))
        out.append(add(add(N([1, 0]), w(V([([0, 1], one)]), s_)), N([2, 0], half)))
        out.append(add(add(N([1, 0]), N([1, 0])), w(V([([0, 1], one)]), s_)))
    return [{"d": 2, "tree": t, "rseed": i} for i, t in enumerate(out)]


# ============================================================================ parts


def parts(tier):
    ps = [
        Part("blackbird", prop_blackbird, strategy=bb_case(),
             examples={"quick": 2400, "thorough": 60000}),
        Part("as_code", prop_as_code, strategy=code_case(),
             examples={"quick": 1600, "thorough": 40000}),
        Part("as_code_exec", prop_as_code_exec, strategy=exec_case(),
             examples={"quick": 240, "thorough": 6000}),
        Part("from_dict", prop_from_dict, strategy=static_case(),
             examples={"quick": 800, "thorough": 20000}),
        Part("copy", prop_copy, strategy=static_case(),
             examples={"quick": 800, "thorough": 20000}),
        Part("nesting", prop_nesting, strategy=nest_case(),
             examples={"quick": 1600, "thorough": 40000}),
        Part("prep", prop_prep, strategy=prep_case(),
             examples={"quick": 1600, "thorough": 50000}),
    ]
    ps += [
        Part("as_code_regions", prop_as_code_regions, kind="enum", cases=region_cases),
        Part("prep_f11", prop_prep, kind="enum", cases=f11_cases),
    ]
    return ps
