"""C01 — all bosonic simulators agree on photon-number statistics.

Families (DESIGN.md §2/C01):
  E  exact: number-conserving programs, cutoff in {n+1, n+2} (so cutoffs 1 and 2 occur),
     PureFock vs Fock vs Passive: probabilities, state vector, density matrix (1e-9).
  A  active Gaussian programs from vacuum: Gaussian simulator is exact, PF / F differ only
     by truncation; tolerance is the *derived* leak bound computed from the Gaussian
     simulator on every (Euler-expanded) prefix.
  K  PF vs F on the whole shared instruction set at every cutoff >= 1 (same truncated
     operators, so 1e-9), attenuation against an independent Kraus-operator reference.
  M  single-mode displacement / squeezing matrices vs expm of the generator.
"""

from __future__ import annotations

import math

import numpy as np
import scipy.linalg
from hypothesis import strategies as st

from lib import bootstrap, progs
from lib.harness import Part, Violation

pq = bootstrap.load()

from piquasso._math.decompositions import euler  # noqa: E402
from piquasso._simulators.connectors import NumpyConnector  # noqa: E402

PID = "C01"
LEVEL = "exploration"
SHARDS = {"quick": 16, "thorough": 16}
RULE = (
    "Hypothesis-generated program descriptions (d<=4, 1..8 gates, ordered mode subsets "
    "drawn as permutation prefixes, hbar in {0.5,1,2,3.7}, vacuum / number-state / "
    "superposition inputs) executed on every simulator that supports them and compared "
    "pairwise. Non-trivial = >=2 gates, >=1 gate on >=2 modes, final distribution not a "
    "point mass (max p < 0.999) and >=2 simulators compared; distinct by hash of the "
    "program description."
)
ASSUMPTIONS = [
    "family A: the Gaussian simulator is taken as exact; tolerance 2e+e^2+1e-7 with "
    "e = sum over Euler-expanded elementary factors of sqrt(leak above cutoff), leak measured "
    "on the Gaussian simulator; the cutoff is raised (up to 32/22/14/10 for d=1/2/3/4) until "
    "e <= 1e-6 where feasible",
    "family E/K: tolerance 1e-9 absolute on probabilities, amplitudes and density-matrix entries",
    "d<=4, cutoff<=10, float64 configs only",
]
FLOORS = {"nonascending_modes": 0.10}

HBARS = [0.5, 1.0, 2.0, 3.7]
NC = NumpyConnector()
TOL = 1e-9


def is_nontrivial(desc, probs, ncompared):
    gates = desc["gates"]
    return (
        len(gates) >= 2
        and any(len(g["modes"]) >= 2 for g in gates)
        and float(np.max(probs)) < 0.999
        and ncompared >= 2
    )


def classes_of(desc):
    cl = []
    if any(list(g["modes"]) != sorted(g["modes"]) for g in desc["gates"]):
        cl.append("nonascending_modes")
    if any(len(g["modes"]) >= 2 and max(g["modes"]) - min(g["modes"]) >= len(g["modes"])
           for g in desc["gates"]):
        cl.append("nonadjacent_modes")
    cl.append("prep_" + desc["prep"]["kind"])
    return cl


def maxdiff(a, b):
    a, b = np.asarray(a), np.asarray(b)
    if a.shape != b.shape:
        return float("inf")
    return float(np.max(np.abs(a - b))) if a.size else 0.0


# ------------------------------------------------------------------------ family E

@st.composite
def exact_case(draw):
    d = draw(st.integers(1, 4))
    nmax = draw(st.integers(0, 4))
    prep = draw(progs.prep(d, nmax))
    n = progs.prep_max_photons(prep, d)
    cutoff = n + draw(st.sampled_from([1, 1, 2]))
    names = progs.PASSIVE + progs.KERR
    gates = draw(st.lists(progs.gate(d, names), min_size=1, max_size=8))
    hbar = draw(st.sampled_from(HBARS))
    return {"d": d, "prep": prep, "gates": gates, "cutoff": cutoff, "hbar": hbar}


def run_or_violation(desc, kind, cutoff, hbar, what):
    try:
        return progs.run(pq, desc, kind, cutoff, hbar)
    except Exception as e:  # a valid shared program must run everywhere
        raise Violation(
            f"C01:{what}:{kind}:raises:{type(e).__name__}",
            f"{kind} raised {type(e).__name__}: {str(e)[:300]} on cutoff={cutoff} hbar={hbar}",
        )


def prop_exact(desc, ctx):
    d, c, hbar = desc["d"], desc["cutoff"], desc["hbar"]
    pf = run_or_violation(desc, "PF", c, hbar, "E")
    f = run_or_violation(desc, "F", c, hbar, "E")
    p = run_or_violation(desc, "P", c, hbar, "E")
    basis = progs.basis_tuples(pq, d, c)
    ppf = np.asarray(pf.fock_probabilities, dtype=float)
    pfk = np.asarray(f.fock_probabilities, dtype=float)
    pp = np.asarray(p.fock_probabilities, dtype=float)
    cl = classes_of(desc) + [f"cutoff_{min(c, 3)}{'+' if c >= 3 else ''}", "family_E"]
    ctx.case(desc, is_nontrivial(desc, ppf, 3), cl)
    for name, arr in (("F", pfk), ("P", pp)):
        if len(arr) != len(ppf):
            raise Violation(f"C01:E:prob-length:PF-vs-{name}",
                            f"{len(ppf)} vs {len(arr)} entries at d={d} cutoff={c}")
        if maxdiff(ppf, arr) > TOL:
            i = int(np.argmax(np.abs(ppf - arr)))
            raise Violation(f"C01:E:fock_probabilities:PF-vs-{name}",
                            f"|dp|={maxdiff(ppf, arr):.3e} at {basis[i]}: PF={ppf[i]:.12f} "
                            f"{name}={arr[i]:.12f}")
    if abs(ppf.sum() - 1) > 1e-9:
        raise Violation("C01:E:normalisation:PF", f"sum p = {ppf.sum()!r}")
    # single-outcome interface
    for i in range(0, len(basis), max(1, len(basis) // 12)):
        occ = basis[i]
        vals = {
            "PF": float(pf.get_particle_detection_probability(np.array(occ))),
            "F": float(f.get_particle_detection_probability(np.array(occ))),
            "P": float(p.get_particle_detection_probability(np.array(occ))),
        }
        for k, v in vals.items():
            if abs(v - ppf[i]) > TOL:
                raise Violation(f"C01:E:get_particle_detection_probability:{k}",
                                f"{occ}: {v!r} vs table {ppf[i]!r}")
    sv_pf = np.asarray(pf.state_vector)
    sv_p = np.asarray(p.state_vector)
    if maxdiff(sv_pf, sv_p) > TOL:
        raise Violation("C01:E:state_vector:PF-vs-P", f"max |d amp| = {maxdiff(sv_pf, sv_p):.3e}")
    dm_f = np.asarray(f.density_matrix)
    dm_pf = np.outer(sv_pf, sv_pf.conj())
    if maxdiff(dm_f, dm_pf) > TOL:
        raise Violation("C01:E:density_matrix:F-vs-PF", f"max = {maxdiff(dm_f, dm_pf):.3e}")
    dm_pfs = np.asarray(pf.density_matrix)
    if maxdiff(dm_pfs, dm_pf) > TOL:
        raise Violation("C01:E:density_matrix:PF-self", f"max = {maxdiff(dm_pfs, dm_pf):.3e}")
    dm_p = np.asarray(p.density_matrix)
    if maxdiff(dm_p, dm_pf) > TOL:
        raise Violation("C01:E:density_matrix:P-vs-PF", f"max = {maxdiff(dm_p, dm_pf):.3e}")
    # Gaussian simulator on passive-only programs from vacuum: stays vacuum
    if desc["prep"]["kind"] == "vacuum" and all(g["g"] in progs.PASSIVE for g in desc["gates"]):
        g = run_or_violation(desc, "G", c, hbar, "E")
        pg = np.asarray(g.fock_probabilities, dtype=float)
        if maxdiff(pg, ppf) > TOL:
            raise Violation("C01:E:fock_probabilities:G-vs-PF", f"{maxdiff(pg, ppf):.3e}")
        ctx.count("G_passive_vacuum")


# ------------------------------------------------------------------------ family A

def expand_euler(g, cutoff):
    """Elementary factors (as gate descriptions / raw tuples) of an active Gaussian gate."""
    name = g["g"]
    if name in progs.PASSIVE or name in progs.DISPLACE or name == "Squeezing":
        return [("gate", g)]
    inst = progs.make_gate(pq, g, cutoff)
    cfg = pq.Config()
    pas = np.asarray(inst._get_passive_block(NC, cfg))
    act = np.asarray(inst._get_active_block(NC, cfg))
    S = np.block([[pas, act], [act.conj(), pas.conj()]])
    try:
        u_last, sq, u_first = euler(S, NC)
    except Exception as e:  # the bound cannot be computed; the simulators are still run
        raise BoundUnavailable(repr(e))
    out = [("U", g["modes"], np.asarray(u_first))]
    for m, r in zip(g["modes"], np.asarray(sq)):
        out.append(("S", [m], float(np.real(r))))
    out.append(("U", g["modes"], np.asarray(u_last)))
    return out


class BoundUnavailable(Exception):
    pass


def gaussian_leaks(desc, cutoff, hbar):
    """Leak above the cutoff after every elementary factor, on the Gaussian simulator."""
    d = desc["d"]
    factors = []
    for g in desc["gates"]:
        factors.extend(expand_euler(g, cutoff))
    leaks = []
    sim = progs.make_simulator(pq, "G", d, cutoff, hbar)
    for k in range(1, len(factors) + 1):
        with pq.Program() as prog:
            pq.Q() | pq.Vacuum()
            for f in factors[:k]:
                if f[0] == "gate":
                    pq.Q(*f[1]["modes"]) | progs.make_gate(pq, f[1], cutoff)
                elif f[0] == "U":
                    pq.Q(*f[1]) | pq.Interferometer(f[2])
                else:
                    pq.Q(*f[1]) | pq.Squeezing(r=f[2], phi=0.0)
        st_ = sim.execute(prog).state
        leaks.append(max(0.0, 1.0 - float(np.sum(st_.fock_probabilities))))
    return leaks


@st.composite
def active_case(draw):
    d = draw(st.integers(1, 4))
    names = progs.PASSIVE + progs.ACTIVE_GAUSS + progs.DISPLACE
    # at least one active gate
    gates = draw(st.lists(progs.gate(d, names), min_size=1, max_size=6))
    act = draw(progs.gate(d, progs.ACTIVE_GAUSS + progs.DISPLACE))
    pos = draw(st.integers(0, len(gates)))
    gates = gates[:pos] + [act] + gates[pos:]
    hbar = draw(st.sampled_from(HBARS))
    return {"d": d, "prep": {"kind": "vacuum"}, "gates": gates, "hbar": hbar}


def scale_desc(desc, factor):
    out = {**desc, "gates": []}
    for g in desc["gates"]:
        p = dict(g["p"])
        for k in ("r", "s", "x", "p", "rmax"):
            if k in p and g["g"] not in progs.PASSIVE:
                p[k] = p[k] * factor
        out["gates"].append({**g, "p": p})
    return out


def choose_cutoff(desc, hbar, target=1e-6):
    try:
        return _choose_cutoff(desc, hbar, target)
    except BoundUnavailable:
        return desc, None, None


def _choose_cutoff(desc, hbar, target):
    """Smallest cutoff (on a coarse ladder) whose rigorous leak bound is below `target`;
    if none is, the largest feasible cutoff provided its bound is still below 2e-3.  A
    genuine discrepancy does not shrink with the cutoff, the truncation error does, so the
    bound is made small by going high rather than by an empirical safety factor.
    Otherwise the active parameters are halved (construction, not rejection)."""
    ladder = {1: [6, 10, 16, 24, 32], 2: [6, 10, 14, 18, 22], 3: [5, 8, 11, 14],
              4: [4, 6, 8, 10]}[desc["d"]]
    for _ in range(6):
        eps = None
        for c in ladder:
            leaks = gaussian_leaks(desc, c, hbar)
            eps = sum(math.sqrt(x) for x in leaks)
            if eps <= target:
                return desc, c, eps
        if eps is not None and eps <= 2e-3:
            return desc, ladder[-1], eps
        desc = scale_desc(desc, 0.5)
    return desc, None, None


def prop_active(case, ctx):
    hbar = case["hbar"]
    if "cutoff" in case:  # replay of a stored case
        desc, c = case, case["cutoff"]
        try:
            eps = sum(math.sqrt(x) for x in gaussian_leaks(desc, c, hbar))
        except BoundUnavailable:
            ctx.count("A_no_cutoff_found")
            return
    else:
        desc, c, eps = choose_cutoff(case, hbar)
        if c is None:
            ctx.count("A_no_cutoff_found")
            return
        desc = {**desc, "cutoff": c}
    tol = (2 * eps + eps * eps) + 1e-7  # rigorous: factors are Euler-expanded
    g = run_or_violation(desc, "G", c, hbar, "A")
    pf = run_or_violation(desc, "PF", c, hbar, "A")
    pg = np.asarray(g.fock_probabilities, dtype=float)
    ppf = np.asarray(pf.fock_probabilities, dtype=float)
    compared = 2
    pfk = None
    if math.comb(desc["d"] + c - 1, desc["d"]) <= 230:
        f = run_or_violation(desc, "F", c, hbar, "A")
        pfk = np.asarray(f.fock_probabilities, dtype=float)
        compared = 3
    cl = classes_of(desc) + ["family_A", f"hbar_{hbar}"]
    ctx.case(desc, is_nontrivial(desc, pg, compared), cl)
    basis = progs.basis_tuples(pq, desc["d"], c)
    if maxdiff(pg, ppf) > tol:
        i = int(np.argmax(np.abs(pg - ppf)))
        raise Violation("C01:A:fock_probabilities:G-vs-PF",
                        f"|dp|={maxdiff(pg, ppf):.3e} > bound {tol:.3e} at {basis[i]} "
                        f"(G={pg[i]:.9f}, PF={ppf[i]:.9f}, cutoff={c}, eps={eps:.2e})")
    if pfk is not None:
        if maxdiff(pfk, ppf) > TOL:
            raise Violation("C01:A:fock_probabilities:F-vs-PF", f"{maxdiff(pfk, ppf):.3e}")
        dm_f = np.asarray(f.density_matrix)
        sv = np.asarray(pf.state_vector)
        if maxdiff(dm_f, np.outer(sv, sv.conj())) > TOL:
            raise Violation("C01:A:density_matrix:F-vs-PF", "differs")
    # Gaussian density matrix vs PF outer product (same bound on entries)
    if math.comb(desc["d"] + c - 1, desc["d"]) <= 60:
        dm_g = np.asarray(g.density_matrix)
        sv = np.asarray(pf.state_vector)
        dm_pf = np.outer(sv, sv.conj())
        if dm_g.shape == dm_pf.shape and maxdiff(dm_g, dm_pf) > tol:
            raise Violation("C01:A:density_matrix:G-vs-PF",
                            f"max |d rho| = {maxdiff(dm_g, dm_pf):.3e} > {tol:.3e}")
        ctx.count("A_density_matrix_compared")
    for i in range(0, len(basis), max(1, len(basis) // 6)):
        v = float(g.get_particle_detection_probability(np.array(basis[i])))
        if abs(v - pg[i]) > 1e-9:
            raise Violation("C01:A:get_particle_detection_probability:G",
                            f"{basis[i]}: {v!r} vs table {pg[i]!r}")


# ------------------------------------------------------------------------ family K

def kraus_attenuate(rho, basis, mode, theta):
    """Independent reference: pure-loss channel with amplitude factor cos(theta).

    The documented Gaussian form of the channel is X = cos(theta)*I, i.e. amplitudes are
    multiplied by the *signed* cos(theta): for cos(theta) < 0 the loss is accompanied by a
    pi phase shift.  Kraus operators E_k = sqrt(C(n,k)) cos^(n-k) |sin|^k |n-k><n|.
    """
    ct, eta = math.cos(theta), math.cos(theta) ** 2
    index = {b: i for i, b in enumerate(basis)}
    out = np.zeros_like(rho)
    kmax = max(b[mode] for b in basis)
    for k in range(kmax + 1):
        E = np.zeros((len(basis), len(basis)))
        for b in basis:
            n = b[mode]
            if n < k:
                continue
            tgt = list(b)
            tgt[mode] = n - k
            E[index[tuple(tgt)], index[b]] = (
                math.sqrt(math.comb(n, k) * (1 - eta) ** k) * ct ** (n - k))
        out = out + E @ rho @ E.T
    return out


@st.composite
def shared_case(draw):
    d = draw(st.integers(1, 3))
    cutoff = draw(st.integers(1, 6))
    nmax = min(cutoff - 1, 3)
    prep = draw(progs.prep(d, nmax))
    names = (progs.PASSIVE + progs.ACTIVE_GAUSS + progs.DISPLACE + progs.KERR
             + progs.FOCK_ONLY)
    gates = draw(st.lists(progs.gate(d, names, scale=0.6), min_size=1, max_size=7))
    att = draw(st.one_of(st.none(), progs.gate(d, ["Attenuator"])))
    hbar = draw(st.sampled_from(HBARS))
    return {"d": d, "prep": prep, "gates": gates, "cutoff": cutoff, "hbar": hbar,
            "final_attenuator": att}


def prop_shared(desc, ctx):
    d, c, hbar = desc["d"], desc["cutoff"], desc["hbar"]
    pf = run_or_violation(desc, "PF", c, hbar, "K")
    f = run_or_violation(desc, "F", c, hbar, "K")
    ppf = np.asarray(pf.fock_probabilities, dtype=float)
    pfk = np.asarray(f.fock_probabilities, dtype=float)
    cl = classes_of(desc) + ["family_K", f"cutoff_{min(c, 3)}{'+' if c >= 3 else ''}"]
    if any(g["g"] in progs.KERR + progs.FOCK_ONLY for g in desc["gates"]):
        cl.append("K_nongaussian")
    ctx.case(desc, is_nontrivial(desc, ppf if ppf.sum() > 0 else np.ones(1), 2), cl)
    if maxdiff(ppf, pfk) > TOL:
        raise Violation("C01:K:fock_probabilities:PF-vs-F", f"{maxdiff(ppf, pfk):.3e}")
    sv = np.asarray(pf.state_vector)
    dm_f = np.asarray(f.density_matrix)
    if maxdiff(dm_f, np.outer(sv, sv.conj())) > TOL:
        raise Violation("C01:K:density_matrix:PF-vs-F",
                        f"{maxdiff(dm_f, np.outer(sv, sv.conj())):.3e}")
    att = desc.get("final_attenuator")
    if att is not None:
        basis = progs.basis_tuples(pq, d, c)
        ref = kraus_attenuate(np.outer(sv, sv.conj()), basis, att["modes"][0],
                              att["p"]["theta"])
        desc2 = {**desc, "gates": desc["gates"] + [att]}
        pf2 = run_or_violation(desc2, "PF", c, hbar, "K-att")
        f2 = run_or_violation(desc2, "F", c, hbar, "K-att")
        for name, s in (("PF", pf2), ("F", f2)):
            dm = np.asarray(s.density_matrix)
            if maxdiff(dm, ref) > 1e-9:
                raise Violation(f"C01:K:attenuator:{name}-vs-kraus",
                                f"max |d rho| = {maxdiff(dm, ref):.3e} theta={att['p']['theta']}")
            pr = np.asarray(s.fock_probabilities, dtype=float)
            if maxdiff(pr, np.real(np.diag(ref))) > 1e-9:
                raise Violation(f"C01:K:attenuator-probabilities:{name}", "differs")
        ctx.count("K_attenuator")


# ---------------------------------------------------- attenuation: Gaussian vs Fock

@st.composite
def att_gauss_case(draw):
    d = draw(st.integers(1, 3))
    names = progs.PASSIVE + progs.ACTIVE_GAUSS + progs.DISPLACE
    gates = draw(st.lists(progs.gate(d, names, scale=0.5), min_size=1, max_size=4))
    att = draw(progs.gate(d, ["Attenuator"]))
    hbar = draw(st.sampled_from(HBARS))
    return {"d": d, "prep": {"kind": "vacuum"}, "gates": gates, "att": att, "hbar": hbar}


def prop_att_gauss(case, ctx):
    hbar = case["hbar"]
    base = {k: case[k] for k in ("d", "prep", "gates", "hbar")}
    if "cutoff" in case:
        desc, c = base, case["cutoff"]
        try:
            eps = sum(math.sqrt(x) for x in gaussian_leaks(desc, c, hbar))
        except BoundUnavailable:
            ctx.count("A_no_cutoff_found")
            return
    else:
        desc, c, eps = choose_cutoff(base, hbar)
        if c is None:
            ctx.count("A_no_cutoff_found")
            return
    tol = (2 * eps + eps * eps) + 1e-7  # rigorous: factors are Euler-expanded
    full = {**desc, "gates": desc["gates"] + [case["att"]], "cutoff": c, "att": case["att"]}
    g = run_or_violation(full, "G", c, hbar, "AT")
    f = run_or_violation(full, "F", c, hbar, "AT")
    pg = np.asarray(g.fock_probabilities, dtype=float)
    pfk = np.asarray(f.fock_probabilities, dtype=float)
    ctx.case(full, is_nontrivial(full, pg, 2), classes_of(full) + ["family_AT"])
    if maxdiff(pg, pfk) > tol:
        raise Violation("C01:AT:attenuator:G-vs-F",
                        f"|dp|={maxdiff(pg, pfk):.3e} > {tol:.3e} theta={case['att']['p']['theta']}")


# ------------------------------------------------------------------------ family M

def ladder(n):
    return np.diag(np.sqrt(np.arange(1, n)), 1)


@st.composite
def matrix_case(draw):
    kind = draw(st.sampled_from(["displacement", "squeezing"]))
    # cutoff 1 is covered at API level by families A/K (the internal squeezing matrix has
    # a padded shape there, which is not observable through the simulators)
    c = draw(st.integers(1 if kind == "displacement" else 2, 12))
    if kind == "displacement":
        r = draw(st.floats(0, 1.5, allow_nan=False))
    else:
        r = draw(st.floats(-0.9, 0.9, allow_nan=False))
    phi = draw(progs.angle())
    return {"kind": kind, "cutoff": c, "r": r, "phi": phi}


def prop_matrix(case, ctx):
    from piquasso._math.fock import (
        get_single_mode_displacement_operator,
        get_single_mode_squeezing_operator,
    )

    c, r, phi = case["cutoff"], case["r"], case["phi"]
    big = c + 60
    a = ladder(big)
    if case["kind"] == "displacement":
        alpha = r * np.exp(1j * phi)
        ref = scipy.linalg.expm(alpha * a.T - np.conj(alpha) * a)[:c, :c]
        got = get_single_mode_displacement_operator(r, phi, c, np.complex128, NC)
    else:
        z = r * np.exp(1j * phi)
        ref = scipy.linalg.expm(0.5 * (np.conj(z) * a @ a - z * a.T @ a.T))[:c, :c]
        got = get_single_mode_squeezing_operator(r, phi, c, np.complex128, NC)
    ctx.case(case, c >= 3 and abs(r) > 1e-3, [f"matrix_{case['kind']}"])
    got = np.asarray(got)
    if got.shape != ref.shape:
        raise Violation(f"C01:M:{case['kind']}:shape", f"{got.shape} vs {ref.shape}")
    if maxdiff(got, ref) > 1e-8:
        i = np.unravel_index(int(np.argmax(np.abs(got - ref))), got.shape)
        raise Violation(f"C01:M:{case['kind']}:entries",
                        f"|d|={maxdiff(got, ref):.3e} at {i}: got {got[i]}, expm {ref[i]}")


def parts(tier):
    return [
        Part("exact", prop_exact, strategy=exact_case(),
             examples={"quick": 1200, "thorough": 20000}),
        Part("active", prop_active, strategy=active_case(),
             examples={"quick": 300, "thorough": 4000}),
        Part("shared", prop_shared, strategy=shared_case(),
             examples={"quick": 400, "thorough": 6000}),
        Part("attenuator_gaussian", prop_att_gauss, strategy=att_gauss_case(),
             examples={"quick": 120, "thorough": 2000}),
        Part("matrices", prop_matrix, strategy=matrix_case(),
             examples={"quick": 400, "thorough": 5000}),
    ]
