"""C02 — measurement samples follow the Born rule of the measured state.

For every sampling measurement the *exact* outcome distribution is obtained without the
sampler (another simulator, a probability interface on a different code path, or a closed
form), and the returned samples are compared with it:

  structural (deterministic, single draws suffice): number of samples, one entry per
  measured quantity in program order, integer typing, support (a sample with exact
  probability 0 is an immediate violation — catches mode-order bugs with one draw);
  statistical: two-stage G-test (N1 shots; if p < 1e-4 escalate to N2 = 10 N1 with a
  second seed; violation only if p2 < 1e-9 and total variation > 0.02), so the false
  alarm probability per case is < 1e-9;
  continuous outcomes: sample mean and covariance against mu and (sigma + sigma_m)/2 in
  the documented units (two-stage, 6-sigma / 8-sigma thresholds on every entry).
"""

from __future__ import annotations

import itertools
import math
import warnings

import numpy as np
import scipy.stats
from hypothesis import strategies as st

from lib import bootstrap, progs
from lib.harness import Part, Violation

pq = bootstrap.load()

from piquasso.api.exceptions import NotImplementedCalculation, PiquassoException  # noqa: E402

PID = "C02"
LEVEL = "exploration"
SHARDS = {"quick": 16, "thorough": 16}
RULE = (
    "Hypothesis-generated sampling scenarios: passive simulator (Haar / structured "
    "interferometers, d<=4, n<=4 incl. bunched inputs, loss none / uniform / per-mode "
    "before or after the interferometer, scalar overlaps 0 / 1 / intermediate, measured "
    "subsets in any order, shot counts on both sides of the marginal-sampling switch, dask "
    "on/off), pure Fock / Fock photon counting, Gaussian photon counting, threshold (both "
    "paths), homodyne / heterodyne / general-dyne, imperfect detectors. Exact law from an "
    "independent path (pure Fock simulation, classical thinning, probability interfaces, "
    "closed-form Gaussian moments). Non-trivial = exact distribution has >=3 outcomes with "
    "p>0.02 and is not uniform (discrete), or a correlated / displaced Gaussian state "
    "(continuous). Distinct by hash of the scenario."
)
ASSUMPTIONS = [
    "statistical decision: resolution TV ~ 0.02 at N2 shots; false alarm < 1e-9 per case",
    "for partially distinguishable (0 < overlap < 1) and lossy passive states the exact law is "
    "the state's own probability table (validated against the unitary dilation by C05)",
    "Gaussian photon counting is compared with the exact law only where the mass above "
    "measurement_cutoff is < 1e-3",
]
FLOORS = {}

N1 = {"quick": 1500, "thorough": 6000}
TIER = {"value": "quick"}


# ------------------------------------------------------------------------ statistics

def g_test(counts: dict, probs: dict, n: int):
    """p-value of the multinomial G-test with cells pooled to expected >= 5, and TV."""
    keys = sorted(set(counts) | set(probs))
    obs = np.array([counts.get(k, 0) for k in keys], dtype=float)
    exp = np.array([probs.get(k, 0.0) for k in keys], dtype=float) * n
    tv = 0.5 * float(np.sum(np.abs(obs / n - exp / n)))
    order = np.argsort(exp)
    obs, exp = obs[order], exp[order]
    pooled_o, pooled_e = [], []
    co = ce = 0.0
    for o, e in zip(obs, exp):
        co += o
        ce += e
        if ce >= 5:
            pooled_o.append(co)
            pooled_e.append(ce)
            co = ce = 0.0
    if ce > 0 or co > 0:
        if pooled_e:
            pooled_o[-1] += co
            pooled_e[-1] += ce
        else:
            pooled_o.append(co)
            pooled_e.append(ce)
    o, e = np.array(pooled_o), np.array(pooled_e)
    if len(o) < 2:
        return 1.0, tv
    e = e * o.sum() / e.sum()
    with np.errstate(divide="ignore", invalid="ignore"):
        g = 2 * np.sum(np.where(o > 0, o * np.log(o / e), 0.0))
    return float(scipy.stats.chi2.sf(g, len(o) - 1)), tv


def nontrivial_dist(probs: dict) -> bool:
    big = [p for p in probs.values() if p > 0.02]
    return len(big) >= 3 and max(big) - min(big) > 0.02


def guarded_sampler(sampler, what):
    def run(seed, shots):
        try:
            return sampler(seed, shots)
        except (Violation, PiquassoException):
            raise
        except Exception as e:  # noqa: BLE001 — a sampler must not crash on a valid state
            import traceback

            tb = traceback.extract_tb(e.__traceback__)[-1]
            raise Violation(f"C02:{what}:sampler-crash:{type(e).__name__}",
                            f"sampling {shots} shots (seed {seed}) raised {type(e).__name__}: "
                            f"{str(e)[:200]} at {tb.filename.split('/')[-1]}:{tb.name}")

    return run


def check_discrete(sampler, probs, what, ctx, n1):
    """sampler(seed, shots) -> list of tuples.  probs: exact law (dict outcome->p)."""
    sampler = guarded_sampler(sampler, what)
    s1 = sampler(101, n1)
    structural(s1, probs, n1, what)
    c = {}
    for s in s1:
        c[s] = c.get(s, 0) + 1
    p1, tv1 = g_test(c, probs, n1)
    if p1 >= 1e-4:
        return
    ctx.count("escalated_to_stage_2")
    n2 = 10 * n1
    s2 = sampler(202, n2)
    structural(s2, probs, n2, what)
    c = {}
    for s in s2:
        c[s] = c.get(s, 0) + 1
    p2, tv2 = g_test(c, probs, n2)
    if p2 < 1e-9 and tv2 > 0.02:
        top = sorted(probs, key=lambda k: -abs(probs[k] - c.get(k, 0) / n2))[:3]
        detail = ", ".join(f"{k}: exact {probs[k]:.4f} sampled {c.get(k, 0) / n2:.4f}" for k in top)
        raise Violation(f"C02:{what}:distribution",
                        f"samples do not follow the exact law (N={n2}, p={p2:.1e}, TV={tv2:.3f}); "
                        f"{detail}")


def structural(samples, probs, shots, what):
    if len(samples) != shots:
        raise Violation(f"C02:{what}:sample-count", f"{len(samples)} samples for shots={shots}")
    klen = len(next(iter(probs)))
    for s in samples[:200] + samples[-50:]:
        if len(s) != klen:
            raise Violation(f"C02:{what}:entries-per-sample",
                            f"sample {s} has {len(s)} entries, {klen} quantities were measured")
    support = {k for k, p in probs.items() if p > 1e-12}
    for s in samples:
        if s not in support:
            raise Violation(f"C02:{what}:sample-outside-support",
                            f"sample {s} has exact probability {probs.get(s, 0.0):.2e}")


def to_int_tuples(samples, what):
    out = []
    for s in samples:
        for x in s:
            if not isinstance(x, (int, np.integer)) and not (isinstance(x, float) and x == int(x)):
                raise Violation(f"C02:{what}:non-integer-outcome", f"sample {s!r}")
        out.append(tuple(int(x) for x in s))
    return out


# ------------------------------------------------------------------------ passive

def thin(probs: dict, etas, modes=None):
    """Classical thinning of photon counts: each photon in mode j survives w.p. etas[j]."""
    out = {}
    for occ, p in probs.items():
        if p == 0:
            continue
        ranges = []
        for j, n in enumerate(occ):
            eta = etas[j]
            ranges.append([(k, math.comb(n, k) * eta ** k * (1 - eta) ** (n - k))
                           for k in range(n + 1)])
        for combo in itertools.product(*ranges):
            w = p
            for _, q in combo:
                w *= q
            if w > 0:
                key = tuple(k for k, _ in combo)
                out[key] = out.get(key, 0.0) + w
    return out


def marginal(probs: dict, modes):
    out = {}
    for occ, p in probs.items():
        k = tuple(occ[m] for m in modes)
        out[k] = out.get(k, 0.0) + p
    return out


def pf_distribution(occ, unitary):
    d = len(occ)
    with pq.Program() as prog:
        pq.Q() | pq.NumberState(occ)
        pq.Q(*range(d)) | pq.Interferometer(unitary)
    st_ = pq.PureFockSimulator(d=d, config=pq.Config(cutoff=sum(occ) + 1)).execute(prog).state
    return {tuple(int(x) for x in k): float(v) for k, v in st_.fock_probabilities_map.items()
            if v > 1e-15}


@st.composite
def passive_case(draw):
    d = draw(st.integers(2, 4))
    n = draw(st.integers(1, 4))
    occ = [0] * d
    for _ in range(n):
        occ[draw(st.integers(0, d - 1))] += 1
    kind = draw(st.sampled_from(["haar", "haar", "haar", "real", "perm", "identity"]))
    loss = draw(st.sampled_from(["none", "none", "uniform", "input", "output"]))
    etas = [draw(st.sampled_from([1.0, 0.9, 0.6, 0.3, 0.0])) for _ in range(d)]
    if loss == "uniform":
        etas = [etas[0] if etas[0] > 0 else 0.5] * d
    overlap = draw(st.sampled_from([None, None, 1.0, 0.0, 0.5]))
    if loss in ("input", "output") and overlap not in (None, 1.0):
        overlap = None
    k = draw(st.integers(1, d))
    modes = draw(progs.ordered_modes(d, k))
    shots_regime = draw(st.sampled_from(["default", "few"]))
    return {"d": d, "occ": occ, "useed": draw(st.integers(0, 2**32)), "ukind": kind,
            "loss": loss, "etas": etas, "overlap": overlap, "modes": modes,
            "dask": draw(st.integers(0, 4)) == 0, "regime": shots_regime}


def passive_program(case):
    d, occ = case["d"], case["occ"]
    u = progs.haar_unitary(d, case["useed"], case["ukind"])
    with pq.Program() as prog:
        if case["overlap"] is None:
            pq.Q() | pq.NumberState(occ)
        else:
            pq.Q() | pq.DistinguishableNumberState(occ, particle_overlap=case["overlap"])
        # Loss is a single-mode gate; its parameter is the amplitude transmissivity t
        # (survival probability t**2)
        if case["loss"] == "input":
            for m in range(d):
                pq.Q(m) | pq.Loss(math.sqrt(case["etas"][m]))
        pq.Q(*range(d)) | pq.Interferometer(u)
        if case["loss"] == "output":
            for m in range(d):
                pq.Q(m) | pq.Loss(math.sqrt(case["etas"][m]))
        if case["loss"] == "uniform":
            pq.Q() | pq.UniformLoss(math.sqrt(case["etas"][0]))
        pq.Q(*case["modes"]) | pq.ParticleNumberMeasurement()
    return prog, u


def passive_exact(case, u):
    occ, d = case["occ"], case["d"]
    ov = case["overlap"]
    if ov in (None, 1.0):
        if case["loss"] == "input":
            inputs = thin({tuple(occ): 1.0}, case["etas"])
            full = {}
            for o, w in inputs.items():
                for k, p in pf_distribution(list(o), u).items():
                    full[k] = full.get(k, 0.0) + w * p
        else:
            full = pf_distribution(occ, u)
            if case["loss"] == "output":
                full = thin(full, case["etas"])
            elif case["loss"] == "uniform":
                full = thin(full, case["etas"])
        return marginal(full, case["modes"]), "independent"
    if ov == 0.0 and case["loss"] in ("none", "uniform"):
        # classical particles: independent single-photon walks
        single = np.abs(u) ** 2  # P(out j | in i) = |U_ji|^2
        full = {tuple([0] * d): 1.0}
        for i, n in enumerate(occ):
            for _ in range(n):
                new = {}
                for o, p in full.items():
                    for j in range(d):
                        oo = list(o)
                        oo[j] += 1
                        new[tuple(oo)] = new.get(tuple(oo), 0.0) + p * single[j, i]
                full = new
        if case["loss"] == "uniform":
            full = thin(full, case["etas"])
        return marginal(full, case["modes"]), "independent"
    return None, "table"


def prop_passive(case, ctx):
    tier = TIER["value"]
    n1 = N1[tier] if case["regime"] == "default" else 40
    with warnings.catch_warnings():
        warnings.simplefilter("ignore")
        prog, u = passive_program(case)
        exact, how = passive_exact(case, u)
        cfg = dict(cutoff=sum(case["occ"]) + 1, use_dask=case["dask"])

        def table():
            with pq.Program() as p2:
                for ins in prog.instructions[:-1]:
                    pq.Q(*ins.modes) | ins.copy() if ins.modes else pq.Q() | ins.copy()
            st_ = pq.PassiveSimulator(d=case["d"], config=pq.Config(**cfg)).execute(p2).state
            full = {tuple(int(x) for x in k): float(v)
                    for k, v in st_.fock_probabilities_map.items()}
            return marginal(full, case["modes"])

        try:
            if exact is None:
                exact = table()
            exact = {k: v for k, v in exact.items() if v > 1e-15}

            def sampler(seed, shots):
                sim = pq.PassiveSimulator(d=case["d"],
                                          config=pq.Config(seed_sequence=seed, **cfg))
                return to_int_tuples(sim.execute(prog, shots=shots).samples, "passive")

            what = "passive:" + ("lossy" if case["loss"] != "none" else "lossless") + (
                "" if case["overlap"] in (None, 1.0) else ":distinguishable")
            ctx.case(case, nontrivial_dist(exact),
                     [f"P_loss_{case['loss']}", f"P_overlap_{case['overlap']}", f"P_oracle_{how}",
                      "P_partial" if len(case["modes"]) < case["d"] else "P_full",
                      "P_scrambled" if case["modes"] != sorted(case["modes"]) else "P_ascending"]
                     + (["P_dask"] if case["dask"] else []))
            if case["regime"] == "few":
                s = sampler(7, n1)
                structural(s, exact, n1, what)
                return
            check_discrete(sampler, exact, what, ctx, n1)
        except NotImplementedCalculation:
            ctx.count("documented_unsupported")


# ------------------------------------------------------------------------ Fock samplers

@st.composite
def fock_case(draw):
    sim = draw(st.sampled_from(["PF", "F"]))
    d = draw(st.integers(1, 3))
    nmax = draw(st.integers(1, 3))
    prep = draw(progs.prep(d, nmax, kinds=("number", "superposition") if sim == "PF"
                           else ("number",)))
    names = progs.PASSIVE + progs.KERR + ["Squeezing", "Displacement"]
    gates = draw(st.lists(progs.gate(d, names, scale=0.5), min_size=1, max_size=4))
    cutoff = progs.prep_max_photons(prep, d) + draw(st.integers(1, 3))
    k = draw(st.integers(1, d))
    modes = draw(progs.ordered_modes(d, k))
    imperfect = draw(st.integers(0, 3)) == 0
    return {"sim": sim, "d": d, "prep": prep, "gates": gates, "cutoff": cutoff, "modes": modes,
            "imperfect": imperfect, "dseed": draw(st.integers(0, 2**16))}


def detector_matrix(seed, size):
    rng = progs.rng_of(seed)
    m = np.triu(rng.uniform(0.05, 1.0, size=(size, size)))
    m[0, 0] = 1.0
    return m / m.sum(axis=0, keepdims=True)


def apply_detector(probs: dict, mat):
    out = {}
    for occ, p in probs.items():
        opts = [[(n_det, mat[n_det, n]) for n_det in range(mat.shape[0]) if mat[n_det, n] > 0]
                for n in occ]
        for combo in itertools.product(*opts):
            w = p
            for _, q in combo:
                w *= q
            key = tuple(k for k, _ in combo)
            out[key] = out.get(key, 0.0) + w
    return out


def prop_fock(case, ctx):
    tier = TIER["value"]
    desc = {"d": case["d"], "prep": case["prep"], "gates": case["gates"]}
    c = case["cutoff"]
    with warnings.catch_warnings():
        warnings.simplefilter("ignore")
        # exact law: the OTHER Fock simulator's table (renormalised: the samplers
        # condition on the truncated space)
        other = "F" if case["sim"] == "PF" else "PF"
        st_ = progs.run(pq, desc, other, c)
        full = {tuple(int(x) for x in k): float(v) for k, v in st_.fock_probabilities_map.items()}
        tot = sum(full.values())
        if tot < 1e-9:
            ctx.count("zero_norm_state")
            return
        full = {k: v / tot for k, v in full.items() if v > 1e-15}
        exact = marginal(full, case["modes"])
        mat = None
        if case["imperfect"]:
            mat = detector_matrix(case["dseed"], c)
            exact = apply_detector(exact, mat)
        exact = {k: v for k, v in exact.items() if v > 1e-15}
        program = progs.make_program(pq, desc, case["sim"], c)
        meas = (pq.ImperfectParticleNumberMeasurement(mat) if case["imperfect"]
                else pq.ParticleNumberMeasurement())
        program.instructions.append(meas.on_modes(*case["modes"]))

        def sampler(seed, shots):
            sim = progs.make_simulator(pq, case["sim"], case["d"], c, seed_sequence=seed)
            return to_int_tuples(sim.execute(program, shots=shots).samples, "fock")

        what = f"fock:{case['sim']}" + (":imperfect" if case["imperfect"] else "")
        ctx.case(case, nontrivial_dist(exact),
                 [f"F_sim_{case['sim']}", "F_imperfect" if case["imperfect"] else "F_ideal",
                  "F_scrambled" if case["modes"] != sorted(case["modes"]) else "F_ascending"])
        check_discrete(sampler, exact, what, ctx, N1[tier])


# ------------------------------------------------------------------------ Gaussian discrete

@st.composite
def gauss_case(draw):
    d = draw(st.integers(1, 3))
    names = progs.PASSIVE + ["Squeezing", "Squeezing", "Displacement", "Squeezing2"]
    gates = draw(st.lists(progs.gate(d, names, scale=0.9), min_size=1, max_size=4))
    sq = draw(progs.gate(d, ["Squeezing"], scale=0.9))
    gates = [sq] + gates
    regime = "pure"
    if d >= 2 and draw(st.booleans()):
        # mixed multi-mode states by construction ("with loss"): unequal squeezing on every
        # mode, unequal attenuation (optionally thermal) on at least two modes, then gates
        # that mix the modes, so that the Williamson factors of the measured state do not
        # commute (a pure, a single-mode or a product state cannot tell S sqrt(D-1) from
        # sqrt(D-1) S)
        regime = "lossy_mixed"
        rs = draw(st.permutations([0.25, 0.45, 0.65]))
        gates = [{"g": "Squeezing", "modes": [m], "p": {"r": rs[m], "phi": draw(progs.angle())}}
                 for m in range(d)]
        gates.append(draw(progs.gate(d, ["Beamsplitter", "Interferometer"], scale=0.7)))
        thetas = draw(st.permutations([0.3, 0.7, 1.1]))
        nbars = draw(st.permutations([0.0, 0.0, 0.4]))
        for m in range(d):
            gates.append({"g": "Attenuator", "modes": [m],
                          "p": {"theta": thetas[m], "mean_thermal_excitation": nbars[m]}})
        gates.append({"g": "Interferometer", "modes": list(range(d)),
                      "p": {"kind": "haar", "seed": draw(st.integers(0, 2**16))}})
    meas = draw(st.sampled_from(["pnm", "pnm", "threshold", "threshold_tor", "imperfect"]))
    k = draw(st.integers(1, d))
    modes = sorted(draw(progs.ordered_modes(d, k))) if meas != "pnm" else draw(
        progs.ordered_modes(d, k))
    hbar = draw(st.sampled_from([1.0, 2.0, 2.0, 3.7]))
    if regime == "lossy_mixed" and draw(st.booleans()):
        modes = draw(st.permutations(list(range(d)))) if meas == "pnm" else list(range(d))
    return {"d": d, "gates": gates, "meas": meas, "modes": list(modes), "hbar": hbar,
            "regime": regime,
            "mcut": draw(st.sampled_from([5, 6, 7])), "dseed": draw(st.integers(0, 2**16))}


def prop_gauss(case, ctx):
    tier = TIER["value"]
    d, mcut = case["d"], case["mcut"]
    desc = {"d": d, "prep": {"kind": "vacuum"}, "gates": case["gates"]}
    n1 = max(400, N1[tier] // 3)
    with warnings.catch_warnings():
        warnings.simplefilter("ignore")
        # exact photon-number law of the measured modes from the probability interface of
        # the reduced state at a larger cutoff (hafnian formula: not the chain-rule sampler)
        big = mcut + 5
        st_ = progs.run(pq, desc, "G", big, case["hbar"])
        red = st_.reduced(tuple(case["modes"])) if len(case["modes"]) < d or \
            case["modes"] != sorted(case["modes"]) else st_
        table = {tuple(int(x) for x in k): float(v)
                 for k, v in red.fock_probabilities_map.items()}
        above = 1.0 - sum(v for k, v in table.items() if max(k) < mcut)
        if above > 1e-3:
            ctx.count("G_truncation_mass_above_1e-3_skipped")
            return
        exact = {k: v for k, v in table.items() if max(k) < mcut}
        tot = sum(exact.values())
        exact = {k: v / tot for k, v in exact.items()}
        mat = None
        if case["meas"].startswith("threshold"):
            thr = {}
            full = {tuple(int(x) for x in k): float(v)
                    for k, v in red.fock_probabilities_map.items()}
            ftot = sum(full.values())
            for k, v in full.items():
                kk = tuple(min(x, 1) for x in k)
                thr[kk] = thr.get(kk, 0.0) + v / ftot
            exact = thr
        elif case["meas"] == "imperfect":
            mat = detector_matrix(case["dseed"], mcut)
            exact = apply_detector(exact, mat)
        exact = {k: v for k, v in exact.items() if v > 1e-15}
        program = progs.make_program(pq, desc, "G", big)
        m = {"pnm": pq.ParticleNumberMeasurement(), "threshold": pq.ThresholdMeasurement(),
             "threshold_tor": pq.ThresholdMeasurement(),
             "imperfect": pq.ImperfectParticleNumberMeasurement(mat)
             if mat is not None else None}[case["meas"]]
        program.instructions.append(m.on_modes(*case["modes"]))

        def sampler(seed, shots):
            sim = pq.GaussianSimulator(d=d, config=pq.Config(
                hbar=case["hbar"], measurement_cutoff=mcut, seed_sequence=seed,
                use_torontonian=(case["meas"] == "threshold_tor")))
            return to_int_tuples(sim.execute(program, shots=shots).samples, "gaussian")

        what = f"gaussian:{case['meas']}"
        ctx.case(case, nontrivial_dist(exact),
                 [f"G_{case['meas']}", f"G_hbar_{case['hbar']}",
                  f"G_regime_{case.get('regime', 'pure')}",
                  "G_displaced" if any(g["g"] == "Displacement" for g in case["gates"])
                  else "G_zero_mean"])
        check_discrete(sampler, exact, what, ctx, n1)


# ------------------------------------------------------------------------ continuous

@st.composite
def dyne_case(draw):
    d = draw(st.integers(1, 3))
    names = progs.PASSIVE + ["Squeezing", "Displacement", "Squeezing2"]
    gates = draw(st.lists(progs.gate(d, names, scale=1.0), min_size=0, max_size=4))
    meas = draw(st.sampled_from(["homodyne", "heterodyne", "generaldyne"]))
    k = draw(st.integers(1, d))
    modes = draw(progs.ordered_modes(d, k))
    hbar = draw(st.sampled_from([1.0, 2.0, 0.5]))
    sim = draw(st.sampled_from(["G", "G", "PF"])) if meas == "homodyne" else "G"
    if sim == "PF":
        # known finding (probed by 'pf_homodyne_multimode'): the pure Fock simulator's
        # homodyne sampler is wrong from the second measured mode on
        modes = modes[:1]
    return {"sim": sim, "d": d, "gates": gates, "meas": meas, "modes": modes, "hbar": hbar,
            "phi": draw(progs.angle()) if sim == "G" else 0.0,
            "cseed": draw(st.integers(0, 2**16))}


def prop_dyne(case, ctx):
    """Quantum law of the outcomes in the library's units: a measurement of the measured
    modes' quadratures (x, p per mode; x_phi for homodyne) has mean mu and covariance
    (sigma + sigma_m) / 2 where sigma is the state's covariance in piquasso's convention
    (vacuum = hbar * 1) and sigma_m the detection covariance (0 along the measured
    quadrature for homodyne, hbar * 1 for heterodyne)."""
    tier = TIER["value"]
    d, hbar, modes = case["d"], case["hbar"], case["modes"]
    k = len(modes)
    desc = {"d": d, "prep": {"kind": "vacuum"}, "gates": case["gates"]}
    n = {"quick": 4000, "thorough": 20000}[tier]
    with warnings.catch_warnings():
        warnings.simplefilter("ignore")
        g = progs.run(pq, desc, "G", 4, hbar)
        mu_full = np.asarray(g.xpxp_mean_vector, dtype=float)
        cov_full = np.asarray(g.xpxp_covariance_matrix, dtype=float)
        idx = [j for m in modes for j in (2 * m, 2 * m + 1)]
        mu = mu_full[idx]
        sigma = cov_full[np.ix_(idx, idx)]
        if case["meas"] == "homodyne":
            c, s = math.cos(case["phi"]), math.sin(case["phi"])
            rows = np.zeros((k, 2 * k))
            for i in range(k):
                rows[i, 2 * i], rows[i, 2 * i + 1] = c, s
            want_mean = rows @ mu
            want_cov = rows @ sigma @ rows.T / 2
            inst = pq.HomodyneMeasurement(phi=case["phi"]) if case["sim"] == "G" \
                else pq.HomodyneMeasurement()
        elif case["meas"] == "heterodyne":
            want_mean = mu
            want_cov = (sigma + hbar * np.eye(2 * k)) / 2
            inst = pq.HeterodyneMeasurement()
        else:
            rng = progs.rng_of(case["cseed"])
            a = rng.normal(size=(2, 2)) * 0.4
            sm = a @ a.T + 1.2 * np.eye(2)
            sm = sm / math.sqrt(np.linalg.det(sm)) * 1.0  # det 1: a pure squeezed detection
            want_mean = mu
            want_cov = (sigma + np.kron(np.eye(k), sm * hbar)) / 2
            inst = pq.GeneraldyneMeasurement(detection_covariance=sm)
        simk = case["sim"]
        cutoff = 12 if simk == "PF" else 4
        program = progs.make_program(pq, desc, simk, cutoff)
        program.instructions.append(inst.on_modes(*modes))

        def sampler(seed, shots):
            sim = progs.make_simulator(pq, simk, d, cutoff, hbar, seed_sequence=seed)
            return np.array(sim.execute(program, shots=shots).samples, dtype=float)

        what = f"dyne:{simk}:{case['meas']}"
        displaced = any(g_["g"].endswith("Displacement") for g_ in case["gates"])
        ctx.case(case, k >= 1 and (displaced or any(len(g_["modes"]) > 1 for g_ in case["gates"])),
                 [f"D_{simk}_{case['meas']}", f"D_hbar_{hbar}"])
        try:
            x = sampler(11, n)
        except NotImplementedCalculation:
            ctx.count("documented_unsupported")
            return
        if simk == "PF":
            # truncation: only compare when the Gaussian state's photon content is small
            if float(np.trace(cov_full)) / (2 * hbar * d) > 1.6:
                ctx.count("PF_homodyne_skipped_large_state")
                return
        nq = len(want_mean)
        if simk == "G" and case["meas"] == "homodyne" and x.shape == (n, 2 * nq):
            # known finding (probed by the part 'homodyne_shape'): two entries per mode,
            # the second being the anti-squeezed detector quadrature; keep checking the
            # law of the measured quadrature behind it
            ctx.exclude("C02:dyne:G:homodyne:entries-per-sample")
            raw = sampler
            x = x[:, ::2]

            def sampler(seed, shots, raw=raw):  # noqa: F811
                return raw(seed, shots)[:, ::2]
        if x.shape != (n, nq):
            raise Violation(f"C02:{what}:entries-per-sample",
                            f"samples have shape {x.shape}; {nq} quantities were measured "
                            f"({k} modes, {case['meas']})")
        if case["meas"] == "generaldyne":
            ctx.count("generaldyne_units_documented_only_for_shape")
        check_moments(x, want_mean, want_cov, what, sampler, n, ctx,
                      skip_cov=(case["meas"] == "generaldyne"))


def check_moments(x, want_mean, want_cov, what, sampler, n, ctx, skip_cov=False):
    def deviations(x, n):
        m = x.mean(axis=0)
        c = np.atleast_2d(np.cov(x.T))
        sd = np.sqrt(np.diag(want_cov))
        zm = np.abs(m - want_mean) / (sd / math.sqrt(n) + 1e-300)
        # standard error of a covariance entry for a Gaussian: sqrt((c_ii c_jj + c_ij^2)/n)
        se = np.sqrt((np.outer(np.diag(want_cov), np.diag(want_cov)) + want_cov ** 2) / n)
        zc = np.abs(c - want_cov) / (se + 1e-300)
        return float(zm.max()), float(zc.max()), m, c

    zm, zc, m, c = deviations(x, n)
    if zm < 6 and (skip_cov or zc < 6):
        return
    ctx.count("escalated_to_stage_2")
    n2 = 5 * n
    x2 = sampler(22, n2)
    zm2, zc2, m2, c2 = deviations(x2, n2)
    if zm2 > 8:
        raise Violation(f"C02:{what}:mean",
                        f"sample mean {np.round(m2, 4)} vs quantum mean {np.round(want_mean, 4)} "
                        f"(max z = {zm2:.1f}, N = {n2})")
    if not skip_cov and zc2 > 8:
        ratio = float(np.trace(c2) / np.trace(want_cov))
        raise Violation(f"C02:{what}:covariance",
                        f"sample covariance diag {np.round(np.diag(c2), 4)} vs (sigma+sigma_m)/2 "
                        f"diag {np.round(np.diag(want_cov), 4)} (trace ratio {ratio:.3f}, "
                        f"max z = {zc2:.1f}, N = {n2})")


def homodyne_shape_cases(tier):
    return [{"d": d, "modes": m} for d, m in ((1, [0]), (2, [1]), (3, [2, 0]))]


def prop_homodyne_shape(case, ctx):
    ctx.case(case, True, ["homodyne_shape"])
    with warnings.catch_warnings():
        warnings.simplefilter("ignore")
        with pq.Program() as p:
            pq.Q() | pq.Vacuum()
            pq.Q(*case["modes"]) | pq.HomodyneMeasurement(phi=0.3)
        res = pq.GaussianSimulator(d=case["d"], config=pq.Config(seed_sequence=3)).execute(
            p, shots=5)
    k = len(case["modes"])
    bad = [s for s in res.samples if len(s) != k]
    if bad:
        raise Violation("C02:dyne:G:homodyne:entries-per-sample",
                        f"GaussianSimulator HomodyneMeasurement on modes {case['modes']}: samples "
                        f"have {len(bad[0])} entries, {k} quantities were measured")


def pf_homodyne_multimode_cases(tier):
    return [{"modes": [0, 1]}, {"modes": [1, 0]}]


def prop_pf_homodyne_multimode(case, ctx):
    """Two-mode squeezed vacuum with an extra squeezer, homodyne on both modes: the
    marginal variance of every measured quadrature and their covariance are known in
    closed form from the Gaussian moments."""
    ctx.case(case, True, ["pf_homodyne_multimode"])
    hbar, n = 1.0, 12000
    with warnings.catch_warnings():
        warnings.simplefilter("ignore")
        with pq.Program() as prep:
            pq.Q() | pq.Vacuum()
            pq.Q(0, 1) | pq.Squeezing2(0.44, 0.0)
            pq.Q(1) | pq.Squeezing(0.3)
        g = pq.GaussianSimulator(d=2, config=pq.Config(hbar=hbar)).execute(prep).state
        cov = np.asarray(g.xpxp_covariance_matrix, dtype=float)
        idx = [2 * m for m in case["modes"]]
        want = cov[np.ix_(idx, idx)] / 2
        prog = pq.Program(instructions=[i.copy() for i in prep.instructions]
                          + [pq.HomodyneMeasurement().on_modes(*case["modes"])])
        res = pq.PureFockSimulator(d=2, config=pq.Config(cutoff=14, hbar=hbar,
                                                        seed_sequence=3)).execute(prog, shots=n)
    x = np.array(res.samples, dtype=float)
    got = np.cov(x.T)
    se = np.sqrt((np.outer(np.diag(want), np.diag(want)) + want ** 2) / n)
    z = np.abs(got - want) / se
    if z.max() > 10:
        raise Violation("C02:dyne:PF:homodyne:multimode-conditional-law",
                        f"PureFockSimulator HomodyneMeasurement on modes {case['modes']} of a "
                        f"two-mode squeezed state: sample covariance {np.round(got, 3).tolist()} vs "
                        f"quantum {np.round(want, 3).tolist()} (max z = {z.max():.0f}, N = {n}); "
                        f"single-mode measurements are right")


def parts(tier):
    TIER["value"] = tier
    return [
        Part("pf_homodyne_multimode", prop_pf_homodyne_multimode, kind="enum",
             cases=pf_homodyne_multimode_cases),
        Part("homodyne_shape", prop_homodyne_shape, kind="enum", cases=homodyne_shape_cases),
        Part("dyne", prop_dyne, strategy=dyne_case(),
             examples={"quick": 96, "thorough": 1500}, shrink=False),
        Part("passive", prop_passive, strategy=passive_case(),
             examples={"quick": 140, "thorough": 2500},
             budget_s={"quick": 170, "thorough": 3000}),
        Part("fock", prop_fock, strategy=fock_case(),
             examples={"quick": 100, "thorough": 1500}),
        Part("gaussian", prop_gauss, strategy=gauss_case(),
             examples={"quick": 64, "thorough": 1000},
             budget_s={"quick": 170, "thorough": 3000}),
    ]
