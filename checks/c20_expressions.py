"""C20 — condition / parameter expressions are safe and mean what Python means.

Oracle: Python's own `eval` of the same source with empty builtins and only `x` bound.
"""

from __future__ import annotations

import ast
import io
import math
import tokenize

import numpy as np
from hypothesis import strategies as st

from lib import bootstrap
from lib.harness import Part, Violation

pq = bootstrap.load()

from piquasso.api.exceptions import InvalidExpression, PiquassoException  # noqa: E402
from piquasso.core._expressions import Expression  # noqa: E402

PID = "C20"
LEVEL = "exploration"
SHARDS = {"quick": 8, "thorough": 16}
RULE = (
    "typed recursive grammar (depth<=4) over int/float/bool literals, x, x[i], x[a:b:c], "
    "tuple/list displays, unary + - not, binary + - * / % ** ^, comparisons incl. chains, "
    "and/or of 2..3 operands, random parentheses/whitespace, with deliberately raising "
    "operands (1/0, x[9]); outcome tuples of length 0..4 (ints, floats, bools); oracle = "
    "Python eval. Rejection: single-token mutations of accepted strings + hostile corpus "
    "must raise InvalidExpression at construction. Non-trivial = AST depth>=3 containing a "
    "chained comparison, a boolean operator with a raising operand, or a slice; distinct "
    "by normalised source + outcome tuple."
)
ASSUMPTIONS = [
    "CPython's eval of the same source is the reference semantics",
    "exception *class* mismatches between Python and Expression are counted, not failed; "
    "only 'Python raises but Expression returns' (or the converse) is a violation",
]

# ------------------------------------------------------------------------ generator

INTS = st.integers(0, 9).map(str)
FLOATS = st.sampled_from(["0.5", "2.0", "1.5", "0.0", "1e1", "3.25", ".5", "1_0"])
BOOLS = st.sampled_from(["True", "False"])
RAISERS = st.sampled_from(["1/0", "x[9]", "1%0", "x[-9]", "0**-1"])
WS = st.sampled_from(["", "", "", " ", "  "])


@st.composite
def index_expr(draw):
    return str(draw(st.integers(-5, 5)))


@st.composite
def slice_expr(draw):
    def part():
        return draw(st.one_of(st.just(""), st.integers(-4, 4).map(str)))

    s = part() + ":" + part()
    if draw(st.booleans()):
        step = draw(st.sampled_from(["", "1", "2", "-1", "-2", "0"]))
        s += ":" + step
    return s


def paren(draw, s):
    k = draw(st.integers(0, 3))
    if k == 0:
        return f"({s})"
    if k == 1:
        return f"( {s} )"
    return s


@st.composite
def expr(draw, kind: str, depth: int):
    """kind in {'num','bool','seq','any'}"""
    if kind == "any":
        kind = draw(st.sampled_from(["num", "num", "bool", "bool", "seq"]))
    w = draw(WS)
    if depth <= 0 or draw(st.integers(0, 9)) < 2:
        if kind == "num":
            return draw(st.one_of(INTS, INTS, FLOATS, st.just("x[0]"), st.just("x[1]"),
                                  st.just("x[-1]"), index_expr().map(lambda i: f"x[{i}]"),
                                  RAISERS, BOOLS))
        if kind == "bool":
            return draw(st.one_of(BOOLS, st.just("x[0]"), st.just("x"), INTS, RAISERS))
        return draw(st.one_of(st.just("x"), slice_expr().map(lambda s: f"x[{s}]"),
                              st.just("()"), st.just("[]"), st.just("(1,)"),
                              st.just("(1, 2)"), st.just("[0, 1]")))
    d = depth - 1
    if kind == "num":
        form = draw(st.sampled_from(["bin", "bin", "bin", "un", "pow", "andor", "par", "idx"]))
        if form == "bin":
            o = draw(st.sampled_from(["+", "-", "*", "/", "%", "^"]))
            a, b = draw(expr("num", d)), draw(expr("num", d))
            return paren(draw, f"{a}{w}{o}{w}{b}")
        if form == "un":
            o = draw(st.sampled_from(["-", "+", "- ", "+ "]))
            return f"{o}{paren(draw, draw(expr('num', d)))}"
        if form == "pow":
            a = draw(expr("num", min(d, 1)))
            e = draw(st.integers(-3, 6))
            es = str(e) if e >= 0 else f"-{-e}"
            return paren(draw, f"({a}){w}**{w}{es}")
        if form == "andor":
            o = draw(st.sampled_from(["and", "or"]))
            ops = [draw(expr("num", d)) for _ in range(draw(st.integers(2, 3)))]
            return "(" + f" {o} ".join(ops) + ")"
        if form == "idx":
            s = draw(expr("seq", d))
            return f"({s})[{draw(index_expr())}]"
        return f"({draw(expr('num', d))})"
    if kind == "bool":
        form = draw(st.sampled_from(["cmp", "cmp", "chain", "andor", "andor", "not", "seqcmp"]))
        cmpop = st.sampled_from(["==", "!=", "<", "<=", ">", ">="])
        if form == "cmp":
            return paren(draw, f"{draw(expr('num', d))}{w}{draw(cmpop)}{w}{draw(expr('num', d))}")
        if form == "seqcmp":
            return paren(draw, f"{draw(expr('seq', d))}{w}{draw(cmpop)}{w}{draw(expr('seq', d))}")
        if form == "chain":
            n = draw(st.integers(3, 4))
            parts_ = [draw(expr("num", d))]
            for _ in range(n - 1):
                parts_.append(draw(cmpop))
                parts_.append(draw(expr("num", d)))
            return "(" + " ".join(parts_) + ")"
        if form == "andor":
            o = draw(st.sampled_from(["and", "or"]))
            ops = [draw(expr("any", d)) for _ in range(draw(st.integers(2, 3)))]
            return "(" + f" {o} ".join(ops) + ")"
        return f"not {paren(draw, draw(expr('any', d)))}"
    # seq
    form = draw(st.sampled_from(["display", "slice", "concat", "rep", "andor"]))
    if form == "display":
        n = draw(st.integers(0, 3))
        elts = [draw(expr("any", d)) for _ in range(n)]
        if draw(st.booleans()):
            return "[" + ", ".join(elts) + "]"
        return "(" + ", ".join(elts) + ("," if n == 1 else "") + ")"
    if form == "slice":
        return f"({draw(expr('seq', d))})[{draw(slice_expr())}]"
    if form == "concat":
        return f"({draw(expr('seq', d))} + {draw(expr('seq', d))})"
    if form == "rep":
        return f"({draw(expr('seq', d))} * {draw(st.integers(-1, 3))})"
    o = draw(st.sampled_from(["and", "or"]))
    return f"({draw(expr('seq', d))} {o} {draw(expr('seq', d))})"


OUTCOME = st.one_of(
    st.integers(-3, 5),
    st.integers(0, 2),
    st.sampled_from([0.0, 0.5, -1.5, 2.0, 1e-3]),
    st.booleans(),
)


@st.composite
def grammar_case(draw):
    n = draw(st.sampled_from([0, 1, 2, 2, 3, 3, 4, 4]))
    xs = [draw(OUTCOME) for _ in range(n)]
    depth = draw(st.integers(1, 4))
    src = draw(expr("any", depth))
    lead = draw(st.sampled_from(["", "", " ", "\t", "  "]))
    trail = draw(st.sampled_from(["", "", " ", "\n", " \t"]))
    return {"src": lead + src + trail, "x": xs}


def py_eval(src: str, x):
    tree = ast.parse(src.strip(), mode="eval")
    code = compile(tree, "<expr>", "eval")
    return eval(code, {"__builtins__": {}}, {"x": x})


def same_value(a, b) -> bool:
    if type(a) is not type(b):
        return False
    if isinstance(a, float):
        return repr(a) == repr(b)
    if isinstance(a, (tuple, list)):
        return len(a) == len(b) and all(same_value(p, q) for p, q in zip(a, b))
    return a == b


def ast_depth(node) -> int:
    kids = list(ast.iter_child_nodes(node))
    return 1 + max((ast_depth(k) for k in kids), default=0)


def features(src: str):
    tree = ast.parse(src.strip(), mode="eval")
    f = set()
    for n in ast.walk(tree):
        if isinstance(n, ast.Compare) and len(n.ops) >= 2:
            f.add("chain")
        if isinstance(n, ast.Slice):
            f.add("slice")
        if isinstance(n, ast.BoolOp):
            f.add("boolop")
            seg = ast.unparse(n)
            if any(r in seg.replace(" ", "") for r in ("1/0", "x[9]", "1%0", "x[-9]", "0**-1")):
                f.add("boolop_raising_operand")
    return f, ast_depth(tree)


def rebuild_x(xs):
    return tuple(xs)


def prop_grammar(case, ctx):
    src, x = case["src"], rebuild_x(case["x"])
    feats, depth = features(src)
    nontrivial = depth >= 3 and bool(feats & {"chain", "slice", "boolop_raising_operand"})
    ctx.case([src.strip(), case["x"]], nontrivial, sorted(feats) + [f"len_x_{len(x)}"])
    try:
        e = Expression(src)
    except InvalidExpression as err:
        raise Violation("C20:grammar:rejected-valid",
                        f"{src!r} is inside the documented language but was rejected: {err}")
    except Exception as err:
        raise Violation(f"C20:construction-crash:{type(err).__name__}", f"{src!r}: {err!r}")
    try:
        want = py_eval(src, x)
        py_exc = None
    except RecursionError:
        return
    except Exception as err:  # noqa: BLE001
        want, py_exc = None, err
    try:
        got = e(x) if len(x) or True else e()
        got_exc = None
    except Exception as err:  # noqa: BLE001
        got, got_exc = None, err
    if py_exc is None and got_exc is not None:
        raise Violation("C20:eval:raises-where-python-returns",
                        f"{src!r} x={x!r}: Python -> {want!r}, Expression raised {got_exc!r}")
    if py_exc is not None and got_exc is None:
        raise Violation("C20:eval:returns-where-python-raises",
                        f"{src!r} x={x!r}: Python raised {py_exc!r}, Expression -> {got!r}")
    if py_exc is not None:
        ctx.count("python_raises")
        if type(py_exc) is not type(got_exc):
            ctx.count("exception_class_differs")
        return
    if not same_value(want, got):
        raise Violation("C20:eval:value-differs",
                        f"{src!r} x={x!r}: Python -> {want!r} ({type(want).__name__}), "
                        f"Expression -> {got!r} ({type(got).__name__})")


# ---------------------------------------------------------------- recording outcomes

class Rec:
    """Outcome element that records every operation performed on it."""

    def __init__(self, v, log, name):
        self.v, self.log, self.name = v, log, name

    def _o(self, other):
        return other.v if isinstance(other, Rec) else other

    def __bool__(self):
        self.log.append((self.name, "bool"))
        return bool(self.v)

    def __eq__(self, o):
        self.log.append((self.name, "eq"))
        return self.v == self._o(o)

    def __ne__(self, o):
        self.log.append((self.name, "ne"))
        return self.v != self._o(o)

    def __lt__(self, o):
        self.log.append((self.name, "lt"))
        return self.v < self._o(o)

    def __le__(self, o):
        self.log.append((self.name, "le"))
        return self.v <= self._o(o)

    def __gt__(self, o):
        self.log.append((self.name, "gt"))
        return self.v > self._o(o)

    def __ge__(self, o):
        self.log.append((self.name, "ge"))
        return self.v >= self._o(o)

    def __add__(self, o):
        self.log.append((self.name, "add"))
        return self.v + self._o(o)

    __radd__ = __add__

    def __mul__(self, o):
        self.log.append((self.name, "mul"))
        return self.v * self._o(o)

    __rmul__ = __mul__

    def __sub__(self, o):
        self.log.append((self.name, "sub"))
        return self.v - self._o(o)

    def __rsub__(self, o):
        self.log.append((self.name, "rsub"))
        return self._o(o) - self.v

    def __neg__(self):
        self.log.append((self.name, "neg"))
        return -self.v

    def __pos__(self):
        self.log.append((self.name, "pos"))
        return +self.v

    __hash__ = None


class RecTuple(tuple):
    log: list

    def __getitem__(self, i):
        self.log.append(("x", "getitem", repr(i)))
        return tuple.__getitem__(self, i)

    def __bool__(self):
        self.log.append(("x", "bool"))
        return len(self) > 0


def rec_x(xs):
    log = []
    t = RecTuple(Rec(v, log, f"x{i}") for i, v in enumerate(xs))
    t.log = log
    return t, log


@st.composite
def lazy_case(draw):
    """Expressions over comparisons / boolean operators of x[i]: the call log on the
    outcome objects must equal Python's (short-circuit, chained comparison laziness)."""
    n = draw(st.integers(1, 4))
    xs = draw(st.lists(st.integers(-2, 3), min_size=n, max_size=n))
    atoms = [f"x[{i}]" for i in range(n)] + ["0", "1", "2"]

    def cmp_():
        k = draw(st.integers(2, 4))
        parts_ = [draw(st.sampled_from(atoms))]
        for _ in range(k - 1):
            parts_.append(draw(st.sampled_from(["==", "!=", "<", "<=", ">", ">="])))
            parts_.append(draw(st.sampled_from(atoms)))
        return "(" + " ".join(parts_) + ")"

    def boolexp(depth):
        if depth == 0 or draw(st.integers(0, 3)) == 0:
            return draw(st.sampled_from([cmp_(), draw(st.sampled_from(atoms)),
                                         f"not {cmp_()}", f"-{draw(st.sampled_from(atoms))}"]))
        o = draw(st.sampled_from(["and", "or"]))
        k = draw(st.integers(2, 3))
        return "(" + f" {o} ".join(boolexp(depth - 1) for _ in range(k)) + ")"

    return {"src": boolexp(draw(st.integers(1, 3))), "x": xs}


def prop_lazy(case, ctx):
    src = case["src"]
    feats, depth = features(src)
    ctx.case([src, case["x"]], depth >= 3 and bool(feats & {"chain", "boolop"}),
             ["lazy_calllog"] + sorted(feats))
    try:
        e = Expression(src)
    except Exception as err:
        raise Violation("C20:lazy:rejected-valid", f"{src!r}: {err!r}")
    x1, log1 = rec_x(case["x"])
    x2, log2 = rec_x(case["x"])
    try:
        want, ex1 = py_eval(src, x1), None
    except Exception as err:  # noqa: BLE001
        want, ex1 = None, err
    try:
        got, ex2 = e(x2), None
    except Exception as err:  # noqa: BLE001
        got, ex2 = None, err
    if (ex1 is None) != (ex2 is None):
        raise Violation("C20:lazy:raise-mismatch", f"{src!r} x={case['x']}: python {ex1!r}, "
                        f"expression {ex2!r}")
    # bool() of the *value returned* by and/or is not part of Python's evaluation, but an
    # extra truth test of an operand that was evaluated anyway does not change the value;
    # it is counted, not failed.  What must agree is which operands are evaluated and
    # compared, in which order (short-circuit, chained-comparison laziness).
    if log1 != log2:
        ctx.count("lazy_extra_truth_test")
    log1 = [e for e in log1 if e[1] != "bool"]
    log2 = [e for e in log2 if e[1] != "bool"]
    if log1 != log2:
        raise Violation("C20:lazy:call-log-differs",
                        f"{src!r} x={case['x']}: Python touched {log1}, Expression touched {log2}")
    if ex1 is None:
        a = want.v if isinstance(want, Rec) else want
        b = got.v if isinstance(got, Rec) else got
        if isinstance(want, Rec) != isinstance(got, Rec) or not same_value(a, b):
            raise Violation("C20:lazy:value-differs", f"{src!r} x={case['x']}: {want!r} vs {got!r}")


# ------------------------------------------------------------------- rejection

FORBIDDEN_TOKENS = [
    "y", "os", "__import__", "X", "xx", "_", "print", "None", "...", "'a'", '"a"', "b'a'",
    "f'{x}'", "1j", "lambda: 1", "x.real", "x.__class__", "f(1)", "x(1)", "len(x)",
    "[i for i in x]", "{1: 2}", "{1, 2}", "(y := 1)", "*x", "1 if x else 2", "x // 2",
    "x << 1", "x >> 1", "x | 1", "x & 1", "~1", "x @ x", "1 in x", "1 not in x", "x is x",
    "x is not x", "await x", "(yield)", "x[0].real", "().__class__", "x.count(1)",
    "__builtins__", "exec", "eval", "abs(1)", "int", "x[0]()", "`x`", "x!", "$", "x =1",
    "import os", "x;x", "{**x}", "(i for i in x)", "1 .real", "x[0]:=1", "True.real",
    "(1).bit_length()", "\\", "'''a'''", "0x", "1e", "u'x'",
]


def tokens_of(src: str):
    out = []
    try:
        for tok in tokenize.generate_tokens(io.StringIO(src).readline):
            if tok.type in (tokenize.NUMBER, tokenize.NAME, tokenize.OP):
                out.append(tok)
    except (tokenize.TokenError, IndentationError, SyntaxError):
        pass
    return out


@st.composite
def mutation_case(draw):
    depth = draw(st.integers(1, 3))
    src = draw(expr("any", depth)).strip()
    toks = tokens_of(src)
    cand = [t for t in toks if t.type in (tokenize.NUMBER, tokenize.NAME)
            and t.string not in ("and", "or", "not")]
    if not cand:
        src = "x[0] + 1"
        toks = tokens_of(src)
        cand = [t for t in toks if t.type in (tokenize.NUMBER, tokenize.NAME)]
    t = draw(st.sampled_from(cand))
    repl = draw(st.sampled_from(FORBIDDEN_TOKENS))
    (r, c0), (_, c1) = t.start, t.end
    assert r == 1
    mutated = src[:c0] + "(" + repl + ")" + src[c1:] if draw(st.booleans()) else \
        src[:c0] + repl + src[c1:]
    return {"orig": src, "src": mutated, "token": repl}


def python_accepts_as_plain(src: str) -> bool:
    """True if the mutated string happens to stay inside the documented language
    (e.g. replacing a token inside a dead position by something that parses to an
    allowed construct).  Decided structurally on Python's AST, independent of the code."""
    try:
        tree = ast.parse(src.strip(), mode="eval")
    except (SyntaxError, ValueError, RecursionError, MemoryError):
        return False
    ok_nodes = (ast.Expression, ast.BoolOp, ast.UnaryOp, ast.BinOp, ast.Compare, ast.Name,
                ast.Load, ast.Subscript, ast.Slice, ast.Constant, ast.List, ast.Tuple,
                ast.And, ast.Or, ast.Add, ast.Sub, ast.Mult, ast.Div, ast.Mod, ast.Pow,
                ast.BitXor, ast.UAdd, ast.USub, ast.Not, ast.Eq, ast.NotEq, ast.Lt, ast.LtE,
                ast.Gt, ast.GtE)
    for n in ast.walk(tree):
        if not isinstance(n, ok_nodes):
            return False
        if isinstance(n, ast.Name) and n.id != "x":
            return False
        if isinstance(n, ast.Constant) and (
            isinstance(n.value, (str, bytes, complex)) or n.value is None or n.value is Ellipsis
        ):
            return False
    return True


def must_reject(src: str, ctx, bucket: str):
    if python_accepts_as_plain(src):
        ctx.count("mutation_stayed_inside_language")
        return
    try:
        e = Expression(src)
    except InvalidExpression:
        return
    except Exception as err:
        raise Violation(f"C20:{bucket}:wrong-exception:{type(err).__name__}",
                        f"{src!r}: construction raised {err!r} instead of InvalidExpression")
    raise Violation(f"C20:{bucket}:accepted-forbidden",
                    f"{src!r} was accepted at construction (parsed as {ast.dump(e._tree)[:200]})")


def prop_mutation(case, ctx):
    ctx.case([case["src"]], True, ["mutation"])
    must_reject(case["src"], ctx, "mutation")
    # and through the public API: .when() and a string parameter
    if ctx.evaluations % 7 == 0 and not python_accepts_as_plain(case["src"]):
        for how in ("when", "param"):
            try:
                if how == "when":
                    pq.Phaseshifter(0.1).when(case["src"])
                else:
                    pq.Phaseshifter(phi=case["src"])
            except InvalidExpression:
                continue
            except Exception as err:
                raise Violation(f"C20:api-{how}:wrong-exception:{type(err).__name__}",
                                f"{case['src']!r}: {err!r}")
            raise Violation(f"C20:api-{how}:accepted-forbidden", f"{case['src']!r}")
        ctx.count("mutation_via_api")


HOSTILE = [
    "().__class__.__bases__[0].__subclasses__()", "x.__class__", "__import__('os').system('id')",
    "(lambda: 1)()", "[].__class__", "x[0].__class__", "getattr(x, 'a')", "x.a", "x . a",
    "globals()", "locals()", "open('f')", "exec('1')", "eval('1')", "compile('1','','eval')",
    "f'{x}'", "f'{x.__class__}'", "'%s' % x", "'{0.__class__}'.format(x)", "'a'", '"a"',
    "b'a'", "'a' 'b'", "None", "...", "Ellipsis", "NotImplemented", "__debug__", "y", "X",
    "ｘ.real", "х", "ⅹ", "x​", "x\x00", "\x00", "x[0]\x00", "1j", "1+1j", "x[0] + 1j",
    "[i for i in x]", "{i for i in x}", "{i: i for i in x}", "(i for i in x)",
    "[x for x in x]", "(x := 1)", "(y := x)", "*x", "[*x]", "(*x,)", "{**x}", "{1: 2}",
    "{1, 2}", "{}", "1 if x else 2", "x if x else x", "lambda: x", "lambda x: x",
    "await x", "(yield)", "(yield x)", "(yield from x)", "x // 2", "x << 1", "x >> 1",
    "x | 1", "x & 1", "~x[0]", "x @ x", "1 in x", "1 not in x", "x is x", "x is not None",
    "x[0] is 1", "print(x)", "x()", "x[0](1)", "abs(x[0])", "len(x)", "int(x[0])",
    "x.count(0)", "x.index(0)", "(1).real", "1 .real", "1.0.real", "True.real", "x[0].imag",
    "x[0].__add__(1)", "x.__getitem__(0)", "x[x.__len__()]", "type(x)", "x.__len__()",
    "import os", "x; x", "x = 1", "x += 1", "del x", "pass", "return x", "assert x",
    "x\nx", "x\n.real", "(x\n)", "x #.real", "#", "", " ", "\n", "\t", "()()", "x[",
    "x]", "(", ")", "((", "x[0]]", "1 +", "+ ", "and", "not", "x and", "==", "x ==",
    "1 < ", "x[::", "x[0:1:2:3]", "x[0,]", "0x", "1e", "1__0", "0b2", "09", "1.2.3",
    "x[0]!", "x$", "x?", "`x`", "x\\", "\\x", "$x", "@x", "x@", "x:=1", "->", "x->1",
    "(" * 50 + "x" + ")" * 50, "(" * 150 + "x" + ")" * 150, "(" * 300 + "x" + ")" * 300,
    "[" * 100 + "x" + "]" * 100, "x" + "[0]" * 200, "-" * 200 + "1", "not " * 200 + "x",
    "+".join(["1"] * 2000), "x[0]" + " + x.real" * 1, "1" * 5000, "x" * 3,
    " and ".join(["x"] * 500) + " and y", "(x, " * 60 + "y" + ")" * 60,
    "__import__", "__builtins__", "__name__", "__class__", "self", "cls", "True_", "true",
    "false", "TRUE", "nan", "inf", "NaN", "float('nan')", "x[0].real if 1 else 0",
    "٠", "١", "x[１]", "𝐱", "x́", "x﻿", "﻿x", "x\r\ny", "x\x0c.real",
    "x[0] if True else 1", "[x][0].real", "(x,)[0].count(1)", "x[0:1].count(1)",
    "not x.real", "-x.real", "x[0]**x.real", "1 < x.real < 2", "True and x.real",
    "False and x.real", "True or x.real", "0 and y", "1 or y", "False and f()", "True or f()",
]


def hostile_cases(tier):
    return [{"src": s} for s in HOSTILE]


def prop_hostile(case, ctx):
    src = case["src"]
    ctx.case([src[:200], len(src)], True, ["hostile"])
    if python_accepts_as_plain(src):
        # stays in the language (e.g. unicode forms of x that Python normalises): must
        # then evaluate as Python does
        ctx.count("hostile_but_valid")
        try:
            e = Expression(src)
        except InvalidExpression:
            return  # rejecting is always safe
        except Exception as err:
            raise Violation(f"C20:hostile:construction-crash:{type(err).__name__}",
                            f"{src[:80]!r}: {err!r}")
        for x in [(1, 2, 3), ()]:
            try:
                want, e1 = py_eval(src, x), None
            except RecursionError:
                continue
            except Exception as err:  # noqa: BLE001
                want, e1 = None, err
            try:
                got, e2 = e(x), None
            except Exception as err:  # noqa: BLE001
                got, e2 = None, err
            if (e1 is None) != (e2 is None) and not isinstance(e2, RecursionError):
                raise Violation("C20:hostile:eval-mismatch", f"{src[:80]!r}: {e1!r} vs {e2!r}")
            if e1 is None and e2 is None and not same_value(want, got):
                raise Violation("C20:hostile:value-differs", f"{src[:80]!r}: {want!r} vs {got!r}")
        return
    must_reject(src, ctx, "hostile")


# ------------------------------------------------------------------- public API

@st.composite
def api_case(draw):
    kind = draw(st.sampled_from(["when", "param"]))
    src = draw(expr("bool" if kind == "when" else "num", draw(st.integers(1, 3)))).strip()
    occ = draw(st.sampled_from([[1, 0], [0, 1], [1, 1], [2, 0], [0, 2], [0, 0]]))
    return {"kind": kind, "src": src, "occ": occ}


def prop_api(case, ctx):
    """`.when(src)` / `Gate(param=src)` in an executed adaptive program behave as the
    lambda `lambda x: eval(src)` does."""
    src, occ = case["src"], case["occ"]

    def build(cond_or_param):
        with pq.Program() as prog:
            pq.Q() | pq.NumberState(occ + [1])
            pq.Q(0, 1) | pq.ParticleNumberMeasurement()
            if case["kind"] == "when":
                pq.Q(2) | pq.Phaseshifter(0.3).when(cond_or_param)
            else:
                pq.Q(2) | pq.Phaseshifter(phi=cond_or_param)
        return prog

    def lam(x):
        return py_eval(src, tuple(x))

    sim = pq.PureFockSimulator(d=3, config=pq.Config(cutoff=sum(occ) + 2))
    res = []
    for arg in (src, lam):
        try:
            prog = build(arg)
            r = sim.execute(prog, shots=None)
            res.append(("ok", [b.outcome for b in r.branches],
                        [np.asarray(b.state.state_vector) for b in r.branches]))
        except PiquassoException as err:
            res.append(("raise", type(err).__name__, None))
        except Exception as err:  # noqa: BLE001
            res.append(("crash", type(err).__name__, None))
    ctx.case([case["kind"], src, occ], True, [f"api_{case['kind']}", f"api_{res[1][0]}"])
    if res[0][0] != res[1][0]:
        raise Violation(f"C20:api-{case['kind']}:string-vs-lambda",
                        f"{src!r} on outcomes {occ}: string -> {res[0][:2]}, lambda -> {res[1][:2]}")
    if res[0][0] == "ok":
        for a, b in zip(res[0][2], res[1][2]):
            if a.shape != b.shape or np.max(np.abs(a - b)) > 1e-12:
                raise Violation(f"C20:api-{case['kind']}:state-differs",
                                f"{src!r} on outcomes {occ}: states differ")
    # independent oracle: the measurement is deterministic (outcomes == occ), so Python's
    # own value of the expression decides what must have happened to the remaining photon
    # Python's value on the outcome objects the simulator actually hands over (numpy
    # integers: e.g. 0 / np.int32(0) is nan with a warning, not a ZeroDivisionError)
    actual = res[0][1][0] if res[0][0] == "ok" and res[0][1] else tuple(
        np.int32(v) for v in occ)
    if [int(v) for v in actual] != list(occ):
        raise Violation(f"C20:api-{case['kind']}:outcomes", f"outcomes {actual} != {occ}")
    try:
        with np.errstate(all="ignore"):
            value, py_exc = py_eval(src, tuple(actual)), None
    except Exception as err:  # noqa: BLE001
        value, py_exc = None, err
    if py_exc is not None:
        if res[0][0] == "ok":
            raise Violation(f"C20:api-{case['kind']}:python-raises-but-program-ran",
                            f"{src!r} on outcomes {actual!r}: Python raises {py_exc!r}")
        return
    if case["kind"] == "when":
        try:
            phase = 0.3 if bool(value) else 0.0
        except Exception:  # noqa: BLE001 — truth value undefined (e.g. array)
            ctx.count("api_condition_truth_value_undefined")
            return
    else:
        if isinstance(value, (bool, int, float, np.integer, np.floating, np.bool_)) \
                and math.isfinite(float(value)):
            phase = float(value)
        else:
            ctx.count("api_param_not_a_number")
            return
    if res[0][0] != "ok":
        raise Violation(f"C20:api-{case['kind']}:refused-valid",
                        f"{src!r} on outcomes {occ} (Python value {value!r}): {res[0][:2]}")
    if len(res[0][2]) != 1:
        raise Violation(f"C20:api-{case['kind']}:branches", f"{len(res[0][2])} branches")
    vec = res[0][2][0]
    k = int(np.argmax(np.abs(vec)))
    want = np.exp(1j * phase)
    if abs(abs(vec[k]) - 1) > 1e-9 or abs(vec[k] - want) > 1e-9:
        raise Violation(
            f"C20:api-{case['kind']}:{'condition-truth-value' if case['kind'] == 'when' else 'parameter-value'}",
            f"{src!r} on outcomes {occ}: Python gives {value!r}, so the photon must carry the "
            f"phase {phase}; amplitude {vec[k]} != {want}")
    ctx.count(f"api_{case['kind']}_oracle_checked")


# ------------------------------------------------------------------- atheris fuzzing

def run_atheris(ctx, tier):
    """Coverage-guided fuzzing of Expression construction + evaluation with the same
    oracle, in a subprocess (libFuzzer owns the process)."""
    import json
    import os
    import subprocess
    import sys
    import tempfile
    from pathlib import Path

    verif = Path(__file__).resolve().parent.parent
    runs = {"quick": 60000, "thorough": 3000000}[tier]
    if not (verif / ".deps" / "atheris").exists():
        ctx.notes["atheris_not_installed"] += 1
        return
    with tempfile.TemporaryDirectory(dir=str(verif / ".build")) as td:
        out = Path(td) / "out.json"
        corpus = Path(td) / "corpus"
        corpus.mkdir()
        env = dict(os.environ, C20_FUZZ_OUT=str(out))
        cmd = [sys.executable, str(verif / "fuzz" / "c20_fuzz_target.py"), str(corpus),
               f"-runs={runs}", f"-seed={(ctx.seed * 1000003 + ctx.shard) % (2**31 - 1) + 1}",
               "-max_len=96", "-timeout=20", "-rss_limit_mb=4096", f"-artifact_prefix={td}/"]
        p = subprocess.run(cmd, env=env, capture_output=True, text=True,
                           timeout=ctx.deadline - __import__("time").monotonic() + 600)
        if out.exists():
            data = json.loads(out.read_text())
            ctx.evaluations += data["execs"]
            ctx.classes["atheris_execs"] += data["execs"]
            ctx.classes["atheris_accepted"] += data["accepted"]
            ctx.classes["atheris_rejected"] += data["rejected"]
            for h in data["hashes"]:
                ctx.hashes.add(h)
            for f in data["failures"]:
                ctx.add_failure("grammar" if f["kind"] == "eval" else "hostile",
                                f["bucket"], f["case"], f["message"])
        elif p.returncode != 0:
            raise RuntimeError(f"atheris target failed rc={p.returncode}: {p.stderr[-1500:]}")


def parts(tier):
    return [
        Part("hostile", prop_hostile, kind="enum", cases=hostile_cases),
        Part("grammar", prop_grammar, strategy=grammar_case(),
             examples={"quick": 16000, "thorough": 600000}),
        Part("lazy", prop_lazy, strategy=lazy_case(),
             examples={"quick": 3000, "thorough": 100000}),
        Part("mutation", prop_mutation, strategy=mutation_case(),
             examples={"quick": 4000, "thorough": 200000}),
        Part("api", prop_api, strategy=api_case(),
             examples={"quick": 240, "thorough": 6000}),
        Part("atheris", None, kind="custom", run=run_atheris,
             budget_s={"quick": 120, "thorough": 1500}),
    ]
