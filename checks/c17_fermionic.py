"""C17 — the fermionic simulators agree with each other and with exclusion.

Parts (DESIGN.md §2/C17):
  equiv         occupation input, <= 10 gates (Interferometer / Beamsplitter / Phaseshifter /
                Squeezing2 / IsingXX on ascending consecutive modes): fermionic Gaussian
                simulator vs fermionic pure Fock simulator vs the dense Jordan-Wigner
                reference (lib/fermi_ref.py); small cutoffs for passive-only programs.
  gaussian_only Gaussian simulator vs reference with GaussianHamiltonian (random quadratic
                Hamiltonians on arbitrary ordered mode subsets, and Hamiltonians that encode
                one of the built-in gates) and ParentHamiltonian (thermal) inputs.
  fock_super    pure Fock simulator vs reference on <= 3-term superpositions of equal parity.
  pf_cov_cutoff regression grid of the (fixed, d904cda) PureFockState.covariance_matrix
                IndexError: every (d, cutoff <= d) enumerated; the search parts compare
                covariance matrices at every cutoff as well.
  g_density_matrix  GaussianState.density_matrix (the observable the repository's own
                equivalence tests compare) against the reference; kept in a part of its own
                because it is not among the observables the property statement names.
"""

from __future__ import annotations

import itertools
import math
import random as pyrandom

import numpy as np
from hypothesis import strategies as st

from lib import bootstrap, progs
from lib import fermi_ref as R
from lib.harness import Part, Violation

pq = bootstrap.load()

PID = "C17"
LEVEL = "exploration"
SHARDS = {"quick": 8, "thorough": 16}
RULE = (
    "Hypothesis-generated fermionic programs: d<=5, occupation input in {0,1}^d (or a "
    "<=3-term equal-parity superposition / a thermal ParentHamiltonian state), 1..10 gates "
    "from Interferometer (Haar/perm/diag/real on 1..d ascending consecutive modes), "
    "Beamsplitter, Phaseshifter, Squeezing2, IsingXX on (k,k+1), GaussianHamiltonian on "
    "ordered mode subsets (Gaussian simulator only); Fock cutoff d+1, and n+1..d+2 for "
    "passive-only programs. Every case is executed on the real simulators and on the dense "
    "Jordan-Wigner reference. Non-trivial = >=2 particles in the input, >=1 gate on "
    "(k,k+1,..) with k>0 and an occupied input mode below k, and a final distribution "
    "that is not a point mass (max p < 0.999); distinct by hash of the case description."
)
ASSUMPTIONS = [
    "trusted base: numpy/scipy (kron, expm, schur, eigh) and lib/fermi_ref.py (textbook "
    "Jordan-Wigner f_k = Z^k (x) |0><1| (x) 1, |n> = prod_k (f_k^+)^{n_k}|vac> ascending); "
    "the reference self-tests against the closed-form actions printed in the docstrings "
    "of Squeezing2, IsingXX, Interferometer, Phaseshifter at import",
    "calibrated once (documentation contradictory): covariance_matrix is in the interleaved "
    "Majorana order [x_1,p_1,..,x_d,p_d] (get_majorana_operators / IsingXX docstring), not "
    "the [x_1..x_d,p_1..p_d] of the package docstring Eq.(majorana) that the "
    "covariance_matrix docstrings cite; calibrated on NumberState([1,0]) with no gate",
    "calibrated once (documentation contradictory): GaussianHamiltonian's quadratic form is "
    "read as sum_ab H_ab F_a F_b^+ with F=[f_1..f_d,f_1^+..f_d^+] (i.e. bold-f^+ H bold-f "
    "with the package-level bold-f, the form ParentHamiltonian documents and "
    "get_fermionic_hamiltonian spells out), not bold-f H bold-f^+ as its docstring "
    "literally says; calibrated on a one-mode-pair GaussianHamiltonian",
    "Beamsplitter: the documented transfer matrix [[t,-conj r],[r,t]] is used as the "
    "one-particle unitary (Interferometer docstring); the operator formula printed in the "
    "same docstring corresponds to its transpose (i and j exchanged) and is not used",
    "Squeezing2: the anti-Hermitian ordering (conj(z) f_j f_i - z f_i^+ f_j^+)/2 is used; "
    "it reproduces the action on |00>,|11> printed in the docstring (the literal a->f "
    "substitution is self-adjoint, hence not a unitary generator)",
    "tolerances: 1e-9 absolute on covariance entries, Fock-simulator probabilities and "
    "density-matrix entries; Gaussian-simulator probabilities are sqrt(det) so an absolute "
    "rounding error delta=1e-14 of the determinant allows 1e-9 + min(sqrt(delta), "
    "delta/(2p)) (1e-7 at p=0, 1e-9 for p>1e-5; observed worst error 6e-14)",
    "thermal (ParentHamiltonian) inputs: 1e-9 + 1e-15*||expm(2H)||_2, because the simulator "
    "forms inv(1+expm(2H)) whose rounding error was measured as <= 0.9*eps*||expm(2H)||_2",
    "PureFockState.get_particle_detection_probability is only queried below the cutoff "
    "(above it it raises IndexError like its bosonic counterpart; treated as out of domain)",
    "NumPy connector, float64 only (connector independence is C09)",
]
# Fractions of the evaluations of a quiet full run (the framework does not evaluate floors
# with --part or when violations exist); measured: 0.32 / 0.115 / 0.45 / 0.12.
FLOORS = {"jw_string_below": 0.20, "interferometer_3plus_2particles": 0.06,
          "active_gate": 0.25, "small_cutoff": 0.06}

TOL = 1e-9
DET_DELTA = 1e-14
B_PFCOV = "C17:PF:covariance_matrix:cutoff<=d:raises"

FSim = pq.fermionic.PureFockSimulator
GSim = pq.fermionic.GaussianSimulator

PASSIVE = ("Interferometer", "Beamsplitter", "Phaseshifter")
ACTIVE = ("Squeezing2", "IsingXX")


# --------------------------------------------------------------------------- matrices

def quadratic_hamiltonian(k: int, seed: int, scale: float, passive: bool) -> np.ndarray:
    """[[-conj A, B], [-conj B, A]] with A self-adjoint and B skew-symmetric."""
    rng = progs.rng_of(seed)
    a = rng.normal(size=(k, k)) + 1j * rng.normal(size=(k, k))
    a = (a + a.conj().T) / 2 * scale
    b = rng.normal(size=(k, k)) + 1j * rng.normal(size=(k, k))
    b = (b - b.T) / 2 * (0.0 if passive else scale)
    return np.block([[-a.conj(), b], [-b.conj(), a]])


def encoding_hamiltonian(g: dict) -> np.ndarray:
    """The quadratic Hamiltonian whose GaussianHamiltonian gate is the built-in gate g.

    Derived by hand from the documented generators with H^ = sum H_ab F_a F_b^+ =
    2 sum A_ab f_a^+ f_b + sum B_ab f_a f_b - conj(B)_ab f_a^+ f_b^+ + const.
    """
    name, p, k = g["g"], g["p"], len(g["modes"])
    a = np.zeros((k, k), dtype=complex)
    b = np.zeros((k, k), dtype=complex)
    if name == "Interferometer":
        a = R.hermitian_log(matrix_of(g)) / 2
    elif name == "Beamsplitter":
        a = R.hermitian_log(R.beamsplitter_matrix(p["theta"], p["phi"])) / 2
    elif name == "Phaseshifter":
        a[0, 0] = p["phi"] / 2
    elif name == "Squeezing2":
        z = p["r"] * np.exp(1j * p["phi"])
        b[0, 1] = 1j * np.conj(z) / 4
        b[1, 0] = -b[0, 1]
    elif name == "IsingXX":
        a[0, 1] = a[1, 0] = p["phi"] / 2
        b[0, 1] = -p["phi"] / 2
        b[1, 0] = p["phi"] / 2
    else:
        raise KeyError(name)
    return np.block([[-a.conj(), b], [-b.conj(), a]])


def matrix_of(g: dict) -> np.ndarray:
    p, k = g["p"], len(g["modes"])
    if g["g"] == "Interferometer":
        return progs.haar_unitary(k, p["seed"], p.get("kind", "haar"))
    if g["g"] == "GaussianHamiltonian":
        if "encodes" in p:
            return encoding_hamiltonian(p["encodes"])
        return quadratic_hamiltonian(k, p["seed"], p["scale"], p.get("passive", False))
    raise KeyError(g["g"])


def make_gate(g: dict):
    name, p = g["g"], g["p"]
    if name == "Interferometer":
        return pq.Interferometer(matrix_of(g))
    if name == "GaussianHamiltonian":
        return pq.fermionic.GaussianHamiltonian(matrix_of(g))
    if name == "IsingXX":
        return pq.fermionic.IsingXX(phi=p["phi"])
    if name == "Beamsplitter":
        return pq.Beamsplitter(theta=p["theta"], phi=p["phi"])
    if name == "Phaseshifter":
        return pq.Phaseshifter(phi=p["phi"])
    if name == "Squeezing2":
        return pq.Squeezing2(r=p["r"], phi=p["phi"])
    raise KeyError(name)


def is_passive(g: dict) -> bool:
    if g["g"] in PASSIVE:
        return True
    if g["g"] == "GaussianHamiltonian":
        p = g["p"]
        if "encodes" in p:
            return p["encodes"]["g"] in PASSIVE
        return bool(p.get("passive", False))
    return False


# --------------------------------------------------------------------------- execution

def add_prep(prep: dict, d: int):
    kind = prep["kind"]
    if kind == "number":
        pq.Q() | pq.NumberState(list(prep["occ"]))
    elif kind == "super":
        pq.Q() | pq.FockStateVector(
            {tuple(o): complex(a[0], a[1]) for o, a in prep["terms"]})
    elif kind == "parent":
        pq.Q() | pq.fermionic.ParentHamiltonian(
            quadratic_hamiltonian(d, prep["seed"], prep["scale"], False))
    else:
        raise KeyError(kind)


def program(case: dict, gates, measure=None):
    with pq.Program() as prog:
        add_prep(case["prep"], case["d"])
        for g in gates:
            pq.Q(*g["modes"]) | make_gate(g)
        if measure is not None:
            pq.Q(*measure) | pq.ParticleNumberMeasurement()
    return prog


def execute(kind: str, case: dict, gates, what: str, measure=None, shots=None):
    d = case["d"]
    try:
        if kind == "G":
            sim = GSim(d=d, config=pq.Config(seed_sequence=case.get("sseed", 0) + 1))
        else:
            sim = FSim(d=d, config=pq.Config(cutoff=case["cutoff"],
                                             seed_sequence=case.get("sseed", 0) + 1))
            pyrandom.seed(case.get("sseed", 0))  # the Fock sampler uses the global `random`
        prog = program(case, gates, measure)
        if shots:
            return sim.execute(prog, shots=shots)
        return sim.execute(prog).state
    except Exception as e:  # a valid shared program must run on both simulators
        raise Violation(f"C17:{what}:{kind}:raises:{type(e).__name__}",
                        f"{kind} raised {type(e).__name__}: {str(e)[:300]}")


def ref_rho0(case: dict) -> np.ndarray:
    d, prep = case["d"], case["prep"]
    if prep["kind"] == "number":
        v = R.basis_state(prep["occ"])
    elif prep["kind"] == "super":
        v = np.zeros(2 ** d, dtype=complex)
        for o, a in prep["terms"]:
            v[R.basis_index(o)] += complex(a[0], a[1])
    else:
        return R.thermal_state(d, quadratic_hamiltonian(d, prep["seed"], prep["scale"], False))
    return np.outer(v, v.conj())


def pf_density_matrix(state, d: int) -> np.ndarray:
    """|psi><psi| of the Fock simulator re-indexed to the computational basis, using only
    the public occupation-number labelling (fock_probabilities_map keys order)."""
    keys = list(state.fock_probabilities_map.keys())
    vec = np.zeros(2 ** d, dtype=complex)
    sv = np.asarray(state.state_vector)
    if len(keys) != len(sv):
        raise Violation("C17:PF:basis-size", f"{len(keys)} labels for {len(sv)} amplitudes")
    for k, amp in zip(keys, sv):
        vec[R.basis_index(k)] = amp
    return np.outer(vec, vec.conj())


def gtol(p: float, tol: float = TOL) -> float:
    p = max(float(p), 0.0)
    return tol + min(math.sqrt(DET_DELTA), DET_DELTA / (2 * p) if p > 0 else 1.0)


def case_tol(case: dict) -> float:
    """1e-9 (1 + scale): ParentHamiltonian computes inv(1 + expm(2H)); its rounding error
    is eps * ||expm(2H)||_2 (measured ratio <= 0.9 over 360 thermal states), so thermal
    inputs get 1e-9 + 1e-15 ||expm(2H)||_2 (ten times the measured law)."""
    prep = case["prep"]
    if prep["kind"] != "parent":
        return TOL
    h = quadratic_hamiltonian(case["d"], prep["seed"], prep["scale"], False)
    w = np.linalg.eigvalsh((h + h.conj().T) / 2)
    return TOL + 1e-15 * math.exp(2 * float(w.max()))


def maxdiff(a, b) -> float:
    a, b = np.asarray(a), np.asarray(b)
    if a.shape != b.shape:
        return float("inf")
    return float(np.max(np.abs(a - b))) if a.size else 0.0


# --------------------------------------------------------------------------- oracles

def check_gaussian_state(G, rho, d, tag, tol=TOL):
    """Gaussian-simulator state against the reference density matrix."""
    occs = R.occupations(d)
    pref = R.probabilities(rho)
    cref = R.covariance(rho, d)
    cov = np.asarray(G.covariance_matrix)
    if np.iscomplexobj(cov) and np.abs(cov.imag).max() > 0:
        raise Violation(f"C17:{tag}:G:covariance:not-real", "complex covariance matrix")
    if maxdiff(cov, cref) > tol:
        raise Violation(f"C17:{tag}:G:covariance:ref",
                        f"Gaussian covariance differs from Jordan-Wigner reference by "
                        f"{maxdiff(cov, cref):.3e}")
    if maxdiff(cov, -cov.T) > tol:
        raise Violation(f"C17:{tag}:G:covariance:skew", "covariance not skew-symmetric")
    pg = np.array([float(np.real(G.get_particle_detection_probability(np.array(o))))
                   for o in occs])
    for o, a, b in zip(occs, pg, pref):
        if abs(a - b) > gtol(b, tol):
            raise Violation(f"C17:{tag}:G:detection-probability:ref",
                            f"p{o}: Gaussian {a!r} reference {b!r}")
    fp = np.real(np.asarray(G.fock_probabilities, dtype=complex))
    if fp.shape != (2 ** d,) or maxdiff(fp, pg) > 0:
        # documented as lexicographic: index = binary number n_0 n_1 .. n_{d-1}
        raise Violation(f"C17:{tag}:G:fock_probabilities:order",
                        "fock_probabilities is not get_particle_detection_probability in "
                        f"lexicographic order (max diff {maxdiff(fp, pg):.3e})")
    if abs(pg.sum() - 1) > (tol if tol == TOL else 2 ** d * tol) + sum(
            gtol(b, tol) - tol for b in pref):
        raise Violation(f"C17:{tag}:G:probabilities:sum", f"sum = {pg.sum()!r}")
    par = complex(G.get_parity_operator_expectation_value())
    pr = R.parity(rho, d)
    if abs(par - pr) > (tol if tol == TOL else 2 * d * tol):
        raise Violation(f"C17:{tag}:G:parity:ref", f"parity {par!r}, reference {pr!r}")
    mean = np.asarray(G.mean_particle_numbers(list(range(d))))
    mref = [sum(p for o, p in zip(occs, pref) if o[m]) for m in range(d)]
    if maxdiff(mean, np.array(mref)) > tol:
        raise Violation(f"C17:{tag}:G:mean_particle_numbers:ref",
                        f"{mean.tolist()} vs {mref}")
    return pg, cov


def pf_covariance(F, d, cutoff):
    """PureFockState.covariance_matrix at any cutoff (must not raise)."""
    try:
        return np.asarray(F.covariance_matrix)
    except Exception as e:
        raise Violation(B_PFCOV if cutoff <= d else "C17:PF:covariance_matrix:raises",
                        f"PureFockState.covariance_matrix raised {type(e).__name__}: {e} "
                        f"for d={d}, cutoff={cutoff} (the program itself runs)")


def check_fock_state(F, rho, d, cutoff, tag, ctx):
    occs = R.occupations(d)
    pref = R.probabilities(rho)
    dm = pf_density_matrix(F, d)
    if maxdiff(dm, rho) > TOL:
        raise Violation(f"C17:{tag}:PF:density-matrix:ref",
                        f"|psi><psi| differs from reference by {maxdiff(dm, rho):.3e}")
    fmap = F.fock_probabilities_map
    for k in fmap:
        if len(k) != d or any(int(x) not in (0, 1) for x in k):
            raise Violation(f"C17:{tag}:PF:exclusion:basis", f"basis label {k}")
    if len(set(fmap)) != len(list(fmap)) or len(fmap) != sum(
            math.comb(d, n) for n in range(min(cutoff, d + 1))):
        raise Violation(f"C17:{tag}:PF:basis-size", f"{len(fmap)} basis labels")
    pf = np.zeros(2 ** d)
    for k, v in fmap.items():
        if abs(complex(v).imag) > TOL:
            raise Violation(f"C17:{tag}:PF:probability:not-real", f"{k}: {v!r}")
        pf[R.basis_index(k)] = float(np.real(v))
    if maxdiff(pf, pref) > TOL:
        raise Violation(f"C17:{tag}:PF:fock_probabilities:ref",
                        f"max diff {maxdiff(pf, pref):.3e}")
    for o in occs:
        if sum(o) < cutoff:
            a = float(np.real(F.get_particle_detection_probability(np.array(o))))
            if abs(a - pref[R.basis_index(o)]) > TOL:
                raise Violation(f"C17:{tag}:PF:detection-probability:ref",
                                f"p{o}: Fock {a!r} reference {pref[R.basis_index(o)]!r}")
    if abs(complex(F.norm) - 1) > TOL or abs(pf.sum() - 1) > TOL:
        raise Violation(f"C17:{tag}:PF:probabilities:sum", f"norm {F.norm!r}")
    cov = pf_covariance(F, d, cutoff)
    cref = R.covariance(rho, d)
    if maxdiff(cov, cref) > TOL:
        raise Violation(f"C17:{tag}:PF:covariance:ref",
                        f"Fock covariance (cutoff {cutoff}) differs from reference by "
                        f"{maxdiff(cov, cref):.3e}")
    return pf, cov


def check_samples(kind, case, gates, rho, tag):
    d = case["d"]
    modes = case.get("measure")
    if modes is None:
        return
    res = execute(kind, case, gates, tag + ":sampling", measure=modes, shots=case["shots"])
    samples = list(res.samples)
    if len(samples) != case["shots"]:
        raise Violation(f"C17:{tag}:{kind}:samples:count", f"{len(samples)} samples")
    pref = R.probabilities(rho)
    occs = R.occupations(d)
    for s in samples:
        s = tuple(s)
        if len(s) != len(modes) or any(
                not (isinstance(x, (int, np.integer)) and int(x) in (0, 1)) for x in s):
            raise Violation(f"C17:{tag}:{kind}:samples:exclusion",
                            f"sample {s!r} on modes {modes} is not in {{0,1}}^{len(modes)}")
        marg = sum(p for o, p in zip(occs, pref)
                   if all(o[m] == int(x) for m, x in zip(modes, s)))
        if marg < 1e-6:
            raise Violation(f"C17:{tag}:{kind}:samples:support",
                            f"sample {s!r} on modes {modes} has reference probability "
                            f"{marg:.3e}")


def jw_classes(case):
    d, gates = case["d"], case["gates"]
    prep = case["prep"]
    cl = []
    if prep["kind"] == "number":
        occ = prep["occ"]
    elif prep["kind"] == "super":
        occ = [max(o[m] for o, _ in prep["terms"]) for m in range(d)]
    else:
        occ = [1] * d
    n = sum(occ)
    below = n >= 2 and any(min(g["modes"]) > 0 and len(g["modes"]) >= 2
                           and any(occ[m] for m in range(min(g["modes"])))
                           for g in gates)
    if below:
        cl.append("jw_string_below")
    if any(g["g"] == "Interferometer" and len(g["modes"]) >= 3
           and g["p"].get("kind", "haar") in ("haar", "real", "perm")
           for g in gates) and n >= 2:
        cl.append("interferometer_3plus_2particles")
    if any(not is_passive(g) for g in gates):
        cl.append("active_gate")
    else:
        cl.append("passive_only")
    return below, cl


# --------------------------------------------------------------------------- strategies

def gate_strategy(d: int, names):
    @st.composite
    def one(draw):
        avail = [n for n in names if d >= 2 or n in ("Interferometer", "Phaseshifter")]
        name = draw(st.sampled_from(avail))
        if name == "Interferometer":
            k = draw(st.integers(1, d))
            lo = draw(st.integers(0, d - k))
            return {"g": name, "modes": list(range(lo, lo + k)),
                    "p": {"seed": draw(st.integers(0, 2 ** 32)),
                          "kind": draw(st.sampled_from(
                              ["haar", "haar", "haar", "haar", "perm", "diag", "real"]))}}
        if name == "Phaseshifter":
            return {"g": name, "modes": [draw(st.integers(0, d - 1))],
                    "p": {"phi": draw(progs.angle())}}
        lo = draw(st.integers(0, d - 2))
        modes = [lo, lo + 1]
        if name == "Beamsplitter":
            p = {"theta": draw(progs.angle()), "phi": draw(progs.angle())}
        elif name == "Squeezing2":
            p = {"r": draw(progs.angle()), "phi": draw(progs.angle())}
        else:
            p = {"phi": draw(progs.angle())}
        return {"g": name, "modes": modes, "p": p}
    return one()


@st.composite
def occupation(draw, d, nmin=0):
    occ = draw(st.lists(st.integers(0, 1), min_size=d, max_size=d))
    if sum(occ) < nmin:
        occ = [1] * min(d, nmin) + occ[min(d, nmin):]
    return occ


@st.composite
def measure_spec(draw, d):
    if draw(st.integers(0, 3)) == 0:
        return None, 0
    modes = sorted(draw(st.sets(st.integers(0, d - 1), min_size=1, max_size=d)))
    return modes, draw(st.integers(1, 6))


@st.composite
def equiv_case(draw):
    d = draw(st.sampled_from([1, 2, 3, 3, 4, 4, 4, 5, 5]))
    occ = draw(occupation(d, nmin=draw(st.sampled_from([0, 2, 2]))))
    passive_only = draw(st.integers(0, 3)) == 0
    names = list(PASSIVE) if passive_only else list(PASSIVE + ACTIVE) + list(ACTIVE)
    gates = draw(st.lists(gate_strategy(d, names), min_size=1, max_size=10))
    n = sum(occ)
    if all(is_passive(g) for g in gates):
        cutoff = draw(st.sampled_from(sorted({n + 1, min(n + 2, d + 1), d + 1, d + 1, d + 2})))
    else:
        cutoff = d + 1
    modes, shots = draw(measure_spec(d))
    return {"d": d, "prep": {"kind": "number", "occ": occ}, "gates": gates,
            "cutoff": cutoff, "measure": modes, "shots": shots,
            "sseed": draw(st.integers(0, 2 ** 20))}


@st.composite
def ghamiltonian_gate(draw, d):
    if draw(st.booleans()):
        g = draw(gate_strategy(d, list(PASSIVE + ACTIVE)))
        return {"g": "GaussianHamiltonian", "modes": g["modes"], "p": {"encodes": g}}
    modes = draw(progs.ordered_modes(d))
    return {"g": "GaussianHamiltonian", "modes": modes,
            "p": {"seed": draw(st.integers(0, 2 ** 32)),
                  "scale": draw(st.sampled_from([0.1, 0.5, 1.0, 2.0])),
                  "passive": draw(st.integers(0, 3)) == 0}}


@st.composite
def gaussian_case(draw):
    d = draw(st.sampled_from([1, 2, 3, 3, 4, 4, 5]))
    if draw(st.integers(0, 2)) == 0:
        prep = {"kind": "parent", "seed": draw(st.integers(0, 2 ** 32)),
                "scale": draw(st.sampled_from([0.2, 0.7, 1.5]))}
    else:
        prep = {"kind": "number", "occ": draw(occupation(d, nmin=draw(st.sampled_from([0, 2]))))}
    plain = gate_strategy(d, list(PASSIVE + ACTIVE))
    gates = draw(st.lists(st.one_of(ghamiltonian_gate(d), ghamiltonian_gate(d), plain),
                          min_size=1, max_size=8))
    if not any(g["g"] == "GaussianHamiltonian" for g in gates) and prep["kind"] != "parent":
        gates.append(draw(ghamiltonian_gate(d)))
    modes, shots = draw(measure_spec(d))
    return {"d": d, "prep": prep, "gates": gates, "measure": modes, "shots": shots,
            "sseed": draw(st.integers(0, 2 ** 20))}


@st.composite
def super_case(draw):
    d = draw(st.sampled_from([2, 3, 3, 4, 4, 5]))
    parity = draw(st.integers(0, 1))
    pool = [list(o) for o in itertools.product((0, 1), repeat=d) if sum(o) % 2 == parity]
    nterms = draw(st.integers(2, min(3, len(pool))))
    idx = draw(st.lists(st.integers(0, len(pool) - 1), min_size=nterms, max_size=nterms,
                        unique=True))
    terms = []
    for i in idx:
        re = draw(st.floats(-1, 1, allow_nan=False, width=32))
        im = draw(st.floats(-1, 1, allow_nan=False, width=32))
        if abs(re) + abs(im) < 1e-2:
            re = 1.0
        terms.append([pool[i], [re, im]])
    nrm = math.sqrt(sum(a[0] ** 2 + a[1] ** 2 for _, a in terms))
    terms = [[o, [a[0] / nrm, a[1] / nrm]] for o, a in terms]
    passive_only = draw(st.integers(0, 3)) == 0
    names = list(PASSIVE) if passive_only else list(PASSIVE + ACTIVE)
    gates = draw(st.lists(gate_strategy(d, names), min_size=1, max_size=10))
    nmax = max(sum(o) for o, _ in terms)
    if all(is_passive(g) for g in gates):
        cutoff = draw(st.sampled_from(sorted({nmax + 1, d + 1, d + 1, d + 2})))
    else:
        cutoff = d + 1
    modes, shots = draw(measure_spec(d))
    return {"d": d, "prep": {"kind": "super", "terms": terms}, "gates": gates,
            "cutoff": cutoff, "measure": modes, "shots": shots,
            "sseed": draw(st.integers(0, 2 ** 20))}


# --------------------------------------------------------------------------- properties

def last_active_index(gates) -> int:
    idx = -1
    for i, g in enumerate(gates):
        if not is_passive(g):
            idx = i
    return idx


def prop_equiv(case, ctx):
    d, gates, cutoff = case["d"], case["gates"], case["cutoff"]
    occ = case["prep"]["occ"]
    n = sum(occ)
    rho = R.run(d, occ, gates, matrix_of)
    pref = R.probabilities(rho)
    below, cl = jw_classes(case)
    cl += [f"d{d}", "part_equiv"]
    if cutoff < d + 1:
        cl.append("small_cutoff")
    elif cutoff > d + 1:
        cl.append("cutoff_above_full")
    ctx.case(case, below and float(pref.max()) < 0.999, cl)

    G = execute("G", case, gates, "equiv")
    F = execute("PF", case, gates, "equiv")

    # (i) differential
    covG = np.asarray(G.covariance_matrix)
    covF = pf_covariance(F, d, cutoff)
    if maxdiff(covG, covF) > TOL:
        cref = R.covariance(rho, d)
        raise Violation("C17:diff:covariance",
                        f"Gaussian vs Fock covariance differ by {maxdiff(covG, covF):.3e}"
                        f" (G-ref {maxdiff(covG, cref):.2e}, PF-ref "
                        f"{maxdiff(covF, cref):.2e})")
    for o in R.occupations(d):
        if sum(o) >= cutoff:
            continue
        a = float(np.real(G.get_particle_detection_probability(np.array(o))))
        b = float(np.real(F.get_particle_detection_probability(np.array(o))))
        if abs(a - b) > gtol(b):
            r = pref[R.basis_index(o)]
            raise Violation("C17:diff:detection-probability",
                            f"p{o}: Gaussian {a!r} Fock {b!r} (reference {r!r})")
    # (ii) reference
    pg, _ = check_gaussian_state(G, rho, d, "equiv")
    pf, _ = check_fock_state(F, rho, d, cutoff, "equiv", ctx)

    # (iii) invariants
    par0 = (-1.0) ** n
    parG = complex(G.get_parity_operator_expectation_value())
    if abs(parG - par0) > TOL:
        raise Violation("C17:invariant:G:parity",
                        f"parity {parG!r} after the gates, {par0} before")
    parF = sum(p * (-1.0) ** sum(o) for o, p in zip(R.occupations(d), pf))
    if abs(parF - par0) > TOL:
        raise Violation("C17:invariant:PF:parity",
                        f"parity {parF!r} after the gates, {par0} before")
    # particle-number distribution conserved by the passive suffix
    la = last_active_index(gates)
    if la < len(gates) - 1:
        if la < 0:
            want = np.zeros(d + 1)
            want[n] = 1.0
            wantG = wantF = want
        else:
            Gp = execute("G", case, gates[:la + 1], "equiv:prefix")
            Fp = execute("PF", case, gates[:la + 1], "equiv:prefix")
            wantG = R.number_distribution(np.real(np.asarray(Gp.fock_probabilities)), d)
            ppf = np.zeros(2 ** d)
            for k, v in Fp.fock_probabilities_map.items():
                ppf[R.basis_index(k)] = float(np.real(v))
            wantF = R.number_distribution(ppf, d)
        gotG = R.number_distribution(pg, d)
        gotF = R.number_distribution(pf, d)
        slack = (2 ** d) * math.sqrt(DET_DELTA)
        if maxdiff(gotG, wantG) > TOL + slack:
            raise Violation("C17:invariant:G:number-distribution",
                            f"passive gates changed the particle-number distribution: "
                            f"{wantG.tolist()} -> {gotG.tolist()}")
        if maxdiff(gotF, wantF) > TOL:
            raise Violation("C17:invariant:PF:number-distribution",
                            f"passive gates changed the particle-number distribution: "
                            f"{wantF.tolist()} -> {gotF.tolist()}")
        ctx.count("number_conservation_checked")
    check_samples("G", case, gates, rho, "equiv")
    check_samples("PF", case, gates, rho, "equiv")


def prop_gaussian(case, ctx):
    d, gates = case["d"], case["gates"]
    rho0 = ref_rho0(case)
    rho = R.run(d, None, gates, matrix_of, rho0=rho0)
    below, cl = jw_classes(case)
    cl += [f"d{d}", "part_gaussian_only", "prep_" + case["prep"]["kind"]]
    if any(g["g"] == "GaussianHamiltonian" and "encodes" in g["p"] for g in gates):
        cl.append("hamiltonian_encodes_gate")
    if any(g["g"] == "GaussianHamiltonian" and list(g["modes"]) != sorted(g["modes"])
           for g in gates):
        cl.append("hamiltonian_nonascending_modes")
    ctx.case(case, below and float(R.probabilities(rho).max()) < 0.999, cl)

    tol = case_tol(case)
    if tol > 2 * TOL:
        ctx.count("thermal_tolerance_widened")
    G = execute("G", case, gates, "gaussian_only")
    _, cov = check_gaussian_state(G, rho, d, "gaussian_only", tol)
    # parity conserved by every gate (thermal inputs: any value in [-1, 1])
    par0 = R.parity(rho0, d)
    parG = complex(G.get_parity_operator_expectation_value())
    if abs(parG - par0) > (tol if tol == TOL else 2 * d * tol):
        raise Violation("C17:invariant:G:parity",
                        f"parity {parG!r} after the gates, {par0!r} before")
    # GaussianHamiltonian(H) equals the gate it encodes
    if "hamiltonian_encodes_gate" in cl:
        plain = [g["p"]["encodes"] if g["g"] == "GaussianHamiltonian" and "encodes" in g["p"]
                 else g for g in gates]
        for g in plain:  # harness self-check of the hand-derived encodings (reference only)
            if g["g"] != "GaussianHamiltonian":
                u1 = R.gate_unitary(d, g, matrix_of)
                u2 = R.gate_unitary(d, {"g": "GaussianHamiltonian", "modes": g["modes"],
                                        "p": {"encodes": g}}, matrix_of)
                ph = np.trace(u1.conj().T @ u2) / 2 ** d
                if abs(abs(ph) - 1) > 1e-9 or maxdiff(u2, ph * u1) > 1e-9:
                    raise AssertionError(f"encoding of {g} is wrong in the harness")
        G2 = execute("G", case, plain, "gaussian_only:plain")
        if maxdiff(np.asarray(G2.covariance_matrix), cov) > tol:
            raise Violation("C17:hamiltonian-encodes-gate:covariance",
                            "GaussianHamiltonian(H) and the built-in gate it encodes give "
                            f"covariances differing by "
                            f"{maxdiff(np.asarray(G2.covariance_matrix), cov):.3e}")
    # passive suffix conserves the number distribution
    la = last_active_index(gates)
    if la < len(gates) - 1:
        Gp = execute("G", case, gates[:la + 1], "gaussian_only:prefix")
        want = R.number_distribution(np.real(np.asarray(Gp.fock_probabilities)), d)
        got = R.number_distribution(np.real(np.asarray(G.fock_probabilities)), d)
        if maxdiff(got, want) > 2 ** d * (tol + math.sqrt(DET_DELTA)):
            raise Violation("C17:invariant:G:number-distribution",
                            f"passive gates changed the particle-number distribution: "
                            f"{want.tolist()} -> {got.tolist()}")
        ctx.count("number_conservation_checked")
    check_samples("G", case, gates, rho, "gaussian_only")


def prop_super(case, ctx):
    d, gates, cutoff = case["d"], case["gates"], case["cutoff"]
    rho0 = ref_rho0(case)
    rho = R.run(d, None, gates, matrix_of, rho0=rho0)
    below, cl = jw_classes(case)
    cl += [f"d{d}", "part_fock_super"]
    if cutoff < d + 1:
        cl.append("small_cutoff")
    ctx.case(case, below and float(R.probabilities(rho).max()) < 0.999, cl)
    F = execute("PF", case, gates, "fock_super")
    pf, _ = check_fock_state(F, rho, d, cutoff, "fock_super", ctx)
    par0 = R.parity(rho0, d)
    parF = sum(p * (-1.0) ** sum(o) for o, p in zip(R.occupations(d), pf))
    if abs(parF - par0) > TOL:
        raise Violation("C17:invariant:PF:parity",
                        f"parity {parF!r} after the gates, {par0!r} before")
    la = last_active_index(gates)
    if la < len(gates) - 1:
        if la < 0:
            want = R.number_distribution(R.probabilities(rho0), d)
        else:
            Fp = execute("PF", case, gates[:la + 1], "fock_super:prefix")
            ppf = np.zeros(2 ** d)
            for k, v in Fp.fock_probabilities_map.items():
                ppf[R.basis_index(k)] = float(np.real(v))
            want = R.number_distribution(ppf, d)
        got = R.number_distribution(pf, d)
        if maxdiff(got, want) > TOL:
            raise Violation("C17:invariant:PF:number-distribution",
                            f"passive gates changed the particle-number distribution: "
                            f"{want.tolist()} -> {got.tolist()}")
        ctx.count("number_conservation_checked")
    check_samples("PF", case, gates, rho, "fock_super")


def pfcov_cases(tier):
    out = []
    for d in range(1, 6):
        for cutoff in range(1, d + 1):
            n = cutoff - 1
            out.append({"d": d, "cutoff": cutoff, "occ": [1] * n + [0] * (d - n)})
    return out


def prop_pfcov(case, ctx):
    d, cutoff, occ = case["d"], case["cutoff"], case["occ"]
    gates = [{"g": "Phaseshifter", "modes": [0], "p": {"phi": 0.5}}]
    if d >= 2:
        gates.append({"g": "Beamsplitter", "modes": [0, 1], "p": {"theta": 0.4, "phi": 0.3}})
    full = {"d": d, "prep": {"kind": "number", "occ": occ}, "cutoff": cutoff}
    ctx.case(["pfcov", d, cutoff], False, ["part_pf_cov_cutoff"])
    F = execute("PF", full, gates, "pf_cov_cutoff")
    rho = R.run(d, occ, gates, matrix_of)
    try:
        cov = np.asarray(F.covariance_matrix)
    except Exception as e:
        raise Violation(B_PFCOV,
                        f"PureFockState.covariance_matrix raised {type(e).__name__}: {e} "
                        f"for d={d}, cutoff={cutoff}, input {occ} (the program itself runs)")
    if maxdiff(cov, R.covariance(rho, d)) > TOL:
        raise Violation("C17:PF:covariance_matrix:cutoff<=d:wrong",
                        f"d={d} cutoff={cutoff}: differs from reference by "
                        f"{maxdiff(cov, R.covariance(rho, d)):.3e}")


B_GDM = "C17:G:density_matrix:ref"


def prop_gdm(case, ctx):
    d, gates = case["d"], case["gates"]
    rho = R.run(d, None, gates, matrix_of, rho0=ref_rho0(case))
    ctx.case(case, False, ["part_g_density_matrix", "gdm_prep_" + case["prep"]["kind"]])
    G = execute("G", case, gates, "g_density_matrix")
    try:
        dm = np.asarray(G.density_matrix)
    except Exception as e:
        raise Violation(f"C17:G:density_matrix:raises:{type(e).__name__}", str(e)[:300])
    # lexicographic basis = computational basis of the reference; errors are bimodal on
    # the unchanged tree (<= 1e-13, or >= 1e-4), so the common 1e-9 applies
    if maxdiff(dm, rho) > case_tol(case):
        raise Violation(B_GDM, f"GaussianState.density_matrix differs from the reference by "
                               f"{maxdiff(dm, rho):.3e} (covariance matrix differs by "
                               f"{maxdiff(np.asarray(G.covariance_matrix), R.covariance(rho, d)):.1e})")


def parts(tier):
    return [
        Part("equiv", prop_equiv, strategy=equiv_case(),
             examples={"quick": 1600, "thorough": 20000},
             budget_s={"quick": 110, "thorough": 3000}),
        Part("gaussian_only", prop_gaussian, strategy=gaussian_case(),
             examples={"quick": 640, "thorough": 10000},
             budget_s={"quick": 60, "thorough": 1500}),
        Part("fock_super", prop_super, strategy=super_case(),
             examples={"quick": 600, "thorough": 8000},
             budget_s={"quick": 50, "thorough": 1500}),
        Part("pf_cov_cutoff", prop_pfcov, kind="enum", cases=pfcov_cases,
             budget_s={"quick": 30, "thorough": 60}),
        Part("g_density_matrix", prop_gdm, strategy=st.one_of(equiv_case(), gaussian_case()),
             examples={"quick": 400, "thorough": 4000},
             budget_s={"quick": 30, "thorough": 600}),
    ]
