"""C12 — execution never modifies what the caller passed in, even on failure.

fault enumeration: for a generated adaptive program, a deep snapshot of everything the
caller handed over is taken; then an exception is injected at EVERY instruction position
and EVERY stage (validation, condition evaluation, parameter resolution, simulation step
before / after), and after each failed run the snapshot must be unchanged; finally the
same objects are executed without fault and must give the result of a fresh copy.
"""

from __future__ import annotations

import copy
import warnings

import numpy as np
from hypothesis import strategies as st

from lib import aprogs, bootstrap, progs
from lib.harness import Part, Violation

pq = bootstrap.load()

from piquasso.api.exceptions import PiquassoException  # noqa: E402

PID = "C12"
LEVEL = "fault_enumeration"
SHARDS = {"quick": 16, "thorough": 16}
RULE = (
    "programs: Hypothesis-generated adaptive programs (lib/aprogs) on the pure Fock, Fock, "
    "passive and Gaussian simulators, conditions and outcome-dependent parameters given as "
    "harness callables that can be armed to raise; faults: exhaustive over (instruction "
    "position i) x (stage in validation, condition, resolution, step-before, step-after); "
    "one evaluation = one (program, i, stage) triple, plus fault-free repeat/validate/copy/"
    "export histories and array-argument checks of the matrix functions. Non-trivial = "
    "program with >=1 measurement and an unresolved parameter, condition or Q()-addressed "
    "instruction, fault position not the first instruction. Distinct by hash of "
    "(description, i, stage)."
)
ASSUMPTIONS = [
    "the caller-visible state of an instruction is (modes, params by value, condition "
    "identity); of a program the list and identity of its instructions; of a Config its "
    "public fields and the bit-generator state only when no sampling took place",
    "the process-global `random` state is not asserted here (attributed to C11)",
]

SIMS = ["PF", "P", "F", "G"]
SIM_CLASS = {"PF": "PureFockSimulator", "P": "SamplingSimulator", "F": "FockSimulator",
             "G": "GaussianSimulator"}


class InjectedFault(Exception):
    pass


class Hook:
    """Callable condition / parameter that can be armed to raise on its k-th call."""

    def __init__(self, src):
        self.src = src
        self.fn = aprogs.make_lambda(src)
        self.fail_at = None
        self.ncalls = 0

    def __call__(self, x):
        self.ncalls += 1
        if self.fail_at is not None and self.ncalls >= self.fail_at:
            raise InjectedFault(f"hook {self.src!r} call {self.ncalls}")
        return self.fn(x)


def freeze(v):
    """Value snapshot of a parameter."""
    if isinstance(v, np.ndarray):
        return ("nd", v.dtype.str, v.shape, v.tobytes(), v.flags.writeable)
    if isinstance(v, dict):
        return ("dict", tuple((repr(k), freeze(x)) for k, x in v.items()))
    if isinstance(v, (list, tuple)):
        return (type(v).__name__, tuple(freeze(x) for x in v))
    if callable(v) or isinstance(v, Hook):
        return ("callable", id(v))
    if isinstance(v, (int, float, complex, str, bool, type(None), np.generic)):
        return (type(v).__name__, repr(v))
    return ("obj", type(v).__name__, repr(v))


def snap_instruction(i):
    return {
        "id": id(i),
        "type": type(i).__name__,
        "modes": (type(i.modes).__name__, tuple(i.modes)),
        "params": tuple((k, freeze(v)) for k, v in i.params.items()),
        "condition": id(i._condition) if i._condition is not None else None,
        "unresolved": tuple((k, id(v)) for k, v in i._unresolved_params.items()),
    }


def snap_config(c):
    d = {k: freeze(v) for k, v in c.__dict__.items() if k not in ("rng",)}
    return d


def snap_state(s):
    if s is None:
        return None
    out = {}
    for k, v in s.__dict__.items():
        if isinstance(v, np.ndarray):
            out[k] = freeze(v)
        elif isinstance(v, (list, tuple)) and v and isinstance(v[0], np.ndarray):
            out[k] = freeze(list(v))
    out["d"] = s.d
    return out


def snapshot(program, user_config, initial_state, arrays):
    return {
        "n": len(program.instructions),
        "instructions": [snap_instruction(i) for i in program.instructions],
        "config": snap_config(user_config),
        "initial_state": snap_state(initial_state),
        "arrays": [freeze(a) for a in arrays],
    }


def diff(a, b, path=""):
    if type(a) is not type(b):
        return f"{path}: type {type(a).__name__} -> {type(b).__name__}"
    if isinstance(a, dict):
        for k in a:
            if k not in b:
                return f"{path}.{k}: removed"
            d = diff(a[k], b[k], f"{path}.{k}")
            if d:
                return d
        for k in b:
            if k not in a:
                return f"{path}.{k}: added"
        return None
    if isinstance(a, (list, tuple)):
        if len(a) != len(b):
            return f"{path}: length {len(a)} -> {len(b)}"
        for i, (x, y) in enumerate(zip(a, b)):
            d = diff(x, y, f"{path}[{i}]")
            if d:
                return d
        return None
    if a != b:
        sa, sb = repr(a), repr(b)
        return f"{path}: {sa[:80]} -> {sb[:80]}"
    return None


_faulty_cache = {}


def faulty_simulator(kind):
    """Simulator subclass whose steps can be armed to raise before/after instruction i."""
    if kind in _faulty_cache:
        return _faulty_cache[kind]
    base = getattr(pq, SIM_CLASS[kind])
    ctl = {"target": None, "when": None}

    def wrap(fn):
        def step(state, instruction, shots):
            if ctl["target"] is not None and id(instruction) == ctl["target"]:
                if ctl["when"] == "before":
                    raise InjectedFault("step-before")
                out = fn(state, instruction, shots)
                raise InjectedFault("step-after")
            return fn(state, instruction, shots)

        return step

    sub = type("Faulty" + base.__name__, (base,), {
        "_instruction_map": {c: wrap(f) for c, f in base._instruction_map.items()},
    })
    _faulty_cache[kind] = (sub, ctl)
    return sub, ctl


def build(desc, seed):
    """Program with Hook callables for every condition / outcome parameter."""
    hooks = []
    arrays = []
    desc = copy.deepcopy(desc)
    user_config = pq.Config(cutoff=desc["cutoff"], hbar=desc.get("hbar", 2.0),
                            seed_sequence=seed)
    sub, ctl = faulty_simulator(desc["sim"])
    with warnings.catch_warnings():
        warnings.simplefilter("ignore")
        sim = sub(d=desc["d"], config=user_config)
        with pq.Program() as program:
            progs.add_prep(pq, desc["sim"], desc["prep"], desc["d"])
            for s in desc["steps"]:
                if s["k"] == "gate":
                    g = {"g": s["g"], "modes": s["modes"], "p": dict(s["p"])}
                    if s.get("pexpr"):
                        for name, src in s["pexpr"].items():
                            if s.get("pexpr_lambda"):
                                h = Hook(src)
                                hooks.append(("resolution", h))
                                g["p"][name] = h
                            else:
                                g["p"][name] = src
                    inst = progs.make_gate(pq, g, desc["cutoff"])
                    if s.get("when"):
                        if s.get("when_lambda"):
                            h = Hook(s["when"])
                            hooks.append(("condition", h))
                            inst = inst.when(h)
                        else:
                            inst = inst.when(s["when"])
                else:
                    inst = aprogs.make_step(pq, s, desc["cutoff"])
                for v in inst.params.values():
                    if isinstance(v, np.ndarray):
                        arrays.append(v)
                if s.get("all_modes"):
                    pq.Q() | inst
                else:
                    pq.Q(*s["modes"]) | inst
    return program, sim, user_config, ctl, hooks, arrays


def result_signature(res):
    sig = []
    for b in res.branches:
        st_ = b.state
        vec = None
        for attr in ("state_vector", "density_matrix", "xpxp_covariance_matrix"):
            try:
                vec = np.asarray(getattr(st_, attr))
                break
            except Exception:
                continue
        sig.append((tuple(float(x) for x in b.outcome), float(b.frequency),
                    None if vec is None else np.round(vec, 10).tobytes()))
    return sig


@st.composite
def fault_case(draw):
    sim = draw(st.sampled_from(SIMS))
    desc = draw(aprogs.adaptive_program(sim, allow_postselect=False))
    # make callables frequent: they carry the condition / resolution fault stages
    for s in desc["steps"]:
        if s.get("when") and draw(st.booleans()):
            s["when_lambda"] = True
        if s.get("pexpr") and draw(st.booleans()):
            s["pexpr_lambda"] = True
    shots = draw(st.sampled_from([None, 2, 5]))
    with_initial_state = draw(st.integers(0, 3)) == 0
    return {"desc": desc, "shots": shots, "seed": draw(st.integers(1, 2**31)),
            "initial_state": with_initial_state}


def effective_shots(desc, shots):
    if shots is None and not aprogs.shots_none_ok(desc):
        return 2
    return shots


def prop_faults(case, ctx):
    desc = case["desc"]
    shots = effective_shots(desc, case["shots"])
    with warnings.catch_warnings():
        warnings.simplefilter("ignore")
        _prop_faults(case, desc, shots, ctx)


def _prop_faults(case, desc, shots, ctx):
    if desc["sim"] == "P" and aprogs.kerr_after_measurement(desc):
        ctx.exclude("C13:valid-crash:P:kerr-after-measurement")
        return
    program, sim, user_config, ctl, hooks, arrays = build(desc, case["seed"])
    initial_state = None
    kwargs = {}
    if case.get("initial_state"):
        # an initial state of the right class; preparations stay in the program
        initial_state = sim.create_initial_state()
        kwargs["initial_state"] = initial_state
    before = snapshot(program, user_config, initial_state, arrays)
    instrs = program.instructions
    has_meas = any(s["k"] == "measure" for s in desc["steps"])
    has_dyn = any(s.get("when") or s.get("pexpr") or s.get("all_modes") for s in desc["steps"])

    def check(label, i, stage):
        after = snapshot(program, user_config, initial_state, arrays)
        d = diff(before, after)
        if d:
            what = d.split(":")[0].split(".")
            field = next((w for w in what if w.split("[")[0] in
                          ("modes", "params", "condition", "unresolved", "config",
                           "initial_state", "arrays", "n", "has_modes_attr")), what[-1])
            raise Violation(f"C12:{label}:{stage}:{field.split('[')[0]}",
                            f"after {label} at instruction {i} ({type(instrs[i]).__name__ if i is not None and i < len(instrs) else '-'}), "
                            f"stage {stage}: {d}")

    # ---- fault-free baseline: a fresh copy of the same description ---------------
    try:
        p2, s2, _, _, _, _ = build(desc, case["seed"])
        kw2 = {"initial_state": s2.create_initial_state()} if case.get("initial_state") else {}
        ref = result_signature(s2.execute(p2, shots=shots, **kw2))
    except PiquassoException:
        ctx.count("program_not_supported")
        return
    except Exception:
        ctx.count("program_crashes_without_fault")  # C13's business (valid-crash buckets)
        return
    nfaults = 0
    for i, inst in enumerate(instrs):
        stages = ["validation", "step-before", "step-after"]
        for stage in stages:
            ctl["target"], ctl["when"] = None, None
            if stage == "validation":
                def raiser(connector):
                    raise InjectedFault("validation")

                inst.__dict__["_validate"] = raiser
            else:
                ctl["target"] = id(inst)
                ctl["when"] = "before" if stage == "step-before" else "after"
            try:
                sim.execute(program, shots=shots, **kwargs)
                raised = None
            except InjectedFault as e:
                raised = e
            except PiquassoException as e:
                raised = e if isinstance(e.__cause__, InjectedFault) else None
                if raised is None:
                    raise Violation(f"C12:harness:unexpected-piquasso-exception:{stage}",
                                    f"{e!r}")
            finally:
                inst.__dict__.pop("_validate", None)
                ctl["target"] = None
            nontrivial = has_meas and has_dyn and i > 0
            ctx.case([desc, i, stage], nontrivial and raised is not None,
                     [f"stage_{stage}", f"sim_{desc['sim']}",
                      "fault_raised" if raised is not None else "fault_not_reached"])
            nfaults += 1
            check("failed execute", i, stage)
    for kind, h in hooks:
        for k in (1, 2):
            h.fail_at, h.ncalls = k, 0
            try:
                sim.execute(program, shots=shots, **kwargs)
                raised = False
            except InjectedFault:
                raised = True
            except PiquassoException as e:
                raised = isinstance(e.__cause__, InjectedFault) or "hook" in str(e)
                if not raised:
                    raise Violation(f"C12:harness:unexpected-piquasso-exception:{kind}", f"{e!r}")
            finally:
                h.fail_at, h.ncalls = None, 0
            ctx.case([desc, h.src, kind, k], has_meas and raised,
                     [f"stage_{kind}", f"sim_{desc['sim']}",
                      "fault_raised" if raised else "fault_not_reached"])
            check("failed execute", None, f"{kind}-call{k}")
    # ---- the same objects still behave like a fresh copy ---------------------------
    sub, _ = faulty_simulator(desc["sim"])
    fresh_sim = sub(d=desc["d"], config=pq.Config(cutoff=desc["cutoff"],
                                                  hbar=desc.get("hbar", 2.0),
                                                  seed_sequence=case["seed"]))
    try:
        got = result_signature(fresh_sim.execute(program, shots=shots, **kwargs))
    except Exception as e:
        raise Violation("C12:reexecute:raises", f"re-executing the same objects after "
                        f"{nfaults} failed runs raised {e!r}")
    if case.get("initial_state") and shots is not None:
        # the initial state object carries its simulator's generator, whose stream has
        # legitimately advanced: sampled results are not comparable
        ctx.count("reexecute_comparison_skipped_sampling_with_initial_state")
    elif got != ref:
        raise Violation("C12:reexecute:result-differs",
                        "re-executing the same program objects (fresh seeded simulator) after "
                        "failed runs gives a different result than a fresh copy of the program")
    check("successful execute", None, "none")


# ----------------------------------------------------------------- fault-free histories

@st.composite
def history_case(draw):
    sim = draw(st.sampled_from(SIMS))
    desc = draw(aprogs.adaptive_program(sim, allow_postselect=True))
    ops = draw(st.lists(st.sampled_from(["execute", "execute", "validate", "copy", "as_code",
                                         "blackbird", "repr", "execute_instructions"]),
                        min_size=2, max_size=6))
    return {"desc": desc, "ops": ops, "seed": draw(st.integers(1, 2**31)),
            "shots": draw(st.sampled_from([None, 1, 4]))}


def prop_history(case, ctx):
    desc = case["desc"]
    shots = effective_shots(desc, case["shots"])
    if aprogs.has_postselect(desc):
        shots = None if aprogs.shots_none_ok(desc) else shots
    with warnings.catch_warnings():
        warnings.simplefilter("ignore")
        program, sim, user_config, ctl, hooks, arrays = build(desc, case["seed"])
        before = snapshot(program, user_config, None, arrays)
        ctx.case(case, len(set(case["ops"])) >= 2 and any(
            s["k"] == "measure" for s in desc["steps"]), [f"hist_sim_{desc['sim']}"])
        for op in case["ops"]:
            try:
                if op == "execute":
                    sim.execute(program, shots=shots)
                elif op == "execute_instructions":
                    sim.execute_instructions(program.instructions, shots=shots)
                elif op == "validate":
                    sim.validate(program)
                elif op == "copy":
                    c = program.copy()
                    for inst in c.instructions:  # mutate the copy: must not leak back
                        for k, v in inst.params.items():
                            if isinstance(v, np.ndarray) and v.flags.writeable and v.size:
                                v.flat[0] = 123.0
                elif op == "as_code":
                    pq.as_code(program, sim, shots=shots or 1)
                elif op == "blackbird":
                    program.to_blackbird_code()
                elif op == "repr":
                    repr(program.instructions), repr(sim), str(user_config)
            except PiquassoException:
                ctx.count(f"hist_{op}_refused")
            except Exception as e:
                if op in ("as_code", "blackbird"):
                    ctx.count(f"hist_{op}_unsupported")  # export of callables etc.
                else:
                    ctx.count(f"hist_{op}_crashed")
            after = snapshot(program, user_config, None, arrays)
            d = diff(before, after)
            if d:
                field = [w for w in d.split(":")[0].split(".") if w][-1].split("[")[0]
                raise Violation(f"C12:{op}:{field}", f"after {op}: {d}")


# ----------------------------------------------------------------- matrix functions

def _sym(a):
    return a + a.T


def matrix_function_cases(tier):
    names = ["permanent", "permanent_laplace", "hafnian", "loop_hafnian", "loop_hafnian_batch",
             "torontonian", "loop_torontonian", "pfaffian", "connector_permanent",
             "connector_hafnian", "connector_loop_hafnian", "connector_pfaffian", "takagi",
             "williamson", "euler", "clements"]
    n = {"quick": 12, "thorough": 200}[tier]
    return [{"fn": f, "seed": s, "n": 2 + s % 4} for f in names for s in range(n)]


def prop_matrix_function(case, ctx):
    from piquasso._math import decompositions as dec
    from piquasso._math.hafnian import (hafnian_with_reduction, loop_hafnian_with_reduction,
                                        loop_hafnian_with_reduction_batch)
    from piquasso._math.permanent import permanent, permanent_laplace
    from piquasso._math.pfaffian import pfaffian
    from piquasso._math.torontonian import loop_torontonian, torontonian
    from piquasso._simulators.connectors import NumpyConnector
    from piquasso.decompositions.clements import clements

    nc = NumpyConnector()
    rng = progs.rng_of(case["seed"] * 7919 + 13)
    n = case["n"]
    fn = case["fn"]
    cplx = rng.normal(size=(n, n)) + 1j * rng.normal(size=(n, n))
    occ = rng.integers(0, 3, size=n).astype(np.int64)
    occ2 = np.array(occ[::-1])
    if occ.sum() == 0:
        occ[0] = occ2[-1] = 1
    args = None
    if fn in ("permanent", "connector_permanent", "permanent_laplace"):
        rows, cols = occ.copy(), np.roll(occ, 1).copy()
        args = [cplx, rows, cols]
        call = {"permanent": lambda: permanent(*args),
                "connector_permanent": lambda: nc.permanent(*args),
                "permanent_laplace": lambda: permanent_laplace(*args)}[fn]
    elif fn in ("hafnian", "connector_hafnian"):
        args = [_sym(cplx), occ.copy()]
        call = (lambda: hafnian_with_reduction(*args)) if fn == "hafnian" else (
            lambda: nc.hafnian(*args))
    elif fn in ("loop_hafnian", "connector_loop_hafnian"):
        args = [_sym(cplx), rng.normal(size=n) + 0j, occ.copy()]
        call = (lambda: loop_hafnian_with_reduction(*args)) if fn == "loop_hafnian" else (
            lambda: nc.loop_hafnian(*args))
    elif fn == "loop_hafnian_batch":
        occ0 = occ.copy()
        occ0[-1] = 0  # the batch varies the occupation of the last mode
        args = [_sym(cplx), rng.normal(size=n) + 0j, occ0, 3]
        call = lambda: loop_hafnian_with_reduction_batch(*args)  # noqa: E731
    elif fn in ("torontonian", "loop_torontonian"):
        m = rng.normal(size=(2 * n, 2 * n))
        a = (m @ m.T) / (4 * n * 2) * 0.5
        args = [a.copy()] if fn == "torontonian" else [a.copy(), rng.normal(size=2 * n) * 0.1]
        call = (lambda: torontonian(*args)) if fn == "torontonian" else (
            lambda: loop_torontonian(*args))
    elif fn in ("pfaffian", "connector_pfaffian"):
        m = rng.normal(size=(2 * n, 2 * n))
        args = [m - m.T]
        call = (lambda: pfaffian(*args)) if fn == "pfaffian" else (lambda: nc.pfaffian(*args))
    elif fn == "takagi":
        args = [_sym(cplx)]
        call = lambda: dec.takagi(args[0], nc)  # noqa: E731
    elif fn == "williamson":
        m = rng.normal(size=(2 * n, 2 * n))
        args = [m @ m.T + np.eye(2 * n)]
        call = lambda: dec.williamson(args[0], nc)  # noqa: E731
    elif fn == "euler":
        pas, act = progs.gaussian_transform_blocks(n, case["seed"], 0.5)
        args = [np.block([[pas, act], [act.conj(), pas.conj()]])]
        call = lambda: dec.euler(args[0], nc)  # noqa: E731
    elif fn == "clements":
        args = [progs.haar_unitary(n, case["seed"])]
        call = lambda: clements(args[0], nc)  # noqa: E731
    else:
        raise KeyError(fn)
    ctx.case(case, n >= 2, [f"mf_{fn}"])
    before = [freeze(a) if isinstance(a, np.ndarray) else None for a in args]
    variants = [args]
    for v in variants:
        try:
            call()
        except Exception as e:  # the value is C04's business; only mutation matters here
            ctx.count(f"mf_{fn}_raised_{type(e).__name__}")
        after = [freeze(a) if isinstance(a, np.ndarray) else None for a in args]
        for k, (x, y) in enumerate(zip(before, after)):
            if x != y:
                raise Violation(f"C12:matrix-function:{fn}:argument-{k}-modified",
                                f"{fn}: array argument {k} (n={n}, seed={case['seed']}) was "
                                f"modified in place")


def parts(tier):
    return [
        Part("matrix_functions", prop_matrix_function, kind="enum",
             cases=matrix_function_cases),
        Part("faults", prop_faults, strategy=fault_case(),
             examples={"quick": 160, "thorough": 3000}),
        Part("history", prop_history, strategy=history_case(),
             examples={"quick": 300, "thorough": 6000}),
    ]
