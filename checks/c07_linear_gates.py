"""C07 — Built-in linear gates are physical and act as documented.

Four parts:

* ``blocks``      every gate class exposing `_get_passive_block` (/`_get_active_block`):
                  S = [[P, A], [conj A, conj P]] satisfies S K S^dagger = K, passive gates
                  P P^dagger = 1, over a dense parameter mixture.
* ``documented``  the matrices and identities printed in the docstrings of
                  /repo/piquasso/instructions/gates.py, typed in here by hand
                  (`doc_blocks`), compared with the gates' own blocks; the Mach-Zehnder
                  and two-mode-squeezing decompositions composed from the gates' own
                  blocks; Position/MomentumDisplacement == Displacement.
* ``congruence``  one gate on a random ORDERED mode subset of a random physical Gaussian
                  state (lib/gaussian_gen.py) loaded with pq.Mean / pq.Covariance:
                  xxpp mean / covariance == S_x mu (+ shift), S_x sigma S_x^T, where S_x
                  is built by the harness from the DOCUMENTED blocks with its own
                  embedding code; hbar in {0.5, 1, 2, 3.7}.
* ``sequence``    <= 10 linear gates and displacements compose to the product.

"For all real parameters" is decided here by dense numerical sampling (uniform, normal,
exact atoms, tiny, large), not symbolically.
"""

from __future__ import annotations

import inspect
import math

import numpy as np
from hypothesis import strategies as st
from scipy.special import ndtri

from lib import bootstrap, progs
from lib import gaussian_gen as gg
from lib.harness import Part, Violation

pq = bootstrap.load()

from piquasso.instructions import gates as pgates  # noqa: E402

PID = "C07"
LEVEL = "exploration"
SHARDS = {"quick": 8, "thorough": 16}
RULE = (
    "blocks: (gate class, parameters) drawn per gate from a mixture of U(-2pi,2pi), N(0,1), "
    "exact atoms {0, +-pi/4, +-pi/2, +-pi, 2pi}, tiny +-1e-8 and large values (|r|<=6, "
    "|s|<=50, |angle|<=1e4); documented: one of 17 docstring identities at drawn parameters; "
    "congruence / sequence: physical Gaussian state (pure/mixed/degenerate, displaced or not, "
    "d<=5) x hbar in {0.5,1,2,3.7} x gate(s) on an ORDERED mode subset drawn as a permutation "
    "prefix. Non-trivial = some |parameter| > 1 (blocks, documented) or subset not "
    "ascending-adjacent or hbar != 2 or |parameter| > 1 (state parts); distinct by the full "
    "case description."
)
ASSUMPTIONS = [
    "numpy linear algebra and the hand-typed docstring matrices in doc_blocks() are the reference",
    "lib/gaussian_gen.py (own embedding of complex-form blocks into the real xxpp symplectic) is trusted; "
    "it never calls piquasso",
    "'for all real parameters' is decided by dense numerical sampling plus exact atoms, not symbolically",
    "where the docstring's operator formula and its printed S_(c) matrix disagree (ControlledZ sign, "
    "Squeezing2 factor 1/2, MachZehnder missing 1/2) the printed matrix / decomposition is the reference",
]
# fractions of ALL evaluations of the run (unchanged tree: 0.078, 0.22, 0.07, 0.09); kept low
# because a failing part stops early and must not turn exit 1 into 'generator degenerate'
FLOORS = {
    "cong:modes_nonascending": 0.01,
    "cong:hbar_not_2": 0.02,
    "blocks:large": 0.01,
    "blocks:atom": 0.01,
}

HBARS = [0.5, 1.0, 2.0, 3.7]
EPS = float(np.finfo(float).eps)

CONNECTOR = pq.NumpyConnector()
CONFIG = pq.Config()

# --------------------------------------------------------------------------------------
# gate catalogue: every class in gates.py that has _get_passive_block must be listed

BLOCK_GATES = ["Phaseshifter", "Beamsplitter", "Beamsplitter5050", "MachZehnder", "Fourier",
               "Interferometer", "Squeezing", "QuadraticPhase", "Squeezing2", "ControlledX",
               "ControlledZ", "GaussianTransform"]
DISPLACEMENTS = ["Displacement", "PositionDisplacement", "MomentumDisplacement"]


def _discover():
    found = set()
    for name, cls in inspect.getmembers(pgates, inspect.isclass):
        if cls.__module__ != pgates.__name__ or name.startswith("_"):
            continue
        if hasattr(cls, "_get_passive_block"):
            found.add(name)
    return found


_found = _discover()
if _found != set(BLOCK_GATES):
    raise RuntimeError(
        f"gate classes with _get_passive_block changed: unknown {_found - set(BLOCK_GATES)}, "
        f"missing {set(BLOCK_GATES) - _found}; extend the C07 catalogue"
    )

# --------------------------------------------------------------------------------------
# parameter mixtures


def mixture(large: float, moderate: float | None = None):
    """uniform / normal / atoms / tiny / large.  `moderate` caps the uniform part."""
    m = 2 * math.pi if moderate is None else moderate
    return st.one_of(
        st.floats(-m, m, allow_nan=False, width=64),
        st.floats(1e-6, 1 - 1e-6).map(lambda u: float(ndtri(u))),
        st.sampled_from(progs.ATOMS),
        st.sampled_from([1e-8, -1e-8]),
        st.floats(-large, large, allow_nan=False, width=64),
    )


def block_params(name: str, tier_scale: str = "wide"):
    """Parameter dict strategy.  wide: design ranges for block checks; state: ranges that keep
    ||S||^2 ||sigma|| small enough for a 1e-11-relative comparison to be meaningful."""
    wide = tier_scale == "wide"
    ang = mixture(1e4)
    if wide:
        r, s, rmaxs = mixture(6.0), mixture(50.0), [0.3, 1.0, 2.5]
    elif tier_scale == "state":
        r, s, rmaxs = mixture(1.5, 1.5), mixture(3.0, 3.0), [0.3, 1.0]
    else:  # "seq": up to 10 factors, keep the product of norms moderate
        r, s, rmaxs = mixture(0.8, 0.8), mixture(1.0, 1.0), [0.3]
    if name == "Phaseshifter":
        return st.fixed_dictionaries({"phi": ang})
    if name == "Beamsplitter":
        return st.fixed_dictionaries({"theta": ang, "phi": ang})
    if name in ("Beamsplitter5050", "Fourier"):
        return st.just({})
    if name == "MachZehnder":
        return st.fixed_dictionaries({"int_": ang, "ext": ang})
    if name == "Interferometer":
        return st.fixed_dictionaries({
            "seed": st.integers(0, 2**32),
            "kind": st.sampled_from(["haar", "haar", "perm", "diag", "real", "identity"]),
        })
    if name == "GaussianTransform":
        return st.fixed_dictionaries({"seed": st.integers(0, 2**32),
                                      "rmax": st.sampled_from(rmaxs)})
    if name == "Squeezing":
        return st.fixed_dictionaries({"r": r, "phi": ang})
    if name == "Squeezing2":
        return st.fixed_dictionaries({"r": r, "phi": ang})
    if name in ("QuadraticPhase", "ControlledX", "ControlledZ"):
        return st.fixed_dictionaries({"s": s})
    if name == "Displacement":
        return st.fixed_dictionaries({"r": mixture(3.0, 3.0), "phi": ang})
    if name == "PositionDisplacement":
        return st.fixed_dictionaries({"x": mixture(3.0, 3.0)})
    if name == "MomentumDisplacement":
        return st.fixed_dictionaries({"p": mixture(3.0, 3.0)})
    raise KeyError(name)


def scalar_params(p: dict):
    return [float(v) for k, v in p.items() if k not in ("seed", "kind", "rmax", "k", "d", "mode_seed", "hbar") and not isinstance(v, str)]


def param_classes(p: dict, prefix: str):
    vals = scalar_params(p)
    out = []
    if any(abs(v) > 4.0 and v not in progs.ATOMS for v in vals):
        out.append(prefix + ":large")
    if any(v in progs.ATOMS for v in vals):
        out.append(prefix + ":atom")
    if any(abs(v) == 1e-8 for v in vals):
        out.append(prefix + ":tiny")
    return out


# --------------------------------------------------------------------------------------
# the documented matrices, typed from the docstrings of piquasso/instructions/gates.py


def doc_blocks(name: str, p: dict, k: int):
    """(passive, active or None) as DOCUMENTED; never calls piquasso."""
    c = complex
    if name == "Phaseshifter":              # S_(c) = diag(e^{i phi}, e^{-i phi})
        return np.array([[np.exp(1j * p["phi"])]]), None
    if name == "Fourier":                   # S_(c) = diag(i, -i)
        return np.array([[1j]]), None
    if name == "Beamsplitter":              # U = [[t, -conj r], [r, t]], t = cos, r = e^{i phi} sin
        t = math.cos(p["theta"])
        r = np.exp(1j * p["phi"]) * math.sin(p["theta"])
        return np.array([[t, -np.conj(r)], [r, t]], dtype=complex), None
    if name == "Beamsplitter5050":          # U = 1/sqrt 2 [[1, -1], [1, 1]]
        return np.array([[1, -1], [1, 1]], dtype=complex) / math.sqrt(2), None
    if name == "MachZehnder":               # B(pi/4,pi/2) (R(int)+1) B(pi/4,pi/2) (R(ext)+1)
        b, _ = doc_blocks("Beamsplitter", {"theta": math.pi / 4, "phi": math.pi / 2}, 2)
        ri = np.diag([np.exp(1j * p["int_"]), 1.0])
        re = np.diag([np.exp(1j * p["ext"]), 1.0])
        return b @ ri @ b @ re, None
    if name == "Squeezing":                 # [[cosh r, -e^{i phi} sinh r], [-e^{-i phi} sinh r, cosh r]]
        return (np.array([[c(math.cosh(p["r"]))]]),
                np.array([[-np.exp(1j * p["phi"]) * math.sinh(p["r"])]]))
    if name == "QuadraticPhase":            # [[1 + i s/2, i s/2], [-i s/2, 1 - i s/2]]
        s = p["s"]
        return np.array([[1 + 0.5j * s]]), np.array([[0.5j * s]])
    if name == "Squeezing2":
        ch, sh = math.cosh(p["r"]), np.exp(1j * p["phi"]) * math.sinh(p["r"])
        return (np.array([[ch, 0], [0, ch]], dtype=complex),
                np.array([[0, sh], [sh, 0]], dtype=complex))
    if name == "ControlledX":
        h = p["s"] / 2
        return (np.array([[1, -h], [h, 1]], dtype=complex),
                np.array([[0, h], [h, 0]], dtype=complex))
    if name == "ControlledZ":
        h = 1j * p["s"] / 2
        return (np.array([[1, h], [h, 1]], dtype=complex),
                np.array([[0, h], [h, 0]], dtype=complex))
    if name == "Interferometer":
        return progs.haar_unitary(k, p["seed"], p.get("kind", "haar")), None
    if name == "GaussianTransform":
        pa, ac = progs.gaussian_transform_blocks(k, p["seed"], p["rmax"])
        return pa, ac
    raise KeyError(name)


# S_(c) matrices exactly as printed (full 2k x 2k), independent of doc_blocks' block split
def doc_full_matrix(name: str, p: dict):
    if name == "Phaseshifter":
        return np.diag([np.exp(1j * p["phi"]), np.exp(-1j * p["phi"])])
    if name == "Fourier":
        return np.diag([1j, -1j])
    if name == "Beamsplitter":
        t = math.cos(p["theta"])
        r = np.exp(1j * p["phi"]) * math.sin(p["theta"])
        rb = np.conj(r)
        return np.array([[t, -rb, 0, 0], [r, t, 0, 0], [0, 0, t, -r], [0, 0, rb, t]])
    if name == "Squeezing":
        ch, sh, e = math.cosh(p["r"]), math.sinh(p["r"]), np.exp(1j * p["phi"])
        return np.array([[ch, -e * sh], [-np.conj(e) * sh, ch]])
    if name == "QuadraticPhase":
        h = 0.5j * p["s"]
        return np.array([[1 + h, h], [-h, 1 - h]])
    if name == "Squeezing2":
        ch, sh, e = math.cosh(p["r"]), math.sinh(p["r"]), np.exp(1j * p["phi"])
        eb = np.conj(e)
        return np.array([[ch, 0, 0, e * sh], [0, ch, e * sh, 0],
                         [0, eb * sh, ch, 0], [eb * sh, 0, 0, ch]])
    if name == "ControlledX":
        h = p["s"] / 2
        return np.array([[1, -h, 0, h], [h, 1, h, 0], [0, h, 1, -h], [h, 0, h, 1]], dtype=complex)
    if name == "ControlledZ":
        h = 1j * p["s"] / 2
        return np.array([[1, h, 0, h], [h, 1, h, 0], [0, -h, 1, -h], [-h, 0, -h, 1]])
    if name == "MachZehnder":
        # printed without the overall 1/2 (the printed matrix is not unitary: documentation
        # slip, the decomposition in the same docstring fixes the normalisation)
        a, e = np.exp(1j * p["int_"]), np.exp(1j * p["ext"])
        u = np.array([[e * (a - 1), 1j * (a + 1)], [1j * e * (a + 1), 1 - a]]) / 2
        z = np.zeros((2, 2))
        return np.block([[u, z], [z, u.conj()]])
    raise KeyError(name)


def own_blocks(name: str, p: dict, k: int):
    """The gate's own blocks through the real code."""
    g = progs.make_gate(pq, {"g": name, "p": p, "modes": list(range(k))})
    passive = np.asarray(g._get_passive_block(CONNECTOR, CONFIG))
    active = None
    if hasattr(g, "_get_active_block"):
        active = np.asarray(g._get_active_block(CONNECTOR, CONFIG))
    return passive, active


def arity(name: str, p: dict) -> int:
    a = progs.ARITY[name]
    return a if a is not None else int(p.get("k", 2))


def opnorm(m) -> float:
    return float(np.linalg.norm(np.asarray(m), 2))


def maxabs(m) -> float:
    m = np.asarray(m)
    return float(np.max(np.abs(m))) if m.size else 0.0


# --------------------------------------------------------------------------------------
# part 1: symplecticity / unitarity


@st.composite
def block_cases(draw):
    name = draw(st.sampled_from(BLOCK_GATES))
    p = dict(draw(block_params(name, "wide")))
    if progs.ARITY[name] is None:
        p["k"] = draw(st.integers(1, 5))
    return {"g": name, "p": p}


def prop_blocks(case, ctx):
    name, p = case["g"], case["p"]
    k = arity(name, p)
    vals = scalar_params({kk: v for kk, v in p.items() if kk != "k"})
    ctx.case(case, nontrivial=any(abs(v) > 1 for v in vals) or name in ("Interferometer", "GaussianTransform"),
             classes=["blocks:" + name] + param_classes(p, "blocks"))
    try:
        passive, active = own_blocks(name, p, k)
    except Exception as e:  # the property says: every real parameter gives a matrix
        raise Violation(f"C07:blocks:{name}:raises:{type(e).__name__}", f"{case}: {e!r}")
    if passive.shape != (k, k) or (active is not None and active.shape != (k, k)):
        raise Violation(f"C07:blocks:{name}:shape", f"{case}: {passive.shape}")
    if not (np.all(np.isfinite(passive)) and (active is None or np.all(np.isfinite(active)))):
        raise Violation(f"C07:blocks:{name}:nonfinite", f"{case}")
    s = gg.complex_form(passive, active)
    kf = gg.k_form(k)
    n2 = opnorm(s) ** 2
    # rounding model: the entries of P, A carry relative error ~ eps, the products in
    # S K S^dagger are then off by <= ~ 8k eps ||S||^2; design tolerance 1e-12 ||S||^2
    tol = 1e-12 * max(1.0, n2)
    err = maxabs(s @ kf @ s.conj().T - kf)
    if err > tol:
        raise Violation(f"C07:blocks:{name}:not-symplectic",
                        f"{case}: |S K S^+ - K| = {err:.3e} > {tol:.3e} (||S||^2 = {n2:.3e})")
    if active is None:
        err = maxabs(passive @ passive.conj().T - np.eye(k))
        if err > 1e-12:
            raise Violation(f"C07:blocks:{name}:not-unitary", f"{case}: |P P^+ - 1| = {err:.3e}")
    else:
        # P A^T symmetric is part of S K S^+ = K (off-diagonal block); checked above
        pass
    # the real xxpp matrix built from the blocks preserves the real symplectic form
    sr = gg.complex_to_real_xxpp(passive.astype(complex),
                                 np.zeros_like(passive, dtype=complex) if active is None
                                 else active.astype(complex))
    om = gg.omega_xxpp(k)
    err = maxabs(sr @ om @ sr.T - om)
    if err > 4 * tol:
        raise Violation(f"C07:blocks:{name}:real-form-not-symplectic", f"{case}: {err:.3e}")


# --------------------------------------------------------------------------------------
# part 2: documented matrices and identities

IDENTITIES = [
    "doc:Phaseshifter", "doc:Fourier", "doc:Beamsplitter", "doc:Beamsplitter5050",
    "doc:MachZehnder", "doc:Squeezing", "doc:QuadraticPhase", "doc:Squeezing2",
    "doc:ControlledX", "doc:ControlledZ", "doc:Interferometer", "doc:GaussianTransform",
    "fourier==phaseshifter(pi/2)", "bs5050==bs(pi/4,0)", "bs-defaults", "mz-decomposition",
    "squeezing2-decomposition", "displacement-aliases",
]


@st.composite
def doc_cases(draw):
    ident = draw(st.sampled_from(IDENTITIES))
    if ident.startswith("doc:"):
        name = ident[4:]
        p = dict(draw(block_params(name, "wide")))
        if progs.ARITY[name] is None:
            p["k"] = draw(st.integers(1, 4))
        return {"id": ident, "p": p}
    if ident == "mz-decomposition":
        return {"id": ident, "p": draw(block_params("MachZehnder"))}
    if ident == "squeezing2-decomposition":
        return {"id": ident, "p": draw(block_params("Squeezing2"))}
    if ident == "displacement-aliases":
        return {"id": ident, "p": {"v": draw(mixture(3.0, 3.0)), "hbar": draw(st.sampled_from(HBARS)),
                                   "d": draw(st.integers(1, 3)), "mode_seed": draw(st.integers(0, 10))}}
    return {"id": ident, "p": {}}


def _cmp(bucket, what, got, want, scale=1.0, rel=1e-12):
    got, want = np.asarray(got), np.asarray(want)
    if got.shape != want.shape:
        raise Violation(bucket, f"{what}: shape {got.shape} vs documented {want.shape}")
    # entries are a handful of elementary functions and <= 8 products: a few eps of the norm
    tol = rel * max(1.0, scale)
    err = maxabs(got - want)
    if not err <= tol:
        i = np.unravel_index(np.argmax(np.abs(got - want)), got.shape)
        raise Violation(bucket, f"{what}: max deviation {err:.3e} > {tol:.3e} at {i}: "
                                f"code {got[i]} vs documented {want[i]}")


def compose(*factors):
    """Product of complex-form matrices given as (P, A) pairs, operator order left to right:
    U = U1 U2 ... has S_(c)(U) = S1 S2 ... (U^+ xi U = S xi)."""
    out = None
    for pa in factors:
        s = gg.complex_form(*pa)
        out = s if out is None else out @ s
    return out


def gaussian_state_of(d, hbar, instrs, cutoff=5):
    with pq.Program() as prog:
        pq.Q() | pq.Vacuum()
        for modes, ins in instrs:
            pq.Q(*modes) | ins
    sim = pq.GaussianSimulator(d=d, config=pq.Config(hbar=hbar, cutoff=cutoff))
    return sim.execute(prog).state


def prop_documented(case, ctx):
    ident, p = case["id"], case["p"]
    vals = scalar_params({k: v for k, v in p.items() if k not in ("k", "d", "mode_seed", "hbar")})
    ctx.case(case, nontrivial=(any(abs(v) > 1 for v in vals) or not vals),
             classes=["documented:" + ident] + param_classes(p, "documented"))
    if ident.startswith("doc:"):
        name = ident[4:]
        k = arity(name, p)
        op, oa = own_blocks(name, p, k)
        dp, da = doc_blocks(name, p, k)
        scale = opnorm(gg.complex_form(dp, da))
        _cmp(f"C07:documented:{name}:passive-block", f"{name}{p} passive block", op, dp, scale)
        if (oa is None) != (da is None):
            raise Violation(f"C07:documented:{name}:active-block", f"{name}: active block presence")
        if oa is not None:
            _cmp(f"C07:documented:{name}:active-block", f"{name}{p} active block", oa, da, scale)
        if name not in ("Interferometer", "GaussianTransform", "Beamsplitter5050"):
            _cmp(f"C07:documented:{name}:S_c-matrix", f"{name}{p} S_(c) as printed",
                 gg.complex_form(op, oa), doc_full_matrix(name, p), scale)
        return
    if ident == "fourier==phaseshifter(pi/2)":
        f, _ = own_blocks("Fourier", {}, 1)
        r, _ = own_blocks("Phaseshifter", {"phi": math.pi / 2}, 1)
        _cmp("C07:identity:fourier-phaseshifter", "Fourier vs Phaseshifter(pi/2)", f, r)
        return
    if ident == "bs5050==bs(pi/4,0)":
        a, _ = own_blocks("Beamsplitter5050", {}, 2)
        b, _ = own_blocks("Beamsplitter", {"theta": math.pi / 4, "phi": 0.0}, 2)
        _cmp("C07:identity:bs5050", "Beamsplitter5050 vs Beamsplitter(pi/4, 0)", a, b)
        return
    if ident == "bs-defaults":
        g = pq.Beamsplitter()
        a = np.asarray(g._get_passive_block(CONNECTOR, CONFIG))
        b, _ = doc_blocks("Beamsplitter", {"theta": math.pi / 4, "phi": 0.0}, 2)
        _cmp("C07:identity:bs-defaults", "Beamsplitter() defaults theta=pi/4, phi=0", a, b)
        g2 = pq.Squeezing(r=0.3)
        _cmp("C07:identity:squeezing-default-phi", "Squeezing(r) default phi=0",
             np.asarray(g2._get_active_block(CONNECTOR, CONFIG)), np.array([[-math.sinh(0.3)]]))
        return
    if ident == "mz-decomposition":
        mz = own_blocks("MachZehnder", p, 2)
        b = own_blocks("Beamsplitter", {"theta": math.pi / 4, "phi": math.pi / 2}, 2)
        ri, _ = own_blocks("Phaseshifter", {"phi": p["int_"]}, 1)
        re, _ = own_blocks("Phaseshifter", {"phi": p["ext"]}, 1)
        one = np.eye(2, dtype=complex)
        r_int, r_ext = one.copy(), one.copy()
        r_int[0, 0], r_ext[0, 0] = ri[0, 0], re[0, 0]
        want = compose(b, (r_int, None), b, (r_ext, None))
        _cmp("C07:identity:machzehnder-decomposition",
             f"MachZehnder{p} vs B(pi/4,pi/2)(R(int)+1)B(pi/4,pi/2)(R(ext)+1)",
             gg.complex_form(*mz), want)
        return
    if ident == "squeezing2-decomposition":
        r, phi = p["r"], p["phi"]
        s2 = own_blocks("Squeezing2", p, 2)
        b1 = own_blocks("Beamsplitter", {"theta": math.pi / 4, "phi": 0.0}, 2)
        b2 = own_blocks("Beamsplitter", {"theta": -math.pi / 4, "phi": 0.0}, 2)
        scale = math.cosh(r) ** 2 + math.sinh(r) ** 2
        for label, minus in (("r->-r", {"r": -r, "phi": phi}), ("phi->phi+pi", {"r": r, "phi": phi + math.pi})):
            sm = own_blocks("Squeezing", minus, 1)       # S(-z)
            sp = own_blocks("Squeezing", {"r": r, "phi": phi}, 1)   # S(z)
            mid_p = np.diag([sm[0][0, 0], sp[0][0, 0]])
            mid_a = np.diag([sm[1][0, 0], sp[1][0, 0]])
            want = compose(b1, (mid_p, mid_a), b2)
            # phi + pi is a rounded double: e^{i(phi+pi)} differs from -e^{i phi} by |phi| eps
            rel = 1e-12 if label == "r->-r" else 1e-12 + 4 * EPS * abs(phi)
            _cmp("C07:identity:squeezing2-decomposition",
                 f"Squeezing2{p} vs B(pi/4,0)[S(-z) x S(z)]B(-pi/4,0) ({label})",
                 gg.complex_form(*s2), want, scale, rel)
        return
    if ident == "displacement-aliases":
        v, hbar, d = p["v"], p["hbar"], p["d"]
        mode = p["mode_seed"] % d
        sx = gaussian_state_of(d, hbar, [((mode,), pq.PositionDisplacement(x=v))])
        sd = gaussian_state_of(d, hbar, [((mode,), pq.Displacement(r=v, phi=0.0))])
        sp = gaussian_state_of(d, hbar, [((mode,), pq.MomentumDisplacement(p=v))])
        sq = gaussian_state_of(d, hbar, [((mode,), pq.Displacement(r=v, phi=math.pi / 2))])
        amp = math.sqrt(2 * hbar) * v
        want_x = np.zeros(2 * d)
        want_x[mode] = amp
        want_p = np.zeros(2 * d)
        want_p[d + mode] = amp
        tol = 1e-12 * (1 + abs(amp))
        for label, got, want in (("PositionDisplacement", sx, want_x), ("Displacement(x,0)", sd, want_x),
                                 ("MomentumDisplacement", sp, want_p),
                                 ("Displacement(p,pi/2)", sq, want_p)):
            err = maxabs(np.asarray(got.xxpp_mean_vector) - want)
            if err > tol:
                raise Violation(f"C07:displacement:{label.split('(')[0]}:shift",
                                f"{label} v={v} hbar={hbar} d={d} mode={mode}: mean "
                                f"{np.asarray(got.xxpp_mean_vector).tolist()} != sqrt(2 hbar) v e_k = {want.tolist()}")
            err = maxabs(np.asarray(got.xxpp_covariance_matrix) - hbar * np.eye(2 * d))
            if err > 1e-12 * hbar:
                raise Violation(f"C07:displacement:{label.split('(')[0]}:covariance",
                                f"{label}: covariance changed by {err:.3e}")
        return
    raise KeyError(ident)


# --------------------------------------------------------------------------------------
# parts 3 and 4: action on Gaussian states

STATE_GATES = [g for g in BLOCK_GATES] + DISPLACEMENTS
DS = [1, 2, 2, 3, 3, 3, 4, 4, 5, 5]   # two-mode gates need d >= 2; most weight there


@st.composite
def one_gate(draw, d: int, scale: str = "state", names=None):
    names = [n for n in (names or STATE_GATES) if (progs.ARITY[n] or 1) <= d]
    name = draw(st.sampled_from(names))
    k = progs.ARITY[name]
    if k is None:
        k = draw(st.integers(1, d))
    modes = draw(progs.ordered_modes(d, k))
    p = dict(draw(block_params(name, scale)))
    return {"g": name, "modes": modes, "p": p}


@st.composite
def congruence_cases(draw):
    state = draw(gg.state_desc(ds=DS))
    hbar = draw(st.sampled_from(HBARS))
    g = draw(one_gate(state["d"]))
    return {"state": state, "hbar": hbar, "gates": [g]}


@st.composite
def sequence_cases(draw):
    state = draw(gg.state_desc(ds=DS))
    hbar = draw(st.sampled_from(HBARS))
    n = draw(st.integers(2, 10))
    gates = [draw(one_gate(state["d"], "seq")) for _ in range(n)]
    return {"state": state, "hbar": hbar, "gates": gates}


def is_ascending_adjacent(modes):
    return all(b == a + 1 for a, b in zip(modes, modes[1:]))


def oracle_apply(mu, sigma, g, d, hbar):
    """(mu', sigma', ||S_x||) after gate g by the documented action."""
    name, p, modes = g["g"], g["p"], g["modes"]
    if name in DISPLACEMENTS:
        if name == "Displacement":
            alpha = p["r"] * np.exp(1j * p["phi"])
        elif name == "PositionDisplacement":
            alpha = complex(p["x"], 0.0)
        else:
            alpha = complex(0.0, p["p"])
        mu = mu.copy()
        m = modes[0]
        mu[m] += math.sqrt(2 * hbar) * alpha.real
        mu[d + m] += math.sqrt(2 * hbar) * alpha.imag
        return mu, sigma, 1.0
    dp, da = doc_blocks(name, p, len(modes))
    sx = gg.embed_symplectic(dp, da, modes, d, "xxpp")
    return sx @ mu, sx @ sigma @ sx.T, opnorm(sx)


def run_on_state(case):
    desc, hbar, gates = case["state"], case["hbar"], case["gates"]
    d = desc["d"]
    mu0, s0 = gg.dimensionless(desc)
    with pq.Program() as prog:
        pq.Q() | pq.Vacuum()
        pq.Q() | pq.Mean(gg.vec_to_xpxp(mu0))
        pq.Q() | pq.Covariance(gg.mat_to_xpxp(s0))
        for g in gates:
            pq.Q(*g["modes"]) | progs.make_gate(pq, g)
    sim = pq.GaussianSimulator(d=d, config=pq.Config(hbar=hbar))
    return sim.execute(prog).state


def prop_state(case, ctx, part):
    desc, hbar, gates = case["state"], case["hbar"], case["gates"]
    d = desc["d"]
    nonasc = any(not is_ascending_adjacent(g["modes"]) for g in gates)
    bigp = any(abs(v) > 1 for g in gates for v in scalar_params(g["p"]))
    classes = [f"{part}:gate:{g['g']}" for g in gates][:1] if part == "cong" else [f"seq:len:{len(gates)}"]
    classes += [f"{part}:kind:{desc.get('kind')}", f"{part}:hbar:{hbar}"]
    if nonasc:
        classes.append(f"{part}:modes_nonascending")
    if hbar != 2.0:
        classes.append(f"{part}:hbar_not_2")
    if desc.get("displaced"):
        classes.append(f"{part}:displaced")
    ctx.case(case, nontrivial=nonasc or hbar != 2.0 or bigp, classes=classes)

    mu, sigma = gg.moments(desc, hbar, "xxpp")
    # loading through Mean / Covariance alone (no gates) must reproduce the state
    bound = opnorm(sigma)
    mbound = float(np.linalg.norm(mu))
    for g in gates:
        mu, sigma, n = oracle_apply(mu, sigma, g, d, hbar)
        bound = max(bound * n * n, opnorm(sigma))
        mbound = max(mbound * n, float(np.linalg.norm(mu))) + (
            math.sqrt(2 * hbar) * 3.0 if g["g"] in DISPLACEMENTS else 0.0)
    try:
        state = run_on_state(case)
    except Exception as e:
        raise Violation(f"C07:{part}:raises:{type(e).__name__}",
                        f"{case}: {type(e).__name__}: {e}")
    got_mu = np.asarray(state.xxpp_mean_vector)
    got_sigma = np.asarray(state.xxpp_covariance_matrix)
    # every entry is a sum of <= (2d)^2 <= 100 products per gate, each with relative
    # rounding eps = 1.1e-16 of the norm product: <= 1e-13 (1 + n_gates) relative to the
    # bound; 1e-11 leaves two orders of magnitude of slack and is 6 orders below any
    # effect of a wrong index, sign, conjugate or hbar factor
    tol_s = 1e-11 * len(gates) * (1.0 + bound)
    tol_m = 1e-11 * len(gates) * (1.0 + mbound + math.sqrt(bound))
    tag = gates[0]["g"] if part == "cong" else "product"
    err = maxabs(got_sigma - sigma)
    if not err <= tol_s:
        raise Violation(f"C07:{part}:{tag}:covariance",
                        f"{case}: |sigma - S sigma S^T| = {err:.3e} > {tol_s:.3e}")
    err = maxabs(got_mu - mu)
    if not err <= tol_m:
        raise Violation(f"C07:{part}:{tag}:mean",
                        f"{case}: |mu - (S mu + shift)| = {err:.3e} > {tol_m:.3e}")
    # the result of a symplectic congruence is again a physical state
    if not gg.is_physical(got_sigma, hbar, 1e-9):
        raise Violation(f"C07:{part}:{tag}:unphysical", f"{case}: sigma/hbar + i Omega not >= 0")


def prop_congruence(case, ctx):
    prop_state(case, ctx, "cong")


def prop_sequence(case, ctx):
    prop_state(case, ctx, "seq")


def parts(tier):
    return [
        Part("blocks", prop_blocks, strategy=block_cases(),
             examples={"quick": 3000, "thorough": 240000},
             budget_s={"quick": 25, "thorough": 1500}),
        Part("documented", prop_documented, strategy=doc_cases(),
             examples={"quick": 2000, "thorough": 60000},
             budget_s={"quick": 25, "thorough": 1500}),
        Part("congruence", prop_congruence, strategy=congruence_cases(),
             examples={"quick": 2400, "thorough": 40000},
             budget_s={"quick": 40, "thorough": 2500}),
        Part("sequence", prop_sequence, strategy=sequence_cases(),
             examples={"quick": 800, "thorough": 20000},
             budget_s={"quick": 40, "thorough": 2500}),
    ]
