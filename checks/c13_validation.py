"""C13 — invalid programs are rejected up front; valid ones are never refused.

negative: single-fault mutation of a valid adaptive program -> a PiquassoException,
          no Result, and (counted by a step-counting simulator subclass) no simulation
          step ran for structural faults / the offending step never ran for run-time
          parameter validation.
positive: programs inside the documented support execute without any exception, for
          every shots value, cutoff >= 1 and (with shots=None) every outcome history.
"""

from __future__ import annotations

import copy
import warnings

import numpy as np
from hypothesis import strategies as st

from lib import aprogs, bootstrap, progs
from lib.harness import Part, Violation

pq = bootstrap.load()

from piquasso.api.exceptions import NotImplementedCalculation, PiquassoException  # noqa: E402

PID = "C13"
LEVEL = "exploration"
SHARDS = {"quick": 16, "thorough": 16}
RULE = (
    "valid part: Hypothesis-generated adaptive programs (gates on ordered subsets of the "
    "still-active modes, mid-circuit measurements, post-selection, .when conditions and "
    "outcome-dependent parameters as strings and lambdas, Q() addressing) on the pure "
    "Fock, Fock, passive and Gaussian simulators, shots in {None,1,3,20}, cutoffs from 1; "
    "non-trivial = >=1 mid-circuit measurement or cutoff<=2. invalid part: exactly one "
    "fault injected into such a program at a drawn position (see FAULTS); non-trivial = "
    "fault not at position 0 and program length >=3. Distinct by hash of description+fault."
)
ASSUMPTIONS = [
    "'before any evolution' is read at API level: structural faults must raise before any "
    "simulation step is called; run-time parameter validation must raise before the "
    "offending instruction's own step",
    "NotImplementedCalculation (and the explicit 'Marginal probabilities cannot be "
    "calculated for postselected modes') mark combinations outside the documented support "
    "and are counted, not failed",
    "post-selection on an impossible pattern followed by finite-shot sampling is a user "
    "error outside the property; post-selected programs are executed with shots=None",
]

SIMS = ["PF", "P", "F", "G"]
SIM_CLASS = {"PF": "PureFockSimulator", "P": "SamplingSimulator", "F": "FockSimulator",
             "G": "GaussianSimulator"}

_counting_cache = {}


def counting_simulator(kind):
    """Subclass of the simulator whose every simulation step is counted."""
    if kind in _counting_cache:
        return _counting_cache[kind]
    base = getattr(pq, SIM_CLASS[kind])
    calls = []
    call_ids = []

    def wrap(cls, fn):
        def step(state, instruction, shots):
            calls.append(cls.__name__)
            call_ids.append(id(instruction))
            return fn(state, instruction, shots)

        return step

    sub = type("Counting" + base.__name__, (base,), {
        "_instruction_map": {c: wrap(c, f) for c, f in base._instruction_map.items()},
    })
    sub._call_ids = call_ids
    _counting_cache[kind] = (sub, calls)
    return sub, calls


def build_counting(desc, **cfg):
    program, sim = aprogs.build(pq, desc, **cfg)
    sub, calls = counting_simulator(desc["sim"])
    csim = sub(d=sim.d, config=sim.config)
    del calls[:]
    del sub._call_ids[:]
    return program, csim, calls


# ------------------------------------------------------------------------- positive

@st.composite
def valid_case(draw):
    sim = draw(st.sampled_from(SIMS))
    desc = draw(aprogs.adaptive_program(sim, imperfect=True))
    shots = draw(st.sampled_from([None, 1, 3, 20]))
    seed = draw(st.integers(0, 2**32 - 1))
    return {"desc": desc, "shots": shots, "seed": seed}


def postselection_impossible(desc) -> bool:
    """True if some post-selection in the program has (numerically) zero success
    probability on some branch — decided on the pure Fock simulator with shots=None,
    which represents the zero vector without complaint.  Such programs are outside the
    property (nothing can be sampled from a zero state)."""
    last = max(i for i, s in enumerate(desc["steps"]) if s["k"] == "postselect")
    steps = [s for s in desc["steps"][:last + 1]
             if not (s["k"] == "measure" and s["m"] != "ParticleNumberMeasurement")]
    ref = {**desc, "sim": "PF", "steps": steps,
           "cutoff": max(desc["cutoff"], progs.prep_max_photons(desc["prep"], desc["d"]) + 1)}
    try:
        with warnings.catch_warnings():
            warnings.simplefilter("ignore")
            program, sim = aprogs.build(pq, ref)
            res = sim.execute(program, shots=None)
        return any(float(np.real(b.state.norm)) < 1e-12 for b in res.branches)
    except Exception:
        return True


def kerr_after_measurement(desc) -> bool:
    seen = False
    for s in desc["steps"]:
        if s["k"] in ("measure", "postselect"):
            seen = True
        elif seen and s.get("g") in ("Kerr", "CrossKerr"):
            return True
    return False


def passive_kerr_cases(tier):
    out = []
    for occ in ([1, 0], [1, 1], [0, 2], [2, 1]):
        for xi in (0.0, 0.3):
            for tail in ("measure", "none"):
                out.append({"occ": occ, "xi": xi, "tail": tail})
    return out


def prop_passive_kerr(case, ctx):
    """Known finding: on the passive simulator a Kerr gate after a mid-circuit
    measurement breaks the state (every later measurement dies with IndexError)."""
    ctx.case(case, True, ["passive_kerr_after_measurement"])
    with pq.Program() as p:
        pq.Q() | pq.NumberState(case["occ"])
        pq.Q(0, 1) | pq.Beamsplitter(0.4, 0.1)
        pq.Q(0) | pq.ParticleNumberMeasurement()
        pq.Q(1) | pq.Kerr(case["xi"])
        if case["tail"] == "measure":
            pq.Q(1) | pq.ParticleNumberMeasurement()
    with warnings.catch_warnings():
        warnings.simplefilter("ignore")
        sim = pq.SamplingSimulator(d=2, config=pq.Config(cutoff=sum(case["occ"]) + 1))
        try:
            res = sim.execute(p, shots=None)
            total = sum(float(b.frequency) for b in res.branches)
        except PiquassoException:
            raise
        except Exception as e:
            raise Violation("C13:valid-crash:P:kerr-after-measurement",
                            f"NumberState({case['occ']}); measure(0); Kerr({case['xi']}) on 1"
                            f"{'; measure(1)' if case['tail'] == 'measure' else ''}: {e!r}")
    if abs(total - 1) > 1e-9:  # same root cause, other symptom
        raise Violation("C13:valid-crash:P:kerr-after-measurement",
                        f"NumberState({case['occ']}); measure(0); Kerr({case['xi']}) on 1; "
                        f"measure(1): branch weights sum to {total}")


UNSUPPORTED_MESSAGES = ("Marginal probabilities cannot be calculated for postselected modes",)


def prop_valid(case, ctx):
    desc, shots = case["desc"], case["shots"]
    if aprogs.has_postselect(desc):
        shots = None
    if shots is None and not aprogs.shots_none_ok(desc):
        shots = 2
    if desc["sim"] == "P" and kerr_after_measurement(desc):
        # known finding (probed by the part 'passive_kerr_after_measurement')
        ctx.exclude("C13:valid-crash:P:kerr-after-measurement")
        return
    nmid = sum(1 for s in desc["steps"][:-1] if s["k"] in ("measure", "postselect"))
    cl = [f"sim_{desc['sim']}", "shots_none" if shots is None else "shots_finite",
          f"cutoff_{min(desc['cutoff'], 3)}"]
    if any(s.get("when") or s.get("pexpr") for s in desc["steps"]):
        cl.append("adaptive")
    ctx.case(case, nmid >= 1 or desc["cutoff"] <= 2, cl)
    try:
        with warnings.catch_warnings():
            warnings.simplefilter("ignore")
            program, sim = aprogs.build(pq, desc, seed_sequence=case["seed"])
    except Exception as e:
        raise Violation(f"C13:valid:construction:{desc['sim']}:{type(e).__name__}",
                        f"building a valid program raised {e!r}")
    try:
        with warnings.catch_warnings():
            warnings.simplefilter("ignore")
            result = sim.execute(program, shots=shots)
    except NotImplementedCalculation:
        ctx.count("documented_unsupported")
        return
    except Exception as e:
        if aprogs.has_postselect(desc) and postselection_impossible(desc):
            ctx.count("impossible_postselection")
            return
        if not isinstance(e, PiquassoException):
            import traceback

            tb = traceback.extract_tb(e.__traceback__)[-1]
            where = f"{tb.filename.split('/')[-1]}:{tb.name}"
            raise Violation(f"C13:valid-crash:{desc['sim']}:{type(e).__name__}:{where}",
                            f"valid program crashed with {type(e).__name__}: {str(e)[:300]} "
                            f"at {where} (shots={shots})")
        if any(m in str(e) for m in UNSUPPORTED_MESSAGES):
            ctx.count("documented_unsupported")
            return
        raise Violation(f"C13:valid-refused:{desc['sim']}:{type(e).__name__}",
                        f"valid program refused with {type(e).__name__}: {str(e)[:300]} "
                        f"(shots={shots})")
    if result is None or not hasattr(result, "branches"):
        raise Violation("C13:valid:no-result", "execute returned no Result")
    if shots is not None and aprogs.has_sampling(desc) and len(result.samples) != shots:
        raise Violation(f"C13:valid:sample-count:{desc['sim']}",
                        f"{len(result.samples)} samples for shots={shots}")


@st.composite
def cutoff_case(draw):
    """Non-adaptive programs over the whole instruction support at small cutoffs."""
    sim = draw(st.sampled_from(["PF", "F"]))
    d = draw(st.integers(1, 4))
    cutoff = draw(st.integers(1, 6))
    nmax = min(cutoff - 1, 3)
    prep = draw(progs.prep(d, nmax, kinds=("vacuum", "number")
                           if sim == "F" else ("vacuum", "number", "superposition")))
    names = sorted(progs.SUPPORT[sim] - {"Attenuator"})
    gates = draw(st.lists(progs.gate(d, names, scale=0.6), min_size=1, max_size=6))
    return {"sim": sim, "d": d, "cutoff": cutoff, "prep": prep, "gates": gates,
            "hbar": draw(st.sampled_from([0.5, 1.0, 2.0]))}


def prop_cutoff(case, ctx):
    ctx.case(case, case["cutoff"] <= 2, [f"cutoffs_sim_{case['sim']}",
                                         f"cutoffs_c{min(case['cutoff'], 3)}"])
    try:
        with warnings.catch_warnings():
            warnings.simplefilter("ignore")
            state = progs.run(pq, case, case["sim"], case["cutoff"], case["hbar"])
            _ = state.fock_probabilities
    except NotImplementedCalculation:
        ctx.count("documented_unsupported")
    except Exception as e:
        raise Violation(f"C13:valid-refused:cutoff:{case['sim']}:{type(e).__name__}",
                        f"{type(e).__name__}: {str(e)[:300]} at cutoff={case['cutoff']}")


def regress_subnormal(case, ctx):
    """Known finding: scipy logm inside euler() fails for subnormal-scale parameters."""
    ctx.case(case, True, ["subnormal_parameter"])
    with pq.Program() as p:
        pq.Q() | pq.Vacuum()
        pq.Q(0) | pq.QuadraticPhase(case["s"])
    try:
        getattr(pq, SIM_CLASS[case["sim"]])(d=1, config=pq.Config(cutoff=4)).execute(p)
    except PiquassoException:
        raise
    except Exception as e:
        raise Violation("C13:valid-refused:subnormal-parameter:euler-logm",
                        f"QuadraticPhase(s={case['s']}) on {case['sim']}: {e!r}")


# ------------------------------------------------------------------------- negative

STRUCTURAL = [
    "negative_mode", "mode_out_of_range", "repeated_mode_on_modes", "repeated_mode_q",
    "repeated_mode_instructions", "wrong_arity", "prep_after_gate", "unsupported_instruction",
    "nonfinal_measurement", "shots_zero", "shots_negative", "shots_float", "shots_str",
    "shots_list", "shots_none_unsupported", "initial_state_class", "initial_state_d",
]
PARAMETER = [
    "gaussian_transform_nonsymplectic", "graph_nonsymmetric", "thermal_negative",
    "attenuator_negative_excitation", "lossy_interferometer_singular", "dgc_invalid",
    "generaldyne_unphysical", "occupation_non_natural", "occupation_negative",
    "state_vector_both", "state_vector_neither", "interferometer_nonsquare",
    "particle_overlap_invalid",
]
FAULTS = STRUCTURAL + PARAMETER


@st.composite
def invalid_case(draw):
    fault = draw(st.sampled_from(FAULTS))
    sim = draw(st.sampled_from(SIMS))
    if fault in ("gaussian_transform_nonsymplectic", "graph_nonsymmetric", "thermal_negative",
                 "attenuator_negative_excitation", "dgc_invalid", "generaldyne_unphysical"):
        sim = "G"
    if fault in ("lossy_interferometer_singular", "particle_overlap_invalid"):
        sim = "P"
    if fault in ("occupation_non_natural", "occupation_negative", "state_vector_both",
                 "state_vector_neither") and sim in ("G", "F"):
        sim = "PF"
    if fault == "shots_none_unsupported":
        sim = "G"
    desc = draw(aprogs.adaptive_program(sim, allow_postselect=False, final_measure=False))
    pos = draw(st.integers(0, len(desc["steps"])))
    aux = draw(st.integers(0, 2**16))
    return {"desc": desc, "fault": fault, "pos": pos, "aux": aux}


def other_state(kind, d):
    other = {"PF": "G", "P": "G", "F": "G", "G": "PF"}[kind]
    return getattr(pq, SIM_CLASS[other])(d=d).create_initial_state()


def inject(case):
    """-> (callable that performs the invalid request, expects_no_step: bool,
           offending_class_name or None). Construction-time faults raise inside."""
    desc, fault, pos, aux = case["desc"], case["fault"], case["pos"], case["aux"]
    d, kind = desc["d"], desc["sim"]
    program, sim, calls = build_counting(desc, seed_sequence=7)
    instrs = program.instructions
    nprep = sum(1 for i in instrs if isinstance(i, pq.Preparation))
    idx = min(nprep + pos, len(instrs))
    active = list(range(d))
    for s in desc["steps"][:max(0, idx - nprep)]:
        if s["k"] in ("measure", "postselect"):
            active = [a for a in active if a not in s["modes"]]
    shots = 2
    kwargs = {}
    offending = None

    inserted = []

    def insert(inst):
        inserted.append(inst)
        instrs.insert(idx, inst)

    if fault == "negative_mode":
        insert(pq.Phaseshifter(0.1).on_modes(-1 - aux % 3))
    elif fault == "mode_out_of_range":
        insert(pq.Phaseshifter(0.1).on_modes(d + aux % 3))
    elif fault == "repeated_mode_on_modes":
        m = active[aux % len(active)] if active else 0
        insert(pq.Beamsplitter(0.1, 0.2).on_modes(m, m))
    elif fault == "repeated_mode_q":
        with pq.Program():
            pq.Q(0, 0) | pq.Beamsplitter(0.1, 0.2)
    elif fault == "repeated_mode_instructions":
        m = active[aux % len(active)] if active else 0
        bad = pq.Interferometer(np.eye(3)).on_modes(m, (m + 1) % d, m)
        program = pq.Program(instructions=instrs[:idx] + [bad] + instrs[idx:])
    elif fault == "wrong_arity":
        if not active:
            raise Skip()
        if aux % 2 or len(active) < 2:
            insert(pq.Beamsplitter(0.1, 0.2).on_modes(active[0]))
        else:
            insert(pq.Phaseshifter(0.1).on_modes(*active[:2]))
    elif fault == "prep_after_gate":
        first_gate = next((i for i, x in enumerate(instrs) if not isinstance(x, pq.Preparation)),
                          None)
        if first_gate is None:
            instrs.append(pq.Phaseshifter(0.1).on_modes(0))
            first_gate = len(instrs) - 1
        instrs.insert(max(idx, first_gate + 1), pq.Vacuum())
    elif fault == "unsupported_instruction":
        cand = {"PF": pq.ControlledX(0.1), "F": pq.ControlledZ(0.1), "P": pq.Squeezing2(0.1),
                "G": pq.CrossKerr(0.1)}[kind]
        if len(active) < 2:
            raise Skip()
        insert(cand.on_modes(*active[:2]))
    elif fault == "nonfinal_measurement":
        meas = {"PF": pq.HomodyneMeasurement(), "F": pq.ParticleNumberMeasurement(),
                "P": None, "G": pq.ParticleNumberMeasurement()}[kind]
        if meas is None:
            raise Skip()
        m = active[aux % len(active)] if active else 0
        instrs.insert(idx, meas.on_modes(m))
        if idx == len(instrs) - 1:  # must not be last
            other = [a for a in active if a != m]
            if not other:
                raise Skip()
            instrs.append(pq.Phaseshifter(0.1).on_modes(other[0]))
    elif fault.startswith("shots_") and fault != "shots_none_unsupported":
        shots = {"shots_zero": 0, "shots_negative": -1 - aux % 5, "shots_float": 2.5,
                 "shots_str": "3", "shots_list": [1]}[fault]
    elif fault == "shots_none_unsupported":
        m = [pq.HomodyneMeasurement(), pq.HeterodyneMeasurement(), pq.ThresholdMeasurement(),
             pq.ParticleNumberMeasurement()][aux % 4]
        if not active:
            raise Skip()
        instrs.append(m.on_modes(active[0]))
        shots = None
    elif fault == "initial_state_class":
        kwargs["initial_state"] = other_state(kind, d)
    elif fault == "initial_state_d":
        kwargs["initial_state"] = getattr(pq, SIM_CLASS[kind])(d=d + 1).create_initial_state()
    # ---- documented parameter errors --------------------------------------------
    elif fault == "gaussian_transform_nonsymplectic":
        k = min(2, len(active)) or 1
        passive = progs.haar_unitary(k, aux) * 1.3
        insert(pq.GaussianTransform(passive=passive, active=np.zeros((k, k))).on_modes(
            *(active[:k] or [0])))
        offending = "GaussianTransform"
    elif fault == "graph_nonsymmetric":
        a = np.array([[0.0, 1.0], [0.5, 0.0]])
        if len(active) < 2:
            raise Skip()
        insert(pq.Graph(a).on_modes(*active[:2]))
        offending = "Graph"
    elif fault == "thermal_negative":
        inserted.append(pq.Thermal([-0.5] * d).on_modes(*range(d)))
        instrs.insert(nprep, inserted[-1])
        offending = "Thermal"
    elif fault == "attenuator_negative_excitation":
        insert(pq.Attenuator(theta=0.3, mean_thermal_excitation=-1.0).on_modes(
            active[0] if active else 0))
        offending = "Attenuator"
    elif fault == "lossy_interferometer_singular":
        k = len(active) or 1
        insert(pq.LossyInterferometer(progs.haar_unitary(k, aux) * 1.2).on_modes(
            *(active or [0])))
        offending = "LossyInterferometer"
    elif fault == "dgc_invalid":
        X = np.eye(2) * 0.5
        Y = np.zeros((2, 2))  # violates Y + i*Omega - i X Omega X^T >= 0
        insert(pq.DeterministicGaussianChannel(X=X, Y=Y).on_modes(active[0] if active else 0))
        offending = "DeterministicGaussianChannel"
    elif fault == "generaldyne_unphysical":
        pq.GeneraldyneMeasurement(detection_covariance=np.eye(2) * 0.1)
    elif fault == "occupation_non_natural":
        pq.NumberState([0.5] + [0] * (d - 1))
    elif fault == "occupation_negative":
        pq.FockStateVector({tuple([-1] + [0] * (d - 1)): 1.0})
    elif fault == "state_vector_both":
        with warnings.catch_warnings():
            warnings.simplefilter("ignore")
            pq.StateVector([1] + [0] * (d - 1), fock_amplitude_map={(0,) * d: 1.0})
    elif fault == "state_vector_neither":
        with warnings.catch_warnings():
            warnings.simplefilter("ignore")
            pq.StateVector()
    elif fault == "interferometer_nonsquare":
        if len(active) < 2:
            raise Skip()
        insert(pq.Interferometer(np.ones((2, 3))).on_modes(*active[:2]))
        offending = "Interferometer"
    elif fault == "particle_overlap_invalid":
        bad = [1.5, -0.2, np.array([[1.0, 2.0], [2.0, 1.0]])][aux % 3]
        for k in range(nprep):
            del instrs[0]
        inserted.append(pq.DistinguishableNumberState([1, 1] + [0] * (d - 2),
                                                      particle_overlap=bad))
        instrs.insert(0, inserted[-1])
        offending = "DistinguishableNumberState"
    else:
        raise KeyError(fault)

    def go():
        return sim.execute(program, shots=shots, **kwargs)

    if offending is not None:
        offending = (offending, id(inserted[-1]), type(sim)._call_ids)
    return go, calls, offending, kwargs


class Skip(Exception):
    pass


def prop_invalid(case, ctx):
    fault, desc = case["fault"], case["desc"]
    nontrivial = case["pos"] > 0 and len(desc["steps"]) >= 2
    result = None
    calls = []
    offending = None
    kwargs = {}
    snapshot = None
    try:
        with warnings.catch_warnings():
            warnings.simplefilter("ignore")
            go, calls, offending, kwargs = inject(case)
            if "initial_state" in kwargs:
                snapshot = copy.deepcopy(kwargs["initial_state"].__dict__.get("_m", None))
            result = go()
        raised = None
    except Skip:
        ctx.count("skipped_not_applicable")
        return
    except PiquassoException as e:
        raised = e
    except Exception as e:
        ctx.case(case, nontrivial, [f"fault_{fault}", f"fsim_{desc['sim']}"])
        raise Violation(f"C13:invalid:{fault}:wrong-exception:{type(e).__name__}",
                        f"{fault} on {desc['sim']}: raised {type(e).__name__}: {str(e)[:200]} "
                        f"instead of a PiquassoException")
    ctx.case(case, nontrivial, [f"fault_{fault}", f"fsim_{desc['sim']}"])
    if raised is None:
        raise Violation(f"C13:invalid:{fault}:accepted",
                        f"{fault} on {desc['sim']} was accepted and returned {type(result).__name__}")
    if fault in STRUCTURAL and calls:
        raise Violation(f"C13:invalid:{fault}:steps-ran-before-rejection",
                        f"{fault} on {desc['sim']}: {len(calls)} simulation steps "
                        f"({calls[:5]}...) ran before {type(raised).__name__} was raised")
    if offending is not None and offending[1] in offending[2]:
        raise Violation(f"C13:invalid:{fault}:offending-step-ran",
                        f"{fault}: the step of {offending[0]} ran before the parameter error")


def parts(tier):
    return [
        Part("valid", prop_valid, strategy=valid_case(),
             examples={"quick": 800, "thorough": 30000}),
        Part("cutoffs", prop_cutoff, strategy=cutoff_case(),
             examples={"quick": 400, "thorough": 10000}),
        Part("invalid", prop_invalid, strategy=invalid_case(),
             examples={"quick": 1200, "thorough": 30000}),
        Part("passive_kerr_after_measurement", prop_passive_kerr, kind="enum",
             cases=passive_kerr_cases),
        Part("subnormal", regress_subnormal, kind="enum", only_shard0=False,
             cases=lambda tier: [{"sim": s, "s": v} for s in ("PF", "F")
                                 for v in (1e-99, 1e-60, -1e-99)]),
    ]
