"""C15 — Matrix decompositions reconstruct their input.

Pure reconstruction identities (no reference implementation of any decomposition):

* Clements   inverse_clements(clements(U)) = U;  the weight vector round trip;  the instruction
             list executed on PassiveSimulator (== the deprecated alias SamplingSimulator) and
             on PureFockSimulator reproduces the one-particle unitary;  all angles finite.
* Takagi     U unitary, s real >= 0, U diag(s) U^T = A.
* Williamson S real, S Omega S^T = Omega (xxpp form), D positive diagonal = diag(nu, nu),
             S D S^T = M.
* Euler      (U, D, V) = euler(S_c):  U, V unitary, D real >= 0,
             P = U cosh(D) V,  A = -U sinh(D) conj(V)   (this is how the Fock simulators use
             it: V first, Squeezing(r=D_i, phi=0), U last);
             GaussianTransform executed on GaussianSimulator equals the congruence
             sigma_c -> S sigma_c S^dagger, mu -> P mu + A conj(mu);
             GaussianTransform executed on PureFockSimulator (the consumer of euler) gives the
             exact low-photon amplitudes  <0|S|0>, <2-photon|S|0>, <1_j|S|1_k>.
* Graph      after Graph(A, nbar) on vacuum: mean photon number per mode = nbar and the
             state's B-matrix  G (1 + C)^-1  is proportional to A.

All matrices are rebuilt deterministically from drawn integers / verbatim scalars.
Degenerate inputs are generated *by construction* (bit-identical repeated values, exact
zeros, permutations, blocks, d = 1); spectral gaps are either exact (round-off only) or
>= 1e-6 absolute (DESIGN.md C15: the window in between is ill-posed for a clustering
algorithm and is excluded by construction, never by rejection).

Tolerances (DESIGN.md 1.8 / C15):  1e-9 * (1 + ||M||_2) * cond, where cond is the condition
number of the *problem*: 1 for Clements and Takagi (all factors unitary), cond_2(M) for
Williamson (the algorithm forms M^-1/2), cond_2(S) = exp(2 max|r|) for Euler (polar factor
and matrix logarithm of S).  Backward-stable LAPACK kernels give ~1e-15 * norm * cond, so the
bound leaves six orders of magnitude and is not tuned to observed residuals.
"""

from __future__ import annotations

import math
import os
import warnings

import numpy as np
from hypothesis import strategies as st

from lib import bootstrap, progs
from lib.harness import Part, Violation

pq = bootstrap.load()

from piquasso._math import decompositions as pdec  # noqa: E402
from piquasso._simulators.connectors import NumpyConnector  # noqa: E402
from piquasso.decompositions import clements as pcl  # noqa: E402

warnings.filterwarnings("ignore", category=DeprecationWarning)
warnings.filterwarnings("ignore", category=np.exceptions.ComplexWarning)

PID = "C15"
LEVEL = "exploration"
SHARDS = {"quick": 4, "thorough": 16}  # start-up (import + numba cache load) dominates the quick tier
RULE = (
    "Hypothesis draws (dimension 1..6, family, integer seed, verbatim spectra / squeezings); "
    "matrices are rebuilt deterministically: unitaries (Haar, permutation, diagonal phase, "
    "identity, real orthogonal, block diagonal, monomial, repeated eigenphases, DFT, shallow "
    "beamsplitter circuits, structured x tiny Givens rotation), symmetric matrices "
    "U diag(s) U^T with s = level*unit (bit-identical repeats, exact zeros, gaps >= 1e-6), real "
    "symmetric O diag(+-s) O^T in real and complex dtype, graph adjacency matrices (complete, "
    "cycle, path, star, disjoint unions, isolated vertices, random), positive definite "
    "S diag(nu,nu) S^T (repeated nu, c*I, unpaired diagonal, cond up to 1e8), complex-form "
    "symplectics U2 sq(r) U1 and products of two (passive, equal / zero squeezings). "
    "Non-trivial = dimension >= 2 and (degenerate/structured family or cond >= 1e3); distinct "
    "by the hash of the case description."
)
ASSUMPTIONS = [
    "numpy matmul / norm / inv / cosh and the deterministic constructions in lib/progs.py "
    "are the reference for recomposition; no second implementation of a decomposition is used",
    "inputs are exactly structured only up to round-off of the products that build them "
    "(~1e-16 * norm); gaps in (1e-13, 1e-7) are excluded by construction as ill-posed",
    "Gaussian-state conventions C = <a^dagger a>, G = <a a>, Heisenberg action a -> P a + A a^dagger "
    "(piquasso docs, eq. 'linearity') are taken as the specification of GaussianTransform",
]
FLOORS = {"degenerate": 0.40}

CONN = NumpyConnector()
TOL = 1e-9


# ======================================================================================
# deterministic constructions


def _sub(rng) -> int:
    return int(rng.integers(2**60))


UNITARY_FAMS_STRUCT = ["perm", "diag", "identity", "real", "block", "block_perm", "monomial",
                       "repeat", "fourier", "antidiag", "shallow", "near"]
UNITARY_FAMS = ["haar"] + UNITARY_FAMS_STRUCT


def givens(d, i, j, theta, phi=0.0):
    g = np.eye(d, dtype=complex)
    c, s = math.cos(theta), math.sin(theta)
    g[i, i], g[i, j] = c, -s * np.exp(-1j * phi)
    g[j, i], g[j, j] = s * np.exp(1j * phi), c
    return g


def make_unitary(d: int, fam: str, seed: int, eps: float = 0.0) -> np.ndarray:
    """Unitary of a named family, a pure function of (d, fam, seed, eps)."""
    rng = progs.rng_of(seed)
    if fam in ("haar", "perm", "diag", "identity", "real"):
        return np.asarray(progs.haar_unitary(d, seed, fam), dtype=complex)
    if fam in ("block", "block_perm"):
        sizes, left = [], d
        while left > 0:
            k = int(rng.integers(1, left + 1))
            sizes.append(k)
            left -= k
        u = np.zeros((d, d), dtype=complex)
        pos = 0
        for k in sizes:
            kind = ["haar", "haar", "real", "perm", "identity"][int(rng.integers(5))]
            u[pos:pos + k, pos:pos + k] = progs.haar_unitary(k, _sub(rng), kind)
            pos += k
        if fam == "block_perm":
            p = rng.permutation(d)
            u = u[p][:, p]
        return u
    if fam == "monomial":
        return (progs.haar_unitary(d, _sub(rng), "perm") @ progs.haar_unitary(d, _sub(rng), "diag"))
    if fam == "repeat":
        v = progs.haar_unitary(d, _sub(rng), "haar")
        k = int(rng.integers(1, max(2, d)))  # number of distinct eigenphases < d (if d>1)
        levels = rng.uniform(0, 2 * np.pi, k)
        which = np.concatenate([np.arange(k), rng.integers(0, k, d)])[:d]
        ph = np.exp(1j * levels[which])
        return (v * ph) @ v.conj().T
    if fam == "fourier":
        w = np.exp(2j * np.pi / d)
        return np.array([[w ** (i * j) for j in range(d)] for i in range(d)]) / math.sqrt(d)
    if fam == "antidiag":
        ph = np.exp(1j * rng.uniform(0, 2 * np.pi, d))
        return np.diag(ph)[::-1].astype(complex)
    if fam == "shallow":
        u = np.eye(d, dtype=complex)
        if d == 1:
            return u * np.exp(1j * rng.uniform(0, 2 * np.pi))
        for _ in range(int(rng.integers(1, 4))):
            i = int(rng.integers(0, d - 1))
            theta = [np.pi / 4, np.pi / 2, np.pi / 3, float(rng.uniform(0, np.pi))][int(rng.integers(4))]
            phi = [0.0, np.pi / 2, np.pi, float(rng.uniform(0, 2 * np.pi))][int(rng.integers(4))]
            u = givens(d, i, i + 1, theta, phi) @ u
        return u
    if fam == "near":
        # bases with entries of modulus 0 or 1 only: the new entries have modulus sin(eps) exactly
        base = ["perm", "identity", "diag", "monomial", "antidiag"][int(rng.integers(5))]
        u = make_unitary(d, base, _sub(rng))
        if d == 1:
            return u
        i = int(rng.integers(0, d - 1))
        j = int(rng.integers(i + 1, d))
        return givens(d, i, j, eps, float(rng.uniform(0, 2 * np.pi))) @ u
    raise KeyError(fam)


def op_norm(m) -> float:
    m = np.asarray(m)
    return float(np.linalg.norm(m, 2)) if m.size else 0.0


def dist(a, b) -> float:
    a, b = np.asarray(a), np.asarray(b)
    if a.shape != b.shape:
        return float("inf")
    if not (np.all(np.isfinite(a)) and np.all(np.isfinite(b))):
        return float("inf")
    return op_norm(a - b) if a.ndim == 2 else float(np.max(np.abs(a - b), initial=0.0))


def call(bucket, fn, *a, **k):
    """The decompositions must not raise on valid input."""
    try:
        return fn(*a, **k)
    except Violation:
        raise
    except Exception as e:  # noqa: BLE001
        raise Violation(f"{bucket}:raises:{type(e).__name__}", f"{type(e).__name__}: {e}")


# ======================================================================================
# Clements


@st.composite
def unitary_cases(draw, dmax=6):
    d = draw(st.sampled_from([k for k in (4, 3, 5, 2, 6, 1) if k <= dmax]))
    fam = draw(st.sampled_from(["haar"] * 4 + UNITARY_FAMS_STRUCT))
    case = {"d": d, "fam": fam, "seed": draw(st.integers(0, 2**32))}
    if fam == "near":
        # entries in (1e-9, 1e-8] are the trigger region of the confirmed np.isclose(x, 0)
        # finding (part `trigger_clements`); below, the same effect stays under the tolerance
        case["eps"] = draw(st.sampled_from([1e-12, 1e-10, 2e-8, 1e-7, 1e-5, 1e-3]))
    return case


@st.composite
def clements_trigger_cases(draw):
    return {"d": draw(st.integers(2, 6)), "fam": "near", "seed": draw(st.integers(0, 2**32)),
            "eps": draw(st.sampled_from([3e-9, 5e-9, 8e-9]))}


def passive_sim(d):
    cls = getattr(pq, "PassiveSimulator", None) or pq.SamplingSimulator
    return cls(d=d)


def prop_clements(case, ctx):
    d, fam = case["d"], case["fam"]
    u = make_unitary(d, fam, case["seed"], case.get("eps", 0.0))
    degenerate = fam != "haar"
    ctx.case(case, nontrivial=(d >= 2 and degenerate),
             classes=["clements", f"clements:{fam}", f"d={d}"] + (["degenerate"] if degenerate else []))
    tol = TOL * (1 + 1.0)  # ||U|| = 1, all factors unitary: cond = 1
    uin = u.copy()
    dec = call("C15:clements", pcl.clements, u, CONN)
    if not np.array_equal(u, uin):
        raise Violation("C15:clements:input-mutated", f"{case}: clements() modified its argument")
    nbs = d * (d - 1) // 2
    if len(dec.beamsplitters) != nbs or len(dec.phaseshifters) != d:
        raise Violation("C15:clements:shape", f"{case}: {len(dec.beamsplitters)} beamsplitters, "
                        f"{len(dec.phaseshifters)} phaseshifters for d={d}")
    angles = [float(x) for bs in dec.beamsplitters for x in bs.params] + \
             [float(ps.phi) for ps in dec.phaseshifters]
    if not all(math.isfinite(a) for a in angles):
        raise Violation("C15:clements:angles-finite", f"{case}: non-finite angle in {angles}")
    for bs in dec.beamsplitters:
        if not (0 <= bs.modes[0] < d and bs.modes[1] == bs.modes[0] + 1):
            raise Violation("C15:clements:modes", f"{case}: beamsplitter on modes {bs.modes}")
    back = call("C15:inverse_clements", pcl.inverse_clements, dec, CONN, u.dtype)
    e = dist(back, u)
    if not e <= tol:
        mod = np.abs(u)
        tiny = bool(np.any((mod > 0) & (mod < 1e-8)))  # names the bucket only
        raise Violation(BUCKET_TINY_ENTRY if tiny and e < 1e-7 else "C15:clements:inverse",
                        f"{case}: ||inverse_clements(clements(U)) - U|| = {e:.3e} > {tol:.1e}"
                        + (f" (smallest non-zero |U_ij| = {float(np.min(mod[mod > 0])):.2e})" if tiny else ""))
    # weight vector round trip
    w = call("C15:get_weights_from_interferometer", pcl.get_weights_from_interferometer, u, CONN)
    w = np.asarray(w)
    if w.shape != (d * d,) or not np.all(np.isfinite(w)):
        raise Violation("C15:clements:weights-shape", f"{case}: weights shape {w.shape}, finite="
                        f"{bool(np.all(np.isfinite(w)))}")
    back = call("C15:get_interferometer_from_weights", pcl.get_interferometer_from_weights,
                w, d, CONN, u.dtype)
    e = dist(back, u)
    if not e <= tol:
        raise Violation("C15:clements:weights-roundtrip", f"{case}: ||U(weights(U)) - U|| = "
                        f"{e:.3e} > {tol:.1e}")
    # instruction list on the passive simulator: accumulated one-particle unitary
    ins = call("C15:instructions_from_decomposition", pcl.instructions_from_decomposition, dec)
    if len(ins) != 2 * nbs + d:
        raise Violation("C15:clements:instruction-count", f"{case}: {len(ins)} instructions")
    state = call("C15:clements:passive-sim", lambda: passive_sim(d).execute(
        pq.Program(instructions=[pq.Vacuum()] + ins)).state)
    e = dist(state.interferometer, u)
    if not e <= tol:
        raise Violation("C15:clements:passive-sim", f"{case}: instruction list on PassiveSimulator "
                        f"gives an interferometer at distance {e:.3e} from U")
    # instruction list on the pure Fock simulator: columns of U from one-photon inputs
    # (cutoff 3: the lowest cutoff that runs passive gates on the Fock backends)
    got = np.zeros((d, d), dtype=complex)
    for k in range(d):
        occ = [0] * d
        occ[k] = 1
        ins = pcl.instructions_from_decomposition(dec)
        st_ = call("C15:clements:purefock-sim", lambda: pq.PureFockSimulator(
            d=d, config=pq.Config(cutoff=3)).execute(
            pq.Program(instructions=[pq.NumberState(occ)] + ins)).state)
        sv = np.asarray(st_.state_vector)
        got[:, k] = sv[1:d + 1]
        rest = float(np.max(np.abs(np.delete(sv, np.arange(1, d + 1))), initial=0.0))
        if rest > tol:
            raise Violation("C15:clements:purefock-sim:leak", f"{case}: amplitude {rest:.3e} "
                            f"outside the one-photon sector for input mode {k}")
    e = dist(got, u)
    if not e <= tol:
        raise Violation("C15:clements:purefock-sim", f"{case}: one-photon amplitudes of the "
                        f"instruction list on PureFockSimulator differ from U by {e:.3e}")


# ======================================================================================
# symmetric matrices / Takagi

UNITS = [1e-6, 1e-4, 1e-2, 0.5, 1.0, 7.0]
GRAPH_KINDS = ["complete", "cycle", "path", "star", "union", "isolated", "random", "loops"]


def adjacency(d: int, kind: str, seed: int) -> np.ndarray:
    rng = progs.rng_of(seed)
    a = np.zeros((d, d))

    def edge(i, j):
        a[i, j] = a[j, i] = 1.0

    if kind == "complete":
        a = np.ones((d, d)) - np.eye(d)
    elif kind == "cycle":
        for i in range(d):
            if d >= 3 or i + 1 < d:
                edge(i, (i + 1) % d)
    elif kind == "path":
        for i in range(d - 1):
            edge(i, i + 1)
    elif kind == "star":
        for i in range(1, d):
            edge(0, i)
    elif kind == "union":  # disjoint union of complete graphs / cycles
        pos = 0
        while pos < d:
            k = int(rng.integers(1, d - pos + 1))
            sub = adjacency(k, ["complete", "cycle", "path"][int(rng.integers(3))], 0)
            a[pos:pos + k, pos:pos + k] = sub
            pos += k
    elif kind == "isolated":  # a connected piece plus isolated vertices
        k = int(rng.integers(1, d + 1)) if d > 1 else 1
        k = min(k, max(1, d - 1))
        a[:k, :k] = adjacency(k, ["complete", "cycle", "path", "star"][int(rng.integers(4))], 0)
    elif kind == "random":
        for i in range(d):
            for j in range(i + 1, d):
                if rng.integers(2):
                    edge(i, j)
    elif kind == "loops":  # random graph with self-loops
        for i in range(d):
            for j in range(i, d):
                if rng.integers(2):
                    edge(i, j)
    else:
        raise KeyError(kind)
    if kind in ("union", "isolated", "random", "loops") and d > 1 and rng.integers(2):
        p = rng.permutation(d)
        a = a[p][:, p]
    return a


@st.composite
def spectrum(draw, d, zero_ok=True):
    """s = level * unit: repeats are bit-identical, zeros exact, distinct values >= 1e-6 apart."""
    unit = draw(st.sampled_from(UNITS))
    lo = 0 if zero_ok else 1
    style = draw(st.sampled_from(["free", "free", "all_equal", "two_levels", "distinct"]))
    if style == "all_equal":
        levels = [draw(st.integers(lo, 6))] * d
    elif style == "two_levels":
        a, b = draw(st.integers(lo, 6)), draw(st.integers(lo, 6))
        levels = [draw(st.sampled_from([a, b])) for _ in range(d)]
    elif style == "distinct":
        levels = draw(st.permutations(list(range(lo, lo + max(7, d)))))[:d]
    else:
        levels = [draw(st.integers(lo, 6)) for _ in range(d)]
    return {"unit": unit, "levels": list(levels)}


@st.composite
def symmetric_cases(draw, dmax=6):
    d = draw(st.sampled_from([k for k in (4, 3, 5, 2, 6, 1) if k <= dmax]))
    fam = draw(st.sampled_from(["usut", "usut", "usut", "real_sym", "real_sym", "graph", "graph",
                                "generic", "zero"]))
    case = {"d": d, "fam": fam, "seed": draw(st.integers(0, 2**32))}
    if fam == "usut":
        case["ufam"] = draw(st.sampled_from(["haar", "haar", "haar", "real", "perm", "identity",
                                             "diag", "block", "monomial"]))
        case["spec"] = draw(spectrum(d))
        case["close"] = draw(st.sampled_from([0, 0, 0, 1, 2, 3]))  # one gap of close*1e-6
    elif fam == "real_sym":
        case["ufam"] = draw(st.sampled_from(["real", "real", "perm", "identity", "block_real"]))
        case["spec"] = draw(spectrum(d))
        case["signs"] = draw(st.lists(st.sampled_from([1, -1]), min_size=d, max_size=d))
        case["dtype"] = draw(st.sampled_from(["complex", "float"]))
    elif fam == "graph":
        case["kind"] = draw(st.sampled_from(GRAPH_KINDS))
        case["dtype"] = draw(st.sampled_from(["complex", "float", "int"]))
    elif fam == "zero":
        case["dtype"] = draw(st.sampled_from(["complex", "float"]))
    return case


def real_orthogonal(d, ufam, seed):
    if ufam == "block_real":
        rng = progs.rng_of(seed)
        o = np.zeros((d, d))
        pos = 0
        while pos < d:
            k = int(rng.integers(1, d - pos + 1))
            o[pos:pos + k, pos:pos + k] = progs.haar_unitary(k, _sub(rng), "real").real
            pos += k
        return o
    return np.asarray(progs.haar_unitary(d, seed, ufam)).real


def spectrum_values(spec, close=0):
    s = np.array([lv * spec["unit"] for lv in spec["levels"]], dtype=float)
    if close and len(s) >= 2:
        # a pair at an absolute distance close*1e-6 (>= 1e-6: allowed by the design)
        s[1] = s[0] + close * 1e-6
    return s


def takagi_region(lam, dtype_real, real_valued):
    """Confirmed trigger regions of takagi in terms of the constructed spectrum `lam`
    (signed eigenvalues of a real symmetric matrix): -> (in_branch_cut, in_null_space)."""
    lam = np.asarray(lam, dtype=float)
    scale = max(float(np.max(np.abs(lam), initial=0.0)), 1e-300)
    zero = np.abs(lam) <= 1e-9 * scale
    pos = np.sort(lam[(lam > 0) & ~zero])
    # "repeated" as the code sees it: np.isclose(x, y, atol=1e-12) (rtol 1e-5) puts them in one block
    pos_rep = any(np.isclose(x, y, atol=1e-12) or np.isclose(y, x, atol=1e-12)
                  for x, y in zip(pos[:-1], pos[1:]))
    nullity = int(np.sum(zero))
    return (not dtype_real) and real_valued and pos_rep, dtype_real and nullity >= 2


def real_columns_in_cluster(u, s) -> bool:
    """Is there a block of >= 2 values s_i > 0 that the code clusters (isclose, atol 1e-12)
    whose columns of U are real?  Then A restricted to it is real positive semi-definite
    with a repeated eigenvalue: the branch-cut region of the confirmed takagi finding."""
    s = np.asarray(s, dtype=float)
    order = [int(i) for i in np.argsort(s) if s[i] > 0]
    clusters, cur = [], []
    for i in order:  # chains of neighbours that np.isclose joins
        if cur and not (np.isclose(s[cur[-1]], s[i], atol=1e-12) or np.isclose(s[i], s[cur[-1]], atol=1e-12)):
            clusters.append(cur)
            cur = []
        cur.append(i)
    clusters.append(cur)
    return any(sum(1 for i in c if not np.any(u[:, i].imag)) >= 2 for c in clusters)


def steer_out_of_regions(a, lam, info, avoid):
    """Move a real symmetric input out of the trigger regions of the two confirmed takagi
    defects *by construction* (dtype switch, else a global phase) so the remaining oracles
    keep running; the regions themselves are probed by the part `trigger_takagi`."""
    if not avoid:
        return a, info
    real_valued = (not np.iscomplexobj(a)) or not np.any(a.imag)
    bc, ns = takagi_region(lam, not np.iscomplexobj(a), real_valued)
    if not (bc or ns):
        return a, info
    info = dict(info, excluded=BUCKET_BRANCH_CUT if bc else BUCKET_NULL_SPACE)
    other = a.real.astype(float) if bc else a.astype(complex)
    bc2, ns2 = takagi_region(lam, not np.iscomplexobj(other), True)
    if bc2 or ns2:  # neither dtype is outside both regions: rotate off the real axis
        other = a.astype(complex) * np.exp(0.7j)
    return other, info


def make_symmetric(case, avoid=True):
    """-> (matrix, info) with info = {degenerate, s (sorted singular values)}."""
    d, fam, seed = case["d"], case["fam"], case["seed"]
    if fam == "usut":
        u = make_unitary(d, case["ufam"], seed)
        s = spectrum_values(case["spec"], case.get("close", 0))
        a = (u * s) @ u.T
        a = (a + a.T) / 2
        deg = len(set(s.tolist())) < d or bool(np.any(s == 0)) or case["ufam"] != "haar"
        info = {"degenerate": deg, "s": np.sort(s)[::-1]}
        if avoid and real_columns_in_cluster(u, s):
            # a block of equal non-zero values whose singular vectors are real: Z = 1 there
            info["excluded"] = BUCKET_BRANCH_CUT
            if not np.any(a.imag) and int(np.sum(s == 0)) < 2:
                a = a.real.astype(float)  # the real Schur form keeps the root symmetric
            else:
                a = a * np.exp(0.7j)  # rotate the whole matrix off the real axis
        return a, info
    if fam == "real_sym":
        o = real_orthogonal(d, case["ufam"], seed)
        s = spectrum_values(case["spec"])
        lam = s * np.array(case["signs"], dtype=float)
        a = (o * lam) @ o.T
        a = (a + a.T) / 2
        a = a.astype(complex) if case["dtype"] == "complex" else a
        info = {"degenerate": True, "s": np.sort(s)[::-1]}
        if case["ufam"] in ("real", "block_real"):
            return steer_out_of_regions(a, lam, info, avoid)
        return a, info
    if fam == "graph":
        a = adjacency(d, case["kind"], seed)
        lam = np.linalg.eigvalsh(a)
        a = a.astype({"complex": complex, "float": float, "int": np.int64}[case["dtype"]])
        return steer_out_of_regions(a, lam, {"degenerate": True, "s": None}, avoid)
    if fam == "generic":
        rng = progs.rng_of(seed)
        b = rng.normal(size=(d, d)) + 1j * rng.normal(size=(d, d))
        return (b + b.T) / 2, {"degenerate": False, "s": None}
    if fam == "zero":
        return np.zeros((d, d), dtype=complex if case["dtype"] == "complex" else float), \
            {"degenerate": True, "s": np.zeros(d)}
    raise KeyError(fam)


BUCKET_BRANCH_CUT = "C15:takagi:reconstruction:branch-cut-at-phase-0"
BUCKET_NULL_SPACE = "C15:takagi:unitary:real-dtype-null-space"
BUCKET_TINY_ENTRY = "C15:clements:inverse:tiny-entry"


def diagnose_takagi(a):
    """Root-cause diagnostics used only to *name* the bucket of a failure (never to pass).

    Repeats the clustering of the code (SVD, isclose at atol=1e-12) and looks at the blocks
    Z = V_b^T W_b whose square root is taken:
      null_real   real dtype and a cluster of >= 2 zero singular values: Z is a real, non-
                  symmetric rotation, scipy's default *real* Schur form is not triangular;
      branch_cut  complex dtype and a cluster of >= 2 non-zero values whose Z has >= 2
                  eigenphases within 1e-6 of 0, where np.mod(angle, 2 pi) is discontinuous.
    """
    v, sv, wh = np.linalg.svd(a)
    w = wh.conj().T
    groups, vals = [], []
    for i, x in enumerate(sv):
        hit = [k for k, y in enumerate(vals) if np.isclose(x, y, atol=1e-12)]
        if hit:
            groups[hit[0]].append(i)
        else:
            vals.append(x)
            groups.append([i])
    scale = max(float(sv[0]) if len(sv) else 0.0, 1e-300)
    out = {"null_real": False, "branch_cut": False}
    for g, x in zip(groups, vals):
        if len(g) < 2:
            continue
        z = v[:, g].T @ w[:, g]
        if x <= 1e-9 * scale + 1e-12:
            out["null_real"] |= not np.iscomplexobj(a)
        else:
            ph = np.angle(np.linalg.eigvals(z))
            out["branch_cut"] |= bool(np.iscomplexobj(a) and np.sum(np.abs(ph) < 1e-6) >= 2)
    return out


def takagi_oracle(a, s, u, case, known_s=None, where="takagi"):
    """U unitary, s real >= 0, U diag(s) U^T = A for one (input, output) pair of takagi."""
    d = len(a)
    s, u = np.asarray(s), np.asarray(u)
    nrm = op_norm(a.astype(complex))
    # every factor is unitary (cond = 1) and the identity is homogeneous in A, so the bound
    # is relative to ||A|| (the design's 1e-9*(1+||A||) would accept 0.1 % errors at 1e-6)
    tol = TOL * nrm
    if s.shape != (d,) or u.shape != (d, d):
        raise Violation(f"C15:{where}:shape", f"{case}: shapes {s.shape}, {u.shape}")
    if np.iscomplexobj(s) and float(np.max(np.abs(s.imag), initial=0.0)) > 0:
        raise Violation(f"C15:{where}:values-real", f"{case}: complex singular values {s}")
    s = s.real
    if not np.all(np.isfinite(s)) or np.any(s < 0):
        raise Violation(f"C15:{where}:values-nonnegative", f"{case}: values {s}")
    e = dist(u.conj().T @ u, np.eye(d))
    if not e <= TOL * 2:
        diag = diagnose_takagi(a)
        bucket = BUCKET_NULL_SPACE if diag["null_real"] else f"C15:{where}:unitary"
        raise Violation(bucket, f"{case}: [{where}] ||U^dagger U - 1|| = {e:.3e} "
                        f"(dtype {a.dtype}, values {np.round(s, 9).tolist()})")
    e = dist((u * s) @ u.T, a.astype(complex))
    if not e <= tol:
        diag = diagnose_takagi(a)
        bucket = BUCKET_BRANCH_CUT if diag["branch_cut"] else f"C15:{where}:reconstruction"
        raise Violation(bucket, f"{case}: [{where}] ||U diag(s) U^T - A|| = {e:.3e} > "
                        f"{tol:.1e} (dtype {a.dtype}, values {np.round(s, 9).tolist()})")
    if known_s is not None:
        e = float(np.max(np.abs(np.sort(s)[::-1] - known_s), initial=0.0))
        if not e <= tol:
            raise Violation(f"C15:{where}:values", f"{case}: values {np.sort(s)[::-1].tolist()} differ "
                            f"from the constructed singular values {known_s.tolist()} by {e:.3e}")
    return s, u


def check_takagi(a, case, known_s=None, where="takagi"):
    """Oracle for one call of takagi(a): returns (s, U)."""
    ain = a.copy()
    s, u = call(f"C15:{where}", pdec.takagi, a, CONN)
    if not np.array_equal(a, ain):
        raise Violation(f"C15:{where}:input-mutated", f"{case}: takagi() modified its argument")
    return takagi_oracle(a, s, u, case, known_s, where)


def prop_takagi(case, ctx, avoid=True):
    a, info = make_symmetric(case, avoid)
    d = case["d"]
    if info.get("excluded"):
        ctx.exclude(info["excluded"])
    ctx.case(case, nontrivial=(d >= 2 and info["degenerate"]),
             classes=["takagi", f"takagi:{case['fam']}", f"d={d}",
                      f"takagi:dtype:{a.dtype}"] + (["degenerate"] if info["degenerate"] else []))
    check_takagi(a, case, info["s"])


def prop_takagi_trigger(case, ctx):
    prop_takagi(case, ctx, avoid=False)


@st.composite
def takagi_trigger_cases(draw):
    """The two confirmed trigger regions of takagi, probed directly (no avoidance)."""
    which = draw(st.sampled_from(["branch_cut", "null_space"]))
    d = draw(st.integers(2, 6)) if which == "branch_cut" else draw(st.integers(3, 6))
    unit = draw(st.sampled_from(UNITS))
    if which == "branch_cut":  # real PSD, repeated positive eigenvalue, complex dtype
        a, b = draw(st.integers(1, 6)), draw(st.integers(1, 6))
        levels = [a, a] + [draw(st.sampled_from([a, b])) for _ in range(d - 2)]
        signs, dtype = [1] * d, "complex"
    else:  # real dtype, >= 2 zero singular values
        levels = [0, 0] + [draw(st.integers(0, 6)) for _ in range(d - 2)]
        levels[-1] = max(levels[-1], 1)
        signs = draw(st.lists(st.sampled_from([1, -1]), min_size=d, max_size=d))
        dtype = "float"
    return {"d": d, "fam": "real_sym", "seed": draw(st.integers(0, 2**32)), "ufam": "real",
            "spec": {"unit": unit, "levels": levels}, "signs": signs, "dtype": dtype,
            "trigger": which}


# ======================================================================================
# Williamson (xxpp ordering: Omega = [[0, 1], [-1, 0]])


def passive_xxpp(u):
    return np.block([[u.real, -u.imag], [u.imag, u.real]])


def omega_xxpp(d):
    i, z = np.eye(d), np.zeros((d, d))
    return np.block([[z, i], [-i, z]])


R_POOL = [0.0, 0.0, 0.3, -0.3, 0.7, 1.2, -1.2]
R_STEP = 1e-3


@st.composite
def squeezings(draw, d, rmax=1.5):
    """Squeezing parameters on the grid R_STEP * integer: |r_i| either coincide bit for bit or
    differ by >= 1e-3 (the design's 'exact or >= 1e-6' rule for the singular values that
    takagi sees inside euler), zeros are exact."""
    n = int(round(rmax / R_STEP))
    grid = st.integers(-n, n).map(lambda k: k * R_STEP)
    style = draw(st.sampled_from(["free", "free", "all_equal", "zero", "pool", "plus_minus"]))
    if style == "zero":
        return [0.0] * d
    if style == "all_equal":
        return [draw(grid)] * d
    if style == "plus_minus":
        r = draw(grid)
        return [r * draw(st.sampled_from([1, -1])) for _ in range(d)]
    if style == "pool":
        return [draw(st.sampled_from([r for r in R_POOL if abs(r) <= rmax])) for _ in range(d)]
    return [draw(grid) for _ in range(d)]


@st.composite
def williamson_cases(draw, dmax=6):
    d = draw(st.sampled_from([k for k in (4, 3, 5, 2, 6, 1) if k <= dmax]))
    fam = draw(st.sampled_from(["sds", "sds", "sds", "mult_id", "diag", "near_singular",
                                "near_singular", "generic", "thermal"]))
    case = {"d": d, "fam": fam, "seed": draw(st.integers(0, 2**32))}
    if fam in ("sds", "near_singular", "thermal"):
        case["ufam"] = [draw(st.sampled_from(["haar", "haar", "real", "perm", "identity", "diag",
                                              "block"])) for _ in range(2)]
    if fam == "sds":
        case["r"] = draw(squeezings(d))
        case["spec"] = draw(spectrum(d, zero_ok=False))
    elif fam == "thermal":  # physical covariance: nu >= 1, hbar-like scale
        case["r"] = draw(squeezings(d))
        case["nu"] = [draw(st.sampled_from([1.0, 1.0, 1.5, 3.0])) for _ in range(d)]
    elif fam == "mult_id":
        case["c"] = draw(st.sampled_from([1e-6, 1e-3, 0.5, 1.0, 2.0, 2.5, 1e3]))
    elif fam == "diag":
        case["spec"] = draw(spectrum(2 * d, zero_ok=False))
    elif fam == "near_singular":
        # cond(M) = exp(4 max|r|) * max(nu)/min(nu) <= 1e8
        case["how"] = draw(st.sampled_from(["squeeze", "nu", "both"]))
        case["r"] = draw(squeezings(d, rmax=1.0))
        case["rbig"] = draw(st.sampled_from([2.0, 3.0, 4.0, 4.6]))
        case["numin"] = draw(st.sampled_from([1e-8, 1e-6, 1e-4]))
    return case


def make_pd(case):
    """-> (M, info) in xxpp ordering."""
    d, fam, seed = case["d"], case["fam"], case["seed"]
    rng = progs.rng_of(seed)
    if fam in ("sds", "near_singular", "thermal"):
        u1 = make_unitary(d, case["ufam"][0], _sub(rng))
        u2 = make_unitary(d, case["ufam"][1], _sub(rng))
        r = np.array(case["r"], dtype=float)
        if fam == "sds":
            nu = spectrum_values(case["spec"])
        elif fam == "thermal":
            nu = np.array(case["nu"], dtype=float)
        else:
            nu = np.ones(d)
            if case["how"] in ("squeeze", "both"):
                r = r.copy()
                r[0] = case["rbig"] if case["how"] == "squeeze" else case["rbig"] / 2
            if case["how"] == "nu":
                nu[-1] = case["numin"]
            elif case["how"] == "both":
                nu[-1] = max(case["numin"], 1e-4)
        s = passive_xxpp(u2) @ np.diag(np.concatenate([np.exp(-r), np.exp(r)])) @ passive_xxpp(u1)
        m = (s * np.concatenate([nu, nu])) @ s.T
        m = (m + m.T) / 2
        deg = (len(set(nu.tolist())) < d or fam == "near_singular" or bool(np.any(r == 0))
               or case["ufam"] != ["haar", "haar"] or len(set(np.abs(r).tolist())) < d)
        return m, {"degenerate": deg, "nu": np.sort(nu)}
    if fam == "mult_id":
        return case["c"] * np.eye(2 * d), {"degenerate": True, "nu": np.full(d, case["c"])}
    if fam == "diag":
        v = spectrum_values(case["spec"])
        return np.diag(v), {"degenerate": True, "nu": np.sort(np.sqrt(v[:d] * v[d:]))}
    if fam == "generic":
        b = rng.normal(size=(2 * d, 2 * d))
        return b @ b.T + 0.5 * np.eye(2 * d), {"degenerate": False, "nu": None}
    raise KeyError(fam)


def prop_williamson(case, ctx):
    d = case["d"]
    m, info = make_pd(case)
    ev = np.linalg.eigvalsh(m)
    nrm, cond = float(ev[-1]), float(ev[-1] / ev[0])
    ctx.case(case, nontrivial=(d >= 2 and (info["degenerate"] or cond >= 1e3)),
             classes=["williamson", f"williamson:{case['fam']}", f"d={d}",
                      f"williamson:cond:1e{int(math.log10(cond)) // 2 * 2}"]
             + (["degenerate"] if info["degenerate"] else []))
    tol = TOL * (1 + nrm) * cond
    min_ = m.copy()
    s, dm = call("C15:williamson", pdec.williamson, m, CONN)
    if not np.array_equal(m, min_):
        raise Violation("C15:williamson:input-mutated", f"{case}: williamson() modified its argument")
    s, dm = np.asarray(s), np.asarray(dm)
    if s.shape != (2 * d, 2 * d) or dm.shape != (2 * d, 2 * d):
        raise Violation("C15:williamson:shape", f"{case}: shapes {s.shape}, {dm.shape}")
    if np.iscomplexobj(s) and float(np.max(np.abs(s.imag))) > 0:
        raise Violation("C15:williamson:real", f"{case}: symplectic factor has imaginary part "
                        f"{float(np.max(np.abs(s.imag))):.3e}")
    if np.iscomplexobj(dm) and float(np.max(np.abs(dm.imag))) > 0:
        raise Violation("C15:williamson:real", f"{case}: D has an imaginary part")
    s, dm = s.real, dm.real
    if not (np.all(np.isfinite(s)) and np.all(np.isfinite(dm))):
        raise Violation("C15:williamson:finite", f"{case}: non-finite entries")
    dd = np.diag(dm)
    if float(np.max(np.abs(dm - np.diag(dd)), initial=0.0)) > 0:
        raise Violation("C15:williamson:diagonal", f"{case}: D is not diagonal")
    if np.any(dd <= 0):
        raise Violation("C15:williamson:positive", f"{case}: diagonal {dd.tolist()} (cond {cond:.2e})")
    # pairing D = diag(nu, nu): symplectic eigenvalues are eigenvalues of |i Omega M|, whose
    # perturbation bound is eps * ||M|| * cond(M)^(1/2) <= tol
    if float(np.max(np.abs(dd[:d] - dd[d:]))) > tol:
        raise Violation("C15:williamson:paired", f"{case}: D = {dd.tolist()} is not diag(nu, nu)")
    if info["nu"] is not None:
        e = float(np.max(np.abs(np.sort(dd[:d]) - info["nu"])))
        if not e <= tol:
            raise Violation("C15:williamson:values", f"{case}: symplectic eigenvalues "
                            f"{np.sort(dd[:d]).tolist()} vs constructed {info['nu'].tolist()}")
    om = omega_xxpp(d)
    # ||S||^2 <= ||M|| / nu_min; the symplectic condition is an identity between O(||S||^2) terms
    snorm2 = op_norm(s) ** 2
    e = dist(s @ om @ s.T, om)
    if not e <= TOL * (1 + snorm2) * cond:
        raise Violation("C15:williamson:symplectic", f"{case}: ||S Omega S^T - Omega|| = {e:.3e} "
                        f"(||S||^2 = {snorm2:.2e}, cond {cond:.2e})")
    e = dist((s * dd) @ s.T, m)
    if not e <= tol:
        raise Violation("C15:williamson:reconstruction", f"{case}: ||S D S^T - M|| = {e:.3e} > {tol:.1e}"
                        f" (cond {cond:.2e})")


# ======================================================================================
# Euler / GaussianTransform


@st.composite
def symplectic_cases(draw, dmax=6):
    d = draw(st.sampled_from([k for k in (4, 3, 5, 2, 6, 1) if k <= dmax]))
    fam = draw(st.sampled_from(["single", "single", "single", "product", "passive", "pure_squeeze",
                                "real_sym"]))
    case = {"d": d, "fam": fam, "seed": draw(st.integers(0, 2**32))}
    ufams = ["haar", "haar", "haar", "real", "perm", "identity", "diag", "block"]
    case["ufam"] = [draw(st.sampled_from(ufams)) for _ in range(2)]
    rmax = draw(st.sampled_from([0.6, 1.5, 1.5, 3.0]))
    if fam != "passive":
        case["r"] = draw(squeezings(d, rmax))
    if fam == "product":
        case["r2"] = draw(squeezings(d, min(rmax, 1.5)))
    # where GaussianTransform is executed
    case["extra"] = draw(st.integers(0, 2))
    case["hbar"] = draw(st.sampled_from([2.0, 2.0, 1.0, 0.7]))
    return case


def bm_blocks(u2, r, u1):
    r = np.asarray(r, dtype=float)
    return (u2 * np.cosh(r)) @ u1, (u2 * np.sinh(r)) @ u1.conj()


def compose(pa1, pa2):
    """Blocks of S1 @ S2 for S = [[P, A], [conj A, conj P]]."""
    (p1, a1), (p2, a2) = pa1, pa2
    return p1 @ p2 + a1 @ a2.conj(), p1 @ a2 + a1 @ p2.conj()


def make_symplectic(case, avoid=True):
    d, fam, seed = case["d"], case["fam"], case["seed"]
    rng = progs.rng_of(seed)
    u1 = make_unitary(d, case["ufam"][0], _sub(rng))
    u2 = make_unitary(d, case["ufam"][1], _sub(rng))
    structured = case["ufam"] != ["haar", "haar"]
    if fam == "passive":
        return (u2 @ u1, np.zeros((d, d), dtype=complex)), {"degenerate": True, "rmax": 0.0, "r": np.zeros(d)}
    r = np.array(case["r"], dtype=float)
    deg = structured or len(set(np.abs(r).tolist())) < d or bool(np.any(r == 0))
    excluded = None
    if avoid and (fam in ("real_sym", "pure_squeeze")
                  or (fam == "single" and real_columns_in_cluster(u2, -r))):
        # euler() hands Z = -U2 diag(r) U2^T (+ round-off of polar/logm) to takagi: real,
        # positive semi-definite with a repeated eigenvalue when U2 is real-valued and two
        # negative r coincide -> the confirmed branch-cut region; flip the sign by
        # construction (the region is probed in `trigger_euler`)
        if takagi_region(-r, False, True)[0]:
            r, excluded = np.abs(r), BUCKET_BRANCH_CUT
    if fam == "single":
        return bm_blocks(u2, r, u1), {"degenerate": deg, "rmax": float(np.max(np.abs(r))), "r": r,
                                      "excluded": excluded}
    if fam == "pure_squeeze":
        return bm_blocks(np.eye(d), r, np.eye(d)), {"degenerate": True, "rmax": float(np.max(np.abs(r))), "r": r,
                                                    "excluded": excluded}
    if fam == "real_sym":  # exp of a real symmetric squeezing generator: P, A real symmetric
        o = real_orthogonal(d, "real", _sub(rng))
        return bm_blocks(o.astype(complex), r, o.T.astype(complex)), \
            {"degenerate": True, "rmax": float(np.max(np.abs(r))), "r": r, "excluded": excluded}
    if fam == "product":
        r2 = np.array(case["r2"], dtype=float)
        u3 = make_unitary(d, "haar", _sub(rng))
        pa = compose(bm_blocks(u2, r, u1), bm_blocks(u3, r2, np.eye(d, dtype=complex)))
        return pa, {"degenerate": deg, "rmax": float(np.max(np.abs(r)) + np.max(np.abs(r2))), "r": None}
    raise KeyError(fam)


def full_c(p, a):
    return np.block([[p, a], [a.conj(), p.conj()]])


class Recorder:
    """Observe the takagi call that euler() makes (module global, replaced for one call)."""

    def __init__(self):
        self.calls = []
        self.orig = pdec.takagi

    def __enter__(self):
        def spy(matrix, connector, *a, **k):
            out = self.orig(matrix, connector, *a, **k)
            self.calls.append((np.array(matrix), out))
            return out
        pdec.takagi = spy
        return self

    def __exit__(self, *exc):
        pdec.takagi = self.orig
        return False


def prop_euler_trigger(case, ctx):
    prop_euler(case, ctx, avoid=False)


@st.composite
def euler_trigger_cases(draw):
    """Real mixing + equal squeezings of the Squeezing-gate sign: Z handed to takagi is real PSD
    with a repeated eigenvalue (the branch-cut region)."""
    d = draw(st.integers(2, 4))
    r = -draw(st.sampled_from([0.1, 0.5, 1.0]))
    return {"d": d, "fam": draw(st.sampled_from(["single", "real_sym"])),
            "seed": draw(st.integers(0, 2**32)),
            "ufam": [draw(st.sampled_from(["haar", "real", "identity"])),
                     draw(st.sampled_from(["real", "real", "identity", "perm"]))],
            "r": [r] * d, "extra": 0, "hbar": 2.0, "trigger": "branch_cut"}


def prop_euler(case, ctx, avoid=True):
    d = case["d"]
    (p, a), info = make_symplectic(case, avoid)
    if info.get("excluded"):
        ctx.exclude(info["excluded"])
    s = full_c(p, a)
    snorm = op_norm(s)
    cond = snorm ** 2  # singular values of a symplectic matrix come in pairs (x, 1/x)
    ctx.case(case, nontrivial=(d >= 2 and (info["degenerate"] or cond >= 1e3)),
             classes=["euler", f"euler:{case['fam']}", f"d={d}"]
             + (["degenerate"] if info["degenerate"] else []))
    tol = TOL * (1 + snorm) * cond
    sin = s.copy()
    with Recorder() as rec:
        u, dd, v = call("C15:euler", pdec.euler, s, CONN)
    if not np.array_equal(s, sin):
        raise Violation("C15:euler:input-mutated", f"{case}: euler() modified its argument")
    # the Takagi step inside euler() must itself satisfy the Takagi identity on what it is given
    for z, (zs, zu) in rec.calls:
        if op_norm(z) > 1e-9 * (1 + math.log(snorm)):  # numerically zero generator: nothing to say
            takagi_oracle(z, zs, zu, case, None, where="takagi")
    u, dd, v = np.asarray(u), np.asarray(dd), np.asarray(v)
    if u.shape != (d, d) or v.shape != (d, d) or dd.shape != (d,):
        raise Violation("C15:euler:shape", f"{case}: shapes {u.shape} {dd.shape} {v.shape}")
    if np.iscomplexobj(dd) and float(np.max(np.abs(dd.imag), initial=0.0)) > 0:
        raise Violation("C15:euler:squeezings-real", f"{case}: squeezings {dd}")
    dd = dd.real
    if not np.all(np.isfinite(dd)) or np.any(dd < 0):
        raise Violation("C15:euler:squeezings-nonnegative", f"{case}: squeezings {dd}")
    for name, w in (("last", u), ("first", v)):
        e = dist(w.conj().T @ w, np.eye(d))
        if not e <= TOL * 2 * cond:
            raise Violation(f"C15:euler:unitary:{name}", f"{case}: ||W^dagger W - 1|| = {e:.3e} for "
                            f"the {name} unitary (squeezings {np.round(dd, 9).tolist()})")
    if info["r"] is not None:
        e = float(np.max(np.abs(np.sort(dd) - np.sort(np.abs(info["r"]))), initial=0.0))
        if not e <= tol:
            raise Violation("C15:euler:values", f"{case}: squeezings {np.sort(dd).tolist()} vs "
                            f"constructed {np.sort(np.abs(info['r'])).tolist()}")
    e = dist((u * np.cosh(dd)) @ v, p)
    if not e <= tol:
        raise Violation("C15:euler:passive-block", f"{case}: ||U cosh(D) V - P|| = {e:.3e} > {tol:.1e} "
                        f"(squeezings {np.round(dd, 9).tolist()})")
    e = dist(-(u * np.sinh(dd)) @ v.conj(), a)
    if not e <= tol:
        raise Violation("C15:euler:active-block", f"{case}: ||-U sinh(D) conj(V) - A|| = {e:.3e} > "
                        f"{tol:.1e} (squeezings {np.round(dd, 9).tolist()})")
    gaussian_transform_on_gaussian(case, p, a, snorm)
    if d <= 3 and info["rmax"] <= 1.5:
        gaussian_transform_on_purefock(case, p, a, cond)


def gaussian_transform_on_gaussian(case, p, a, snorm):
    """GaussianTransform on selected modes of a displaced, pre-squeezed state vs the congruence."""
    d, hbar = case["d"], case["hbar"]
    rng = progs.rng_of(case["seed"] ^ 0x5EED)
    n = d + case["extra"]
    modes = [int(x) for x in rng.permutation(n)[:d]]
    p0, a0 = progs.gaussian_transform_blocks(n, _sub(rng), 0.5)
    alpha = rng.normal(size=n) + 1j * rng.normal(size=n)
    with pq.Program() as prog:
        pq.Q() | pq.Vacuum()
        pq.Q(*range(n)) | pq.GaussianTransform(passive=p0, active=a0)
        for k in range(n):
            pq.Q(k) | pq.Displacement(r=float(abs(alpha[k])), phi=float(np.angle(alpha[k])))
        pq.Q(*modes) | pq.GaussianTransform(passive=p.copy(), active=a.copy())
    state = call("C15:gaussiantransform:gaussian", lambda: pq.GaussianSimulator(
        d=n, config=pq.Config(hbar=hbar)).execute(prog).state)
    pe, ae = np.eye(n, dtype=complex), np.zeros((n, n), dtype=complex)
    pe[np.ix_(modes, modes)] = p
    ae[np.ix_(modes, modes)] = a
    stot = full_c(pe, ae) @ full_c(p0, a0)
    sigma = stot @ stot.conj().T
    mu = pe @ alpha + ae @ alpha.conj()
    scale = 1 + op_norm(sigma)
    e = dist(state.complex_covariance, sigma)
    if not e <= TOL * scale:
        raise Violation("C15:gaussiantransform:gaussian:covariance", f"{case}: complex covariance "
                        f"differs from S sigma S^dagger by {e:.3e} (modes {modes})")
    e = dist(state.complex_displacement, np.concatenate([mu, mu.conj()]))
    if not e <= TOL * (1 + snorm * float(np.linalg.norm(alpha))):
        raise Violation("C15:gaussiantransform:gaussian:mean", f"{case}: complex displacement differs "
                        f"from P mu + A conj(mu) by {e:.3e} (modes {modes})")
    # the real (xxpp) covariance: sigma_xxpp = hbar W^dagger sigma_c W
    i = np.eye(n)
    w = np.block([[i, 1j * i], [i, -1j * i]]) / math.sqrt(2)
    sx = hbar * (w.conj().T @ sigma @ w)
    e = dist(state.xxpp_covariance_matrix, sx.real)
    if not e <= TOL * scale * hbar or float(np.max(np.abs(sx.imag))) > TOL * scale * hbar:
        raise Violation("C15:gaussiantransform:gaussian:xxpp", f"{case}: xxpp covariance differs from "
                        f"the real congruence by {e:.3e}")


def gaussian_transform_on_purefock(case, p, a, cond):
    """PureFockSimulator applies GaussianTransform through euler(): V, Squeezing(D_i), U.

    With cutoff 3 the amplitudes of total photon number <= 2 are exact (single-mode squeezers
    only raise the photon number of their own mode, so truncated components never return):
        S|0>   = N exp(a^dagger B a^dagger / 2)|0>,  B = (P^dagger)^-1 A^T,  |N| = |det P|^-1/2
        S|1_k> = sum_j N ((P^dagger)^-1)_jk |1_j> + (three-photon terms).
    """
    d = case["d"]
    tol = TOL * (1 + cond) * cond
    pinv_h = np.linalg.inv(p.conj().T)
    b = pinv_h @ a.T
    absn = abs(np.linalg.det(p)) ** -0.5
    cfg = dict(cutoff=3)

    def run(occ):
        with pq.Program() as prog:
            pq.Q() | pq.NumberState(occ)
            pq.Q(*range(d)) | pq.GaussianTransform(passive=p.copy(), active=a.copy())
        return np.asarray(call("C15:gaussiantransform:purefock", lambda: pq.PureFockSimulator(
            d=d, config=pq.Config(**cfg)).execute(prog).state.state_vector))

    basis = progs.basis_tuples(pq, d, 3)
    sv = run([0] * d)
    n0 = sv[0]
    if not abs(abs(n0) - absn) <= tol:
        raise Violation("C15:gaussiantransform:purefock:vacuum", f"{case}: |<0|S|0>| = {abs(n0):.12g}, "
                        f"expected |det P|^-1/2 = {absn:.12g}")
    want = np.zeros(len(basis), dtype=complex)
    want[0] = n0
    for idx, occ in enumerate(basis):
        if sum(occ) == 2:
            nz = [k for k, o in enumerate(occ) for _ in range(o)]
            want[idx] = n0 * b[nz[0], nz[1]] * (1 / math.sqrt(2) if nz[0] == nz[1] else 1.0)
    e = float(np.max(np.abs(sv - want)))
    if not e <= tol:
        raise Violation("C15:gaussiantransform:purefock:two-photon", f"{case}: amplitudes of S|0> "
                        f"differ from N exp(a^dag B a^dag/2)|0> by {e:.3e}")
    for k in range(d):
        occ = [0] * d
        occ[k] = 1
        sv = run(occ)
        e = float(np.max(np.abs(sv[1:d + 1] - n0 * pinv_h[:, k])))
        if not e <= tol:
            raise Violation("C15:gaussiantransform:purefock:one-photon", f"{case}: one-photon "
                            f"amplitudes of S|1_{k}> differ from N (P^dagger)^-1 e_k by {e:.3e}")


# ======================================================================================
# Graph gate


@st.composite
def graph_cases(draw, dmax=6):
    d = draw(st.sampled_from([k for k in (4, 3, 5, 2, 6, 1) if k <= dmax]))
    fam = draw(st.sampled_from(["graph", "graph", "graph", "weighted"]))
    case = {"d": d, "fam": fam, "seed": draw(st.integers(0, 2**32))}
    if fam == "graph":
        case["kind"] = draw(st.sampled_from(GRAPH_KINDS))
        case["dtype"] = draw(st.sampled_from(["float", "float", "int", "complex"]))
    else:
        case["fam"] = "usut"
        case["ufam"] = draw(st.sampled_from(["haar", "haar", "real", "perm", "identity", "block"]))
        case["spec"] = draw(spectrum(d))
        case["close"] = 0
        case["weighted"] = True
    case["nbar"] = draw(st.one_of(st.sampled_from([0.01, 0.5, 1.0, 2.0]),
                                  st.floats(0.01, 4.0, allow_nan=False)))
    case["extra"] = draw(st.integers(0, 1))
    return case


def prop_graph(case, ctx):
    d, nbar = case["d"], case["nbar"]
    a, info = make_symmetric(case)
    if info.get("excluded"):
        ctx.exclude(info["excluded"])
    anorm = op_norm(a.astype(complex))
    if anorm == 0:
        # no edge at all: no scaling reaches a positive mean photon number (not in the property)
        if case["fam"] == "graph":
            a = a.copy()
            a[0, 0] = 1  # a single self-loop keeps the case inside the domain
        else:
            a = a + np.eye(d)
        anorm = op_norm(a.astype(complex))
    ctx.case(case, nontrivial=(d >= 2), classes=["graph", f"graph:{case.get('kind', 'weighted')}",
                                                 f"d={d}", "degenerate"])
    # the gate is built on takagi(A): same oracle, reported under the takagi buckets
    check_takagi(a, case, None)
    rng = progs.rng_of(case["seed"] ^ 0x6A)
    n = d + case["extra"]
    modes = sorted(int(x) for x in rng.permutation(n)[:d])
    with pq.Program() as prog:
        pq.Q() | pq.Vacuum()
        pq.Q(*modes) | pq.Graph(a.copy(), mean_photon_number=nbar)
    state = call("C15:graph", lambda: pq.GaussianSimulator(d=n).execute(prog).state)
    got = float(state.mean_photon_number(tuple(modes))) / d
    if not abs(got - nbar) <= 1e-6 * (1 + nbar):
        raise Violation("C15:graph:mean-photon-number", f"{case}: mean photon number per mode "
                        f"{got!r}, requested {nbar!r}")
    total = float(state.mean_photon_number())
    if not abs(total - got * d) <= 1e-9 * (1 + total):
        raise Violation("C15:graph:other-modes-touched", f"{case}: photons outside the gate's modes")
    red = state.reduced(tuple(modes))
    c, g = np.asarray(red._C), np.asarray(red._G)
    bmat = g @ np.linalg.inv(np.eye(d) + c)  # a|psi> = B a^dag|psi>  =>  G = B (1 + C)
    ac = a.astype(complex)
    coef = np.vdot(ac, bmat) / np.vdot(ac, ac)
    # |B| < 1; (1 + C) has norm 1 + d*nbar at most, which bounds the error amplification
    tolb = TOL * (1 + d * nbar)
    e = dist(bmat, coef * ac)
    if not e <= tolb:
        raise Violation("C15:graph:proportional", f"{case}: B-matrix of the state is not "
                        f"proportional to the adjacency matrix (residual {e:.3e}, factor {coef})")
    if not (abs(coef.imag) <= tolb and coef.real > 0):
        raise Violation("C15:graph:factor", f"{case}: proportionality factor {coef} is not a "
                        f"positive real number")


# ======================================================================================


def parts(tier):
    ps = _parts(tier)
    if os.environ.get("C15_NO_TRIGGER_PARTS"):
        # sensitivity runs made before the three findings are registered in
        # known_findings.json: drop the parts that fail on the unchanged tree so that the
        # exit code of a mutant run reflects the mutant alone
        ps = [p for p in ps if not p.name.startswith("trigger_")]
    return ps


BUDGET = {"quick": 300, "thorough": 3000}  # upper bound only; a quick run needs ~10 s per part


def _parts(tier):
    return [
        Part("clements", prop_clements, strategy=unitary_cases(),
             examples={"quick": 900, "thorough": 30000}, budget_s=BUDGET),
        Part("takagi", prop_takagi, strategy=symmetric_cases(),
             examples={"quick": 800, "thorough": 30000}, budget_s=BUDGET),
        Part("williamson", prop_williamson, strategy=williamson_cases(),
             examples={"quick": 500, "thorough": 15000}, budget_s=BUDGET),
        Part("euler", prop_euler, strategy=symplectic_cases(),
             examples={"quick": 500, "thorough": 15000}, budget_s=BUDGET),
        Part("graph", prop_graph, strategy=graph_cases(),
             examples={"quick": 300, "thorough": 10000}, budget_s=BUDGET),
        # trigger regions of confirmed findings, kept out of the parts above by construction
        Part("trigger_takagi", prop_takagi_trigger, strategy=takagi_trigger_cases(),
             examples={"quick": 64, "thorough": 2000}, budget_s=BUDGET),
        Part("trigger_euler", prop_euler_trigger, strategy=euler_trigger_cases(),
             examples={"quick": 32, "thorough": 1000}, budget_s=BUDGET),
        Part("trigger_clements", prop_clements, strategy=clements_trigger_cases(),
             examples={"quick": 32, "thorough": 1000}, budget_s=BUDGET),
    ]
