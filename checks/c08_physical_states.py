"""C08 — every reachable state is a physical quantum state.

Stateful search per simulator (Gaussian "G", pure Fock "PF", Fock "F", passive "P",
fermionic Gaussian "FG", fermionic pure Fock "FPF"), realised as generated operation
sequences (JSON step lists).  Every prefix of a sequence is re-executed on the real
simulator (`upto = 1..len(steps)`), and after EVERY instruction the harness computes the
physicality invariant of every branch state itself (from the public getters), compares
consecutive prefixes (norm / trace conservation) and finally asks `state.validate()`.

Parts
  G, PF, F, P, FG, FPF      the searches
  validator                 GaussianState.validate() against the harness invariant on
                            physical / slightly unphysical covariance matrices
  dgc_validity              DeterministicGaussianChannel: documented validity condition
                            (Y + i Omega >= i X Omega X^T) against what is accepted
  pf_gate_after_attenuator  known region: any gate after Attenuator on the pure Fock simulator
  p_lossy                   known regions of the passive simulator around lossy states
"""

from __future__ import annotations

import math
import os
import random as pyrandom
import warnings

import numpy as np
from hypothesis import strategies as st

from lib import aprogs, bootstrap, progs
from lib import gaussian_gen as gg
from lib.harness import Part, Violation

pq = bootstrap.load()

from piquasso.api.exceptions import (  # noqa: E402
    InvalidParameter, InvalidState, NotImplementedCalculation, PiquassoException)

PID = "C08"
LEVEL = "exploration"
SHARDS = {"quick": 16, "thorough": 16}
RULE = (
    "operation sequences: Hypothesis-generated step lists (1..8 steps) per simulator; every "
    "prefix is executed and the invariant evaluated on every branch state after every "
    "instruction. Steps: gates on random ordered subsets of the still-active modes "
    "(passive, Kerr-type, SNAP, cubic phase, squeezing/displacement/Gaussian transforms), "
    "channels (Attenuator with nbar>=0 on G and nbar=0 on F/PF, DeterministicGaussianChannel "
    "with (X,Y) valid by construction, Loss/UniformLoss/LossyInterferometer on P), "
    "measurements (shots=None where supported, else 2 seeded shots; homo-/hetero-/general-"
    "dyne mid-circuit on G, particle number on PF/P/FPF, final on F/G/FG) and "
    "PostSelectPhotons. Inputs: vacuum / number / superposition / mixture / Gaussian states "
    "physical by construction (Mean+Covariance) / fermionic occupation, superposition, "
    "thermal ParentHamiltonian. hbar in {0.5,1,2,3.7}, cutoff 1..8, d<=4. Non-trivial = >=3 "
    "instructions including a multi-mode gate; distinct by hash of the description."
)
ASSUMPTIONS = [
    "trusted base: numpy eigvalsh/det/svd on matrices read from the public getters "
    "(xpxp/xxpp_covariance_matrix, density_matrix, state_vector, fock_probabilities, "
    "correlation_matrix, covariance_matrix)",
    "Omega is built by the harness for each ordering (xpxp: direct sum of [[0,1],[-1,0]]; "
    "xxpp: [[0,1],[-1,0]] (x) 1); the uncertainty relation is sigma/hbar + i Omega >= "
    "-1e-9 (1 + ||sigma/hbar||_2)",
    "truncated Fock simulators: the norm / trace may only decrease under active gates "
    "(truncated blocks of unitaries are contractions: slack 1e-9), is preserved to 1e-10 by "
    "number-conserving gates (passive, Kerr, CrossKerr, SNAP) and by Attenuator, and "
    "post-measurement states are normalised to 1e-9; post-selected states are unnormalised "
    "by design (norm = success probability), branches of weight < 1e-9 are not examined",
    "is_pure is np.isclose(purity, 1) in the library (rtol 1e-5): the harness requires "
    "is_pure whenever its own purity (product of inverse symplectic eigenvalues) is within "
    "1e-8 of 1 and forbids it when it is below 1 - 1e-4",
    "fermionic Gaussian probabilities are sqrt(det): entries >= -1e-7 accepted (rounding "
    "1e-14 of the determinant), sums to 1e-6",
    "a valid DeterministicGaussianChannel is one that satisfies the DOCUMENTED inequality; "
    "in the search (X,Y) additionally satisfy the (different) inequality that the code "
    "enforces, the difference is probed in part dgc_validity",
    "validate() is only required to pass on states whose norm/trace is within 1e-9 of 1 "
    "(it legitimately reports truncation losses)",
]
# measured on a quiet full quick run: 0.5 / 0.10 / 0.06 of all evaluations
FLOORS = {"channel_or_measurement": 0.25,
          "G_complex_active_gate_on_correlated_subset": 0.04,
          "attenuator_on_coherence_between_nonzero_numbers": 0.03}

HBARS = [0.5, 1.0, 2.0, 3.7]
P_LO, P_HI = -1e-12, 1 + 1e-9

CONSERVING = set(progs.PASSIVE + progs.KERR + ["SNAP"])
CHANNELS = {"Attenuator", "DeterministicGaussianChannel", "Loss", "UniformLoss",
            "LossyInterferometer"}
MULTI = {"Beamsplitter", "Beamsplitter5050", "MachZehnder", "CrossKerr", "Squeezing2",
         "ControlledX", "ControlledZ", "IsingXX", "ControlledPhase"}

B_PF_ATT = "C08:PF:gate-after-attenuator"
B_DGC_REFUSED = "C08:G:dgc:valid-channel-refused"
B_DGC_ACCEPTED = "C08:G:dgc:invalid-channel-accepted"
B_P_VALIDATE_LOSSY = "C08:P:validate-disagrees:lossy-state"
B_P_TABLE_TOTAL = "C08:P:lossy-nonuniform:table-total"
B_P_LOSSY_POSTSEL = "C08:P:lossy+postselected:fock_probabilities:raises"
B_F_VALIDATE = "C08:F:validate-disagrees:negative-rounding-on-diagonal"
B_FPF_SMALL = "C08:FPF:cutoff<=d:raises"
B_P_PS_SUPER = "C08:P:postselect:superposition-of-unequal-particle-numbers:state_vector"


# ------------------------------------------------------------------ matrices from seeds

def omega_xpxp(k):
    o = np.zeros((2 * k, 2 * k))
    for j in range(k):
        o[2 * j, 2 * j + 1] = 1.0
        o[2 * j + 1, 2 * j] = -1.0
    return o


def abs_of_i_antisym(a):
    """|iA| for a real antisymmetric A: sqrt(A A^T), real symmetric."""
    w, v = np.linalg.eigh(a @ a.T)
    return (v * np.sqrt(np.clip(w, 0, None))) @ v.T


def dgc_x(k, p):
    rng = progs.rng_of(p["seed"])
    style = p["style"]
    n = 2 * k
    if style == "zero":
        return np.zeros((n, n))
    if style == "rotation":
        c = float(p.get("c", 0.7))
        blocks = np.zeros((n, n))
        for j in range(k):
            phi = rng.uniform(0, 2 * np.pi)
            blocks[2 * j:2 * j + 2, 2 * j:2 * j + 2] = c * np.array(
                [[np.cos(phi), -np.sin(phi)], [np.sin(phi), np.cos(phi)]])
        return blocks
    if style == "conjugation":
        c = float(p.get("c", 0.7))
        return c * np.diag([1.0, -1.0] * k)
    if style == "symplectic":
        passive, active = progs.gaussian_transform_blocks(k, int(rng.integers(2 ** 60)), 0.5)
        return gg.mat_to_xpxp(gg.complex_to_real_xxpp(passive, active))
    return rng.normal(size=(n, n)) * float(p.get("c", 0.7))  # generic


def dgc_matrices(k, p, both=True):
    """(X, Y) with Y >= i(X Om X^T - Om)  [documented: Y + i Om >= i X Om X^T] and, when
    `both`, also Y >= i(X Om X^T + Om) [what the code enforces]; tight when noise == 0."""
    x = dgc_x(k, p)
    om = omega_xpxp(k)
    a1 = x @ om @ x.T - om
    a2 = x @ om @ x.T + om
    y = abs_of_i_antisym(a1)
    if both:
        t = float(np.linalg.eigvalsh(1j * a2 - y).max())
        if t > 0:
            y = y + t * np.eye(2 * k)
    noise = float(p.get("noise", 0.0))
    if noise:
        b = progs.rng_of(p["seed"] + 17).normal(size=(2 * k, 2 * k))
        y = y + noise * (b @ b.T)
    return x, (y + y.T) / 2


def lossy_matrix(k, p):
    rng = progs.rng_of(p["seed"])
    u = progs.haar_unitary(k, int(rng.integers(2 ** 60)))
    v = progs.haar_unitary(k, int(rng.integers(2 ** 60)))
    s = rng.uniform(float(p.get("smin", 0.0)), 1.0, k)
    if p.get("one"):
        s[0] = 1.0
    return v @ np.diag(s) @ u


def quadratic_hamiltonian(k, seed, scale, passive=False):
    rng = progs.rng_of(seed)
    a = rng.normal(size=(k, k)) + 1j * rng.normal(size=(k, k))
    a = (a + a.conj().T) / 2 * scale
    b = rng.normal(size=(k, k)) + 1j * rng.normal(size=(k, k))
    b = (b - b.T) / 2 * (0.0 if passive else scale)
    return np.block([[-a.conj(), b], [-b.conj(), a]])


# ------------------------------------------------------------------ building programs

def make_inst(desc, step):
    if step["k"] == "gate":
        g, k, p = step["g"], len(step["modes"]), step["p"]
        if g == "DeterministicGaussianChannel":
            x, y = dgc_matrices(k, p)
            return pq.DeterministicGaussianChannel(X=x, Y=y)
        if g == "LossyInterferometer":
            return pq.LossyInterferometer(lossy_matrix(k, p))
        if g == "GaussianHamiltonian":
            return pq.fermionic.GaussianHamiltonian(
                quadratic_hamiltonian(k, p["seed"], p["scale"], p.get("passive", False)))
        if g == "IsingXX":
            return pq.fermionic.IsingXX(phi=p["phi"])
        if g == "ControlledPhase":
            return pq.fermionic.ControlledPhase(phi=p["phi"])
        return progs.make_gate(pq, step, desc["cutoff"])
    if step["k"] == "measure" and step["m"] == "GeneraldyneMeasurement" \
            and step["p"].get("pure"):
        # pure (rank-one) detection: rotated squeezed vacuum, det = 1
        rng = progs.rng_of(step["p"]["seed"])
        r, phi = rng.uniform(-0.8, 0.8), rng.uniform(0, np.pi)
        rot = np.array([[np.cos(phi), -np.sin(phi)], [np.sin(phi), np.cos(phi)]])
        return pq.GeneraldyneMeasurement(
            detection_covariance=rot @ np.diag([np.exp(-2 * r), np.exp(2 * r)]) @ rot.T)
    return aprogs.make_step(pq, step, desc["cutoff"])


def pure_detection(step):
    """Homodyne / heterodyne / general-dyne with det(detection covariance) = 1 project on
    pure states: the conditional state of a pure state is pure."""
    return step["k"] == "measure" and (
        step["m"] in ("HomodyneMeasurement", "HeterodyneMeasurement")
        or (step["m"] == "GeneraldyneMeasurement" and bool(step["p"].get("pure"))))


def add_prep(desc):
    sim, prep, d = desc["sim"], desc["prep"], desc["d"]
    kind = prep["kind"]
    if sim == "G" and kind == "gaussian":
        mu0, s0 = gg.dimensionless(prep["g"])
        pq.Q() | pq.Vacuum()
        pq.Q() | pq.Covariance(gg.mat_to_xpxp(s0))
        pq.Q() | pq.Mean(gg.vec_to_xpxp(mu0))
        return
    if sim == "G" and kind == "thermal":
        pq.Q() | pq.Thermal(list(prep["nbar"]))
        return
    if sim == "F" and kind == "mixture":
        pq.Q() | pq.Vacuum()
        occs = [tuple(o) for o in prep["occs"]]
        if (0,) * d not in occs:
            pq.Q() | pq.DensityMatrix(ket=(0,) * d, bra=(0,) * d, coefficient=0.0)
        ws = [prep["w"], 1.0 - prep["w"]]
        for o, w in zip(occs, ws):
            pq.Q() | pq.DensityMatrix(ket=o, bra=o, coefficient=w)
        return
    if sim in ("FG", "FPF"):
        if kind == "number":
            pq.Q() | pq.NumberState(list(prep["occ"]))
        elif kind == "super":
            pq.Q() | pq.FockStateVector(
                {tuple(o): complex(a[0], a[1]) for o, a in prep["terms"]})
        else:
            pq.Q() | pq.fermionic.ParentHamiltonian(
                quadratic_hamiltonian(d, prep["seed"], prep["scale"]))
        return
    progs.add_prep(pq, sim, prep, d)


def simulator(desc):
    sim, d = desc["sim"], desc["d"]
    cfg = dict(hbar=desc["hbar"], seed_sequence=desc.get("seed", 1))
    if sim == "FG":
        return pq.fermionic.GaussianSimulator(d=d, config=pq.Config(**cfg))
    cfg["cutoff"] = desc["cutoff"]
    if sim == "FPF":
        return pq.fermionic.PureFockSimulator(d=d, config=pq.Config(**cfg))
    cls = {"G": pq.GaussianSimulator, "PF": pq.PureFockSimulator, "F": pq.FockSimulator,
           "P": pq.PassiveSimulator}[sim]
    return cls(d=d, config=pq.Config(**cfg))


NEEDS_SHOTS = {"G": {"HomodyneMeasurement", "HeterodyneMeasurement", "GeneraldyneMeasurement",
                     "ParticleNumberMeasurement", "ThresholdMeasurement"},
               "FG": {"ParticleNumberMeasurement"},
               "PF": {"HomodyneMeasurement"}, "F": set(), "P": set(), "FPF": set()}


def shots_for(desc, upto):
    ms = [s["m"] for s in desc["steps"][:upto] if s["k"] == "measure"]
    if any(m in NEEDS_SHOTS[desc["sim"]] for m in ms):
        return int(desc.get("shots", 2))
    if ms or any(s["k"] == "postselect" for s in desc["steps"][:upto]):
        return None
    return 1


def execute(desc, upto):
    with warnings.catch_warnings():
        warnings.simplefilter("ignore")
        sim = simulator(desc)
        with pq.Program() as program:
            add_prep(desc)
            for s in desc["steps"][:upto]:
                pq.Q(*s["modes"]) | make_inst(desc, s)
        pyrandom.seed(desc.get("seed", 1))
        return sim.execute(program, shots=shots_for(desc, upto))


# ------------------------------------------------------------------ invariants

def fl(x):
    return float(np.real(x))


def check_prob_array(tag, what, arr, lo=P_LO, hi=P_HI):
    a = np.asarray(arr)
    if a.size == 0:
        return a.real.astype(float)
    if not np.all(np.isfinite(a)):
        raise Violation(f"C08:{tag}:{what}:not-finite", f"{what} contains nan/inf")
    if np.iscomplexobj(a) and float(np.abs(a.imag).max()) > 1e-12:
        raise Violation(f"C08:{tag}:{what}:complex",
                        f"{what} has imaginary part {float(np.abs(a.imag).max()):.3e}")
    r = np.real(a).astype(float)
    if r.min() < lo or r.max() > hi:
        raise Violation(f"C08:{tag}:{what}:range",
                        f"{what} has entries in [{r.min()!r}, {r.max()!r}] outside [0, 1]")
    return r


def try_validate(tag, state, why=""):
    try:
        state.validate()
    except InvalidState as e:
        raise Violation(f"C08:{tag}:validate-disagrees",
                        f"the harness invariant holds{why} but state.validate() raises "
                        f"InvalidState: {str(e)[:200]}")


def inv_gaussian(state, hbar, cutoff, rng, pure_expected, info, heavy=True):
    tag = "G"
    d = state.d
    cov = np.asarray(state.xpxp_covariance_matrix)
    cov2 = np.asarray(state.xxpp_covariance_matrix)
    mean = np.asarray(state.xpxp_mean_vector)
    for name, m in (("xpxp_covariance_matrix", cov), ("xxpp_covariance_matrix", cov2),
                    ("xpxp_mean_vector", mean)):
        if not np.isrealobj(m):
            raise Violation(f"C08:G:{name}:complex-dtype",
                            f"{name} has dtype {m.dtype} {info}")
        if not np.all(np.isfinite(m)):
            raise Violation(f"C08:G:{name}:not-finite", f"{name} contains nan/inf {info}")
    if cov.shape != (2 * d, 2 * d) or mean.shape != (2 * d,):
        raise Violation("C08:G:shape", f"covariance {cov.shape}, mean {mean.shape}, d={d}")
    nrm = float(np.linalg.norm(cov, 2)) if d else 0.0
    if d == 0:
        return
    if float(np.abs(cov - cov.T).max()) > 1e-10 * nrm:
        raise Violation("C08:G:covariance:not-symmetric",
                        f"|sigma - sigma^T| = {float(np.abs(cov - cov.T).max()):.3e} {info}")
    q = gg.perm_xpxp_to_xxpp(d)
    if float(np.abs(cov[np.ix_(q, q)] - cov2).max()) > 1e-10 * nrm:
        raise Violation("C08:G:covariance:orderings-disagree",
                        "xxpp_covariance_matrix is not the reordered xpxp_covariance_matrix")
    s = (cov + cov.T) / (2 * hbar)
    scale = 1 + nrm / hbar
    lam = float(np.linalg.eigvalsh(s + 1j * omega_xpxp(d)).min())
    if lam < -1e-9 * scale:
        raise Violation("C08:G:uncertainty-relation",
                        f"min eig(sigma/hbar + i Omega) = {lam:.3e} (hbar={hbar}) {info}")
    # own purity: product of inverse symplectic eigenvalues
    nus = np.sort(np.abs(np.linalg.eigvals(1j * omega_xpxp(d) @ s).real))[::2]
    own = float(np.prod(1.0 / np.maximum(nus, 1e-300)))
    purity = fl(state.get_purity())
    if not (purity > 0 and purity <= 1 + 1e-9 * scale ** 2):
        raise Violation("C08:G:purity:range", f"get_purity() = {purity!r} {info}")
    if abs(purity - own) > 1e-7 * scale ** 2:
        raise Violation("C08:G:purity:value",
                        f"get_purity() = {purity!r}, inverse product of the symplectic "
                        f"eigenvalues = {own!r} (hbar={hbar}) {info}")
    ip = state.is_pure()
    if abs(own - 1) <= 1e-8 and not ip:
        raise Violation("C08:G:is_pure:false-for-pure",
                        f"is_pure() is False, purity {purity!r} (own {own!r}) {info}")
    if own < 1 - 1e-4 and ip:
        raise Violation("C08:G:is_pure:true-for-mixed",
                        f"is_pure() is True, purity {purity!r} (own {own!r}) {info}")
    if pure_expected and (abs(purity - 1) > 1e-8 * scale ** 2 or not ip):
        raise Violation("C08:G:purity:pure-input-not-pure",
                        f"only unitary gates (and projections on pure states) acted on a pure "
                        f"input but get_purity() = "
                        f"{purity!r}, is_pure() = {ip} (hbar={hbar}) {info}")
    if heavy:
        # probabilities
        if scale < 200:
            fp = check_prob_array(tag, "fock_probabilities", state.fock_probabilities,
                                  lo=-1e-12 * scale, hi=1 + 1e-9 * scale)
            if fp.sum() > 1 + 1e-9 * scale:
                raise Violation("C08:G:fock_probabilities:sum",
                                f"sum = {fp.sum()!r} {info}")
            occ = [int(x) for x in rng.integers(0, 3, d)]
            pr = fl(state.get_particle_detection_probability(np.array(occ)))
            check_prob_array(tag, "get_particle_detection_probability", [pr],
                             lo=-1e-12 * scale, hi=1 + 1e-9 * scale)
        pats = [[(i >> j) & 1 for j in range(d)] for i in range(2 ** d)]
        if d > 2:
            pats = [pats[int(i)] for i in rng.choice(len(pats), 4, replace=False)]
            tot = None
        else:
            tot = 0.0
        for pat in pats:
            t = fl(state.get_threshold_detection_probability(tuple(pat)))
            check_prob_array(tag, "get_threshold_detection_probability", [t],
                             lo=-1e-9 * scale, hi=1 + 1e-9 * scale)
            if tot is not None:
                tot += t
        if tot is not None and abs(tot - 1) > 1e-8 * scale:
            raise Violation("C08:G:threshold-probabilities:sum", f"sum = {tot!r} {info}")
    try_validate(tag, state)


def inv_density(tag, state, info):
    rho = np.asarray(state.density_matrix)
    if not np.all(np.isfinite(rho)):
        raise Violation(f"C08:{tag}:density_matrix:not-finite", info)
    h = float(np.abs(rho - rho.conj().T).max()) if rho.size else 0.0
    if h > 1e-12:
        raise Violation(f"C08:{tag}:density_matrix:not-hermitian",
                        f"|rho - rho^dagger| = {h:.3e} {info}")
    w = np.linalg.eigvalsh((rho + rho.conj().T) / 2)
    if w.min() < -1e-9:
        raise Violation(f"C08:{tag}:density_matrix:negative-eigenvalue",
                        f"min eigenvalue {w.min():.3e} {info}")
    tr = fl(np.trace(rho))
    if tr > 1 + 1e-9:
        raise Violation(f"C08:{tag}:trace>1", f"trace = {tr!r} {info}")
    return rho, tr, w


def inv_fock_mixed(state, rng, info, ctx=None):
    rho, tr, w = inv_density("F", state, info)
    nrm = fl(state.norm)
    if abs(nrm - tr) > 1e-12:
        raise Violation("C08:F:norm-vs-trace", f"norm {nrm!r}, trace {tr!r}")
    fp = check_prob_array("F", "fock_probabilities", state.fock_probabilities)
    if abs(fp.sum() - tr) > 1e-10:
        raise Violation("C08:F:fock_probabilities:sum-vs-trace", f"{fp.sum()!r} vs {tr!r}")
    pur = fl(state.get_purity())
    if not (pur <= 1 + 1e-9 and (pur > 0 or tr < 1e-9)):
        raise Violation("C08:F:purity:range", f"get_purity() = {pur!r} {info}")
    if abs(pur - float(np.sum(w ** 2))) > 1e-9:
        raise Violation("C08:F:purity:value", f"{pur!r} vs sum eig^2 {float(np.sum(w**2))!r}")
    if abs(tr - 1) <= 1e-9:
        if fp.min() < 0 and ctx is not None:
            # validate() compares the diagonal with 0 exactly (dedicated part f_validate)
            ctx.exclude(B_F_VALIDATE)
        else:
            try_validate("F", state)
    return tr


def inv_fock_pure(state, rng, info):
    vec = np.asarray(state.state_vector)
    if not np.all(np.isfinite(vec)):
        raise Violation("C08:PF:state_vector:not-finite", info)
    own = float(np.sum(np.abs(vec) ** 2))
    nrm = fl(state.norm)
    if abs(own - nrm) > 1e-12:
        raise Violation("C08:PF:norm-vs-state_vector", f"norm {nrm!r}, sum|amp|^2 {own!r}")
    if own > 1 + 1e-9:
        raise Violation("C08:PF:norm>1", f"norm = {own!r} {info}")
    check_prob_array("PF", "fock_probabilities", state.fock_probabilities)
    if fl(state.get_purity()) != 1.0:
        raise Violation("C08:PF:purity", f"get_purity() = {state.get_purity()!r}")
    if abs(own - 1) <= 1e-9:
        try_validate("PF", state)
    return own


def inv_passive(state, info, lossy, nonuniform, postselected, cutoff_covers):
    """-> total of the table (or None if not computable)."""
    try:
        fp = state.fock_probabilities
    except NotImplementedCalculation:
        return None
    fp = check_prob_array("P", "fock_probabilities", fp)
    tot = float(fp.sum())
    if not nonuniform:
        if tot > 1 + 1e-9:
            raise Violation("C08:P:table-total>1", f"total = {tot!r} {info}")
        if not postselected and cutoff_covers and abs(tot - 1) > 1e-9:
            raise Violation("C08:P:table-total!=1", f"total = {tot!r} {info}")
    nrm = fl(state.norm)
    if nrm > 1 + 1e-9 and not nonuniform:
        raise Violation("C08:P:norm>1", f"norm = {nrm!r} {info}")
    if not lossy and not postselected and cutoff_covers and abs(nrm - 1) <= 1e-9:
        try_validate("P", state)
    return tot


def inv_fermionic_gaussian(state, rng, pure_expected, info, extra=0.0):
    """`extra`: rounding allowance of a thermal input, 1e-15 ||expm(2H)||_2 (the simulator
    forms inv(1 + expm(2H)); same law as C17)."""
    d = state.d
    corr = np.asarray(state.correlation_matrix)
    h = float(np.abs(corr - corr.conj().T).max())
    if h > 1e-10 + extra:
        raise Violation("C08:FG:correlation_matrix:not-hermitian",
                        f"|C - C^dagger| = {h:.3e} {info}")
    w = np.linalg.eigvalsh((corr + corr.conj().T) / 2)
    if w.min() < -1e-9 - extra or w.max() > 1 + 1e-9 + extra:
        raise Violation("C08:FG:correlation_matrix:spectrum",
                        f"spectrum in [{w.min()!r}, {w.max()!r}] {info}")
    cov = np.asarray(state.covariance_matrix)
    if not np.isrealobj(cov):
        raise Violation("C08:FG:covariance_matrix:complex-dtype", f"dtype {cov.dtype}")
    if float(np.abs(cov + cov.T).max()) > 1e-10 + 4 * extra:
        raise Violation("C08:FG:covariance_matrix:not-antisymmetric",
                        f"|G + G^T| = {float(np.abs(cov + cov.T).max()):.3e} {info}")
    g2 = np.linalg.eigvalsh(cov @ cov.T)
    if g2.max() > 1 + 1e-9 + 8 * extra:
        raise Violation("C08:FG:covariance_matrix:GG^T>1", f"max eig {g2.max()!r} {info}")
    if pure_expected and g2.min() < 1 - 1e-9:
        raise Violation("C08:FG:purity:unitary-on-pure",
                        f"only unitary gates acted on a pure input, min eig(G G^T) = "
                        f"{g2.min()!r} {info}")
    fp = check_prob_array("FG", "fock_probabilities", state.fock_probabilities,
                          lo=-1e-7, hi=1 + 1e-7)
    if abs(fp.sum() - 1) > 2 ** d * (1e-7 + extra):
        raise Violation("C08:FG:fock_probabilities:sum", f"sum = {fp.sum()!r} {info}")
    if extra < 1e-9:  # (validate() has fixed 1e-8 tolerances; ill-conditioned thermal inputs
        try_validate("FG", state)  # are outside what it can be asked)


def inv_fermionic_fock(state, rng, full_space, info):
    d = state.d
    vec = np.asarray(state.state_vector)
    own = float(np.sum(np.abs(vec) ** 2))
    nrm = complex(state.norm)
    if abs(nrm - own) > 1e-12:
        raise Violation("C08:FPF:norm-vs-state_vector", f"norm {nrm!r}, own {own!r}")
    if own > 1 + 1e-9:
        raise Violation("C08:FPF:norm>1", f"norm = {own!r} {info}")
    fp = check_prob_array("FPF", "fock_probabilities", state.fock_probabilities)
    for k in state.fock_probabilities_map:
        if any(int(x) not in (0, 1) for x in k):
            raise Violation("C08:FPF:exclusion", f"basis label {k}")
    if full_space and d >= 1:
        cov = np.asarray(state.covariance_matrix)
        if np.iscomplexobj(cov) and float(np.abs(cov.imag).max()) > 0:
            raise Violation("C08:FPF:covariance_matrix:complex", "")
        cov = np.real(cov)
        if float(np.abs(cov + cov.T).max()) > 1e-10:
            raise Violation("C08:FPF:covariance_matrix:not-antisymmetric", info)
        if np.linalg.eigvalsh(cov @ cov.T).max() > 1 + 1e-9:
            raise Violation("C08:FPF:covariance_matrix:GG^T>1", info)
    if abs(own - 1) <= 1e-9:
        try_validate("FPF", state)
    return own


# ------------------------------------------------------------------ the sequence property

def invariant(sim, state, desc, rng, pure_so_far, binfo, bi, ctx, lossy, nonuniform,
              postselected, n0, fg_extra):
    if sim == "G":
        inv_gaussian(state, desc["hbar"], desc["cutoff"], rng, pure_so_far, binfo,
                     heavy=(bi < 2 and not desc.get("light")))
        return None
    if sim == "F":
        return inv_fock_mixed(state, rng, binfo, ctx)
    if sim == "PF":
        if type(state).__name__ == "FockState":  # after Attenuator (last step)
            return inv_fock_mixed(state, rng, binfo, ctx)
        return inv_fock_pure(state, rng, binfo)
    if sim == "P":
        return inv_passive(state, binfo, lossy, nonuniform, postselected,
                           desc["cutoff"] > n0)
    if sim == "FG":
        inv_fermionic_gaussian(state, rng, pure_so_far, binfo, fg_extra)
        return None
    return inv_fermionic_fock(state, rng, desc["cutoff"] > desc["d"], binfo)


def step_name(s):
    return s.get("g") or s.get("m") or "PostSelectPhotons"


def is_nontrivial(desc):
    steps = desc["steps"]
    return len(steps) >= 3 and any(
        s["k"] == "gate" and len(s["modes"]) >= 2 for s in steps)


def has_channel_or_measurement(desc):
    return any(s["k"] != "gate" or s["g"] in CHANNELS for s in desc["steps"])


def prep_is_pure(desc):
    prep = desc["prep"]
    if desc["sim"] == "G":
        if prep["kind"] == "vacuum":
            return True
        if prep["kind"] == "gaussian":
            return prep["g"].get("kind") in ("pure", "vacuum")
        return False
    if desc["sim"] == "FG":
        return prep["kind"] == "number"
    return prep["kind"] != "mixture"


def branch_key(b):
    return tuple(float(x) for x in b.outcome)


def complex_active_gate(step):
    """Active Gaussian gate whose active block A has a non-zero imaginary part."""
    if step["k"] != "gate":
        return False
    g, p = step["g"], step["p"]
    if g in ("Squeezing", "Squeezing2"):
        return abs(p["r"]) > 1e-3 and abs(math.sin(p["phi"])) > 1e-3
    if g == "QuadraticPhase":
        return abs(p["s"]) > 1e-3
    return g == "GaussianTransform"


def region_class(sim, desc, step, last_state, active):
    """Class of the step about to be applied, decided on the state BEFORE it (public
    getters only):
      G  'G_complex_active_gate_on_correlated_subset': an active gate with complex active
         block on a strict subset of the modes whose <a_i a_k> correlation with an
         untouched mode k is non-zero (the cross-mode update of C and G is exercised);
      F/PF 'attenuator_on_coherence_between_nonzero_numbers': Attenuator with
         sin(2 theta) != 0 on a mode with rho[(n..),(m..)] != 0 for n != m, n, m >= 1."""
    if last_state is None or step is None or step["k"] != "gate":
        return None
    try:
        pos = [active.index(m) for m in step["modes"]]
    except ValueError:
        return None
    if sim == "G":
        if not complex_active_gate(step) or len(pos) >= len(active):
            return None
        _, _, g = gg.ladder_moments(np.asarray(last_state.xxpp_mean_vector),
                                    np.asarray(last_state.xxpp_covariance_matrix),
                                    desc["hbar"])
        others = [i for i in range(len(active)) if i not in pos]
        if float(np.abs(g[np.ix_(pos, others)]).max()) > 1e-3:
            return "G_complex_active_gate_on_correlated_subset"
        return None
    if sim in ("F", "PF") and step["g"] == "Attenuator":
        if abs(math.sin(2 * step["p"]["theta"])) < 1e-3:
            return None
        if type(last_state).__name__ == "FockState":
            rho = np.asarray(last_state.density_matrix)
        else:
            v = np.asarray(last_state.state_vector)
            rho = np.outer(v, v.conj())
        basis = np.array(progs.basis_tuples(pq, last_state.d, last_state._config.cutoff))
        n = basis[:, pos[0]]
        mask = (n[:, None] >= 1) & (n[None, :] >= 1) & (n[:, None] != n[None, :])
        if mask.any() and float(np.abs(rho[mask]).max()) > 1e-6:
            return "attenuator_on_coherence_between_nonzero_numbers"
    return None


def prop_sequence(desc, ctx):
    sim = desc["sim"]
    steps = desc["steps"]
    for b in desc.get("excl", []):
        ctx.exclude(b)
    cl = [f"sim_{sim}", f"hbar_{desc['hbar']}", f"len_{len(steps)}"]
    if sim not in ("FG",):
        cl.append(f"cutoff_{desc['cutoff']}")
    if has_channel_or_measurement(desc):
        cl.append("channel_or_measurement")
    if any(s["k"] == "gate" and s["g"] in CHANNELS for s in steps):
        cl.append("has_channel")
    if any(s["k"] == "measure" for s in steps):
        cl.append("has_measurement")
    if any(s["k"] == "postselect" for s in steps):
        cl.append("has_postselect")
        if sim == "P" and desc["prep"]["kind"] == "superposition":
            cl.append("P_postselected_superposition")
    ctx.case(desc, is_nontrivial(desc), cl)

    rng = progs.rng_of(desc.get("seed", 1) + 99)
    prev = None          # {branch key: norm/trace} of the previous prefix
    pure_so_far = prep_is_pure(desc)
    lossy = nonuniform = postselected = False
    n0 = None
    if sim == "P":
        n0 = progs.prep_max_photons(desc["prep"], desc["d"])
    fg_extra = 0.0
    if sim == "FG" and desc["prep"]["kind"] == "parent":
        hh = quadratic_hamiltonian(desc["d"], desc["prep"]["seed"], desc["prep"]["scale"])
        fg_extra = 1e-15 * math.exp(2 * float(np.linalg.eigvalsh(hh).max()))
    active = list(range(desc["d"]))
    last_state = None
    regions = set()
    for upto in range(0, len(steps) + 1):
        s = steps[upto - 1] if upto else None
        name = step_name(s) if s else "prep"
        if s is not None and sim in ("G", "F", "PF"):
            rc = region_class(sim, desc, s, last_state, active)
            if rc and rc not in regions:
                regions.add(rc)
                ctx.count(rc)
            if s["k"] in ("measure", "postselect"):
                active = [a for a in active if a not in s["modes"]]
        info = f"[{sim} d={desc['d']} hbar={desc['hbar']} after step {upto} ({name})]"
        if s is not None:
            if (s["k"] != "gate" and not (sim == "G" and pure_detection(s))) \
                    or s.get("g") in CHANNELS:
                pure_so_far = False
            if s["k"] == "gate" and s["g"] in ("Loss", "UniformLoss", "LossyInterferometer"):
                lossy = True
                if s["g"] != "UniformLoss" or len(s["modes"]) != desc["d"]:
                    nonuniform = True
            if s["k"] in ("postselect", "measure"):
                postselected = True
        try:
            res = execute(desc, upto)
        except NotImplementedCalculation:
            ctx.count("documented_unsupported")
            return
        except Exception as e:
            if isinstance(e, PiquassoException) and \
                    "Marginal probabilities cannot be calculated" in str(e):
                ctx.count("documented_unsupported")
                return
            raise Violation(f"C08:{sim}:raises:{type(e).__name__}:{name}",
                            f"valid sequence raised {type(e).__name__}: {str(e)[:300]} {info}")
        cur = {}
        branches = list(res.branches)
        last_state = branches[0].state if len(branches) == 1 else None
        for bi, b in enumerate(branches):
            state = b.state
            if state is None:
                continue
            w = float(b.frequency)
            if w < 1e-9:
                ctx.count("tiny_branch_skipped")
                continue
            binfo = info if len(branches) == 1 else info + f" branch {branch_key(b)}"
            try:
                val = invariant(sim, state, desc, rng, pure_so_far, binfo, bi, ctx, lossy,
                                nonuniform, postselected, n0, fg_extra)
            except Violation:
                raise
            except NotImplementedCalculation:
                ctx.count("documented_unsupported")
                continue
            except Exception as e:
                import traceback
                fr = traceback.extract_tb(e.__traceback__)[-1]
                raise Violation(f"C08:{sim}:getter-raises:{type(e).__name__}:{fr.name}",
                                f"reading the state raised {type(e).__name__}: "
                                f"{str(e)[:200]} (in {fr.name}) {binfo}")
            if val is not None:
                cur[(bi, branch_key(b))] = val
        # consecutive prefixes
        if s is not None and prev is not None and sim in ("F", "PF", "FPF"):
            if s["k"] == "gate" and set(cur) == set(prev):
                for key, v in cur.items():
                    v0 = prev[key]
                    conserving = s["g"] in CONSERVING or s["g"] == "Attenuator" or (
                        sim == "FPF" and (desc["cutoff"] > desc["d"]
                                          or s["g"] in ("Interferometer", "Beamsplitter",
                                                        "Phaseshifter", "Beamsplitter5050",
                                                        "MachZehnder", "Fourier",
                                                        "ControlledPhase")))
                    if conserving and abs(v - v0) > 1e-10:
                        what = "trace" if sim == "F" or s["g"] == "Attenuator" else "norm"
                        raise Violation(f"C08:{sim}:{what}-not-preserved:{s['g']}",
                                        f"{what} {v0!r} -> {v!r} under {s['g']} "
                                        f"(cutoff {desc['cutoff']}) {info}")
                    if v > v0 + 1e-9:
                        raise Violation(f"C08:{sim}:norm-increased:{s['g']}",
                                        f"norm/trace {v0!r} -> {v!r} under {s['g']} "
                                        f"(cutoff {desc['cutoff']}) {info}")
            elif s["k"] == "measure":
                for key, v in cur.items():
                    if abs(v - 1) > 1e-9:
                        raise Violation(f"C08:{sim}:post-measurement-state-not-normalised",
                                        f"norm/trace {v!r} on branch {key[1]} {info}")
            elif s["k"] == "postselect":
                v0 = max(prev.values()) if prev else 1.0
                for key, v in cur.items():
                    if v > v0 + 1e-9:
                        raise Violation(f"C08:{sim}:postselect-increased-norm",
                                        f"{v0!r} -> {v!r} {info}")
        if s is not None and s["k"] == "postselect" and cur and max(cur.values()) < 1e-9:
            ctx.exclude("impossible-postselection")
            return
        if s is not None and s["k"] == "postselect" and sim == "P" and not cur:
            return
        prev = cur if cur else None


# ------------------------------------------------------------------ strategies

def sm(mag):
    return progs.small(mag)


@st.composite
def g_channel(draw, active):
    if draw(st.integers(0, 2)) == 0:
        m = draw(progs.ordered_modes(0, 1, active))
        nbar = draw(st.sampled_from([0.0, 0.0, 0.3, 2.5, 1e-9]))
        return {"k": "gate", "g": "Attenuator", "modes": m,
                "p": {"theta": draw(progs.angle()), "mean_thermal_excitation": nbar}}
    k = draw(st.integers(1, min(2, len(active))))
    m = draw(progs.ordered_modes(0, k, active))
    return {"k": "gate", "g": "DeterministicGaussianChannel", "modes": m,
            "p": {"seed": draw(st.integers(0, 2 ** 32)),
                  "style": draw(st.sampled_from(["zero", "rotation", "rotation", "generic",
                                                 "conjugation", "symplectic"])),
                  "c": draw(st.sampled_from([0.0, 0.3, 0.7, 1.0, 1.3])),
                  "noise": draw(st.sampled_from([0.0, 0.0, 0.0, 0.2]))}}


G_GATES = progs.PASSIVE + progs.ACTIVE_GAUSS + progs.DISPLACE + ["ControlledX", "ControlledZ"]
PF_GATES = (progs.PASSIVE + progs.KERR + progs.PASSIVE + progs.KERR + progs.ACTIVE_GAUSS
            + progs.DISPLACE + ["CubicPhase", "SNAP"])
P_GATES = progs.PASSIVE + progs.KERR


@st.composite
def complex_active_step(draw, d, active):
    """Active gate with a complex active block on a STRICT subset of the active modes
    (generic angles, non-zero strength) -- built, not filtered."""
    names = ["Squeezing", "Squeezing", "QuadraticPhase"]
    if len(active) >= 3:
        names += ["Squeezing2", "GaussianTransform"]
    name = draw(st.sampled_from(names))
    k = 2 if name in ("Squeezing2", "GaussianTransform") else 1
    modes = draw(progs.ordered_modes(d, k, active))
    sign = draw(st.sampled_from([1.0, -1.0]))
    if name == "QuadraticPhase":
        p = {"s": sign * draw(st.floats(0.05, 0.36))}
    elif name == "GaussianTransform":
        p = {"seed": draw(st.integers(0, 2 ** 32)), "rmax": 0.24}
    else:
        p = {"r": sign * draw(st.floats(0.05, 0.3)), "phi": draw(st.floats(0.1, 3.0))}
    return {"k": "gate", "g": name, "modes": modes, "p": p}


@st.composite
def gaussian_sequence(draw, correlated=False):
    """correlated=True: >= 2 modes that are correlated across every cut from the start (a
    layered Gaussian input, or a two-mode squeezer with a generic angle as first step) and
    half of the gates are complex active gates on strict subsets, so that the cross-mode
    part of the active-gate update is exercised with complex blocks."""
    d = draw(st.integers(2 if correlated else 1, 4))
    hbar = draw(st.sampled_from(HBARS))
    cutoff = draw(st.sampled_from([1, 2, 3, 3, 4] if d <= 3 else [1, 2, 3]))
    pk = draw(st.sampled_from(["vacuum", "gaussian", "gaussian"] if correlated else
                              ["vacuum", "vacuum", "gaussian", "gaussian", "thermal"]))
    if pk == "gaussian" and correlated:
        prep = {"kind": "gaussian", "g": {
            "d": d, "seed": draw(st.integers(0, 2 ** 32)),
            "kind": draw(st.sampled_from(["pure", "pure", "mixed", "partial"])),
            "displaced": draw(st.booleans()), "layers": draw(st.sampled_from([1, 2])),
            "rmax": 0.6}}
    elif pk == "gaussian":
        prep = {"kind": "gaussian", "g": {
            "d": d, "seed": draw(st.integers(0, 2 ** 32)),
            "kind": draw(st.sampled_from(["pure", "pure", "mixed", "partial", "thermal"])),
            "displaced": draw(st.booleans()), "layers": draw(st.sampled_from([0, 1, 2])),
            "rmax": 0.6}}
    elif pk == "thermal":
        prep = {"kind": "thermal",
                "nbar": [draw(st.sampled_from([0.0, 0.2, 1.5])) for _ in range(d)]}
    else:
        prep = {"kind": "vacuum"}
    active = list(range(d))
    steps = []
    if correlated and prep["kind"] == "vacuum":
        steps.append({"k": "gate", "g": "Squeezing2",
                      "modes": draw(progs.ordered_modes(d, 2, active)),
                      "p": {"r": draw(st.sampled_from([1.0, -1.0])) * draw(st.floats(0.1, 0.3)),
                            "phi": draw(st.floats(0.1, 3.0))}})
    for _ in range(draw(st.integers(1, 8 - len(steps)))):
        choices = ["gate"] * 5 + ["channel"] * 2
        if len(active) >= 2:
            choices += ["measure"] * 2
        kind = draw(st.sampled_from(choices))
        if kind == "gate" and correlated and len(active) >= 2 and draw(st.booleans()):
            steps.append(draw(complex_active_step(d, active)))
        elif kind == "gate":
            g = draw(progs.gate(d, G_GATES, scale=0.6, pool=active))
            steps.append({"k": "gate", **g})
        elif kind == "channel":
            steps.append(draw(g_channel(active)))
        else:
            k = draw(st.integers(1, len(active) - 1))
            modes = draw(progs.ordered_modes(d, k, active))
            m = draw(st.sampled_from(aprogs.MID["G"]))
            p = {}
            if m == "HomodyneMeasurement":
                p = {"phi": draw(progs.angle())}
            if m == "GeneraldyneMeasurement":
                p = {"seed": draw(st.integers(0, 2 ** 16)), "pure": draw(st.booleans())}
            steps.append({"k": "measure", "m": m, "modes": modes, "p": p})
            active = [a for a in active if a not in modes]
    if draw(st.integers(0, 5)) == 0:
        m = draw(st.sampled_from(["ParticleNumberMeasurement", "ThresholdMeasurement"]))
        k = draw(st.integers(1, len(active)))
        steps.append({"k": "measure", "m": m, "p": {},
                      "modes": draw(progs.ordered_modes(d, k, active))})
    return {"sim": "G", "d": d, "cutoff": cutoff, "hbar": hbar, "prep": prep, "steps": steps,
            "shots": 2, "seed": draw(st.integers(1, 2 ** 20))}


def fock_dim(d, cutoff):
    return math.comb(d + cutoff - 1, d)


@st.composite
def attenuated_coherence_sequence(draw, sim):
    """Loss acting on coherences, by construction: the input is a superposition whose terms
    carry two DIFFERENT NON-ZERO photon numbers in one mode (plus optionally a third term),
    followed by number-conserving gates that need no compiled kernels (Kerr, CrossKerr)
    and an Attenuator with a generic angle on that mode (last on the pure Fock simulator)."""
    d = draw(st.integers(1, 3))
    mode = draw(st.integers(0, d - 1))
    n1 = draw(st.integers(1, 2 if d == 3 else 3))
    n2 = n1 + draw(st.integers(1, 1 if d == 3 else 2))
    occs = []
    for n in (n1, n2):
        o = [0] * d
        o[mode] = n
        if d > 1 and draw(st.booleans()):
            o[draw(st.sampled_from([m for m in range(d) if m != mode]))] += 1
        occs.append(o)
    if draw(st.booleans()):
        o3 = draw(progs.occupation(d, 2))
        if o3 not in occs:
            occs.append(o3)
    amps = [[draw(st.floats(0.2, 1.0)) * draw(st.sampled_from([1.0, -1.0])),
             draw(st.floats(-1.0, 1.0))] for _ in occs]
    nrm = math.sqrt(sum(a * a + b * b for a, b in amps))
    prep = {"kind": "superposition",
            "terms": [[o, [a / nrm, b / nrm]] for o, (a, b) in zip(occs, amps)]}
    n = max(sum(o) for o in occs)
    cutoff = n + 1
    for _ in range(draw(st.integers(0, 2))):
        if fock_dim(d, cutoff + 1) <= 56:
            cutoff += 1
    active = list(range(d))
    steps = []
    for _ in range(draw(st.integers(0, 2))):
        names = ["Kerr"] + (["CrossKerr"] if d >= 2 else [])
        steps.append({"k": "gate", **draw(progs.gate(d, names, pool=active))})
    theta = draw(st.one_of(st.floats(0.05, 1.5), progs.angle()))
    steps.append({"k": "gate", "g": "Attenuator", "modes": [mode],
                  "p": {"theta": theta, "mean_thermal_excitation": 0.0}})
    excl = []
    if sim == "PF":
        excl.append(B_PF_ATT)
    else:
        for _ in range(draw(st.integers(0, 2))):
            if draw(st.booleans()):
                steps.append({"k": "gate", "g": "Attenuator",
                              "modes": draw(progs.ordered_modes(d, 1, active)),
                              "p": {"theta": draw(st.floats(0.05, 1.5)),
                                    "mean_thermal_excitation": 0.0}})
            else:
                steps.append({"k": "gate", **draw(progs.gate(d, ["Kerr"], pool=active))})
        if draw(st.integers(0, 2)) == 0:
            k = draw(st.integers(1, d))
            steps.append({"k": "measure", "m": "ParticleNumberMeasurement", "p": {},
                          "modes": draw(progs.ordered_modes(d, k, active))})
    return {"sim": sim, "d": d, "cutoff": cutoff, "hbar": draw(st.sampled_from(HBARS)),
            "prep": prep, "steps": steps, "seed": draw(st.integers(1, 2 ** 20)),
            "excl": excl}


@st.composite
def fock_sequence(draw, sim):
    d = draw(st.integers(1, 4))
    hbar = draw(st.sampled_from(HBARS))
    excl = []
    if sim == "P":
        d = max(d, 2)
        nmax = draw(st.integers(1, 3))
        prep = draw(progs.prep(d, nmax, kinds=("number", "number", "superposition")))
        n = progs.prep_max_photons(prep, d)
        cutoff = n + 1 + draw(st.sampled_from([0, 0, 1]))
    else:
        nmax = draw(st.integers(0, 3))
        kinds = ("vacuum", "number", "number", "superposition")
        prep = draw(progs.prep(d, nmax, kinds=kinds))
        n = progs.prep_max_photons(prep, d)
        if sim == "F" and prep["kind"] == "number" and draw(st.booleans()):
            o2 = draw(progs.occupation(d, nmax))
            if o2 != prep["occ"]:
                prep = {"kind": "mixture", "occs": [prep["occ"], o2],
                        "w": draw(st.sampled_from([0.5, 0.25, 0.9]))}
                n = max(n, sum(o2))
        cmax = 8
        lim = 56 if sim == "F" else 340  # (the attenuator is a Python loop over dim^2)
        while cmax > n + 1 and fock_dim(d, cmax) > lim:
            cmax -= 1
        cutoff = draw(st.integers(n + 1, max(n + 1, cmax)))
    superposed = prep["kind"] == "superposition"
    active = list(range(d))
    steps = []
    measured = False
    lossy = False
    nmeas = 0
    nsteps = draw(st.integers(1, 8))
    for i in range(nsteps):
        choices = ["gate"] * 6
        if sim == "F":
            choices += ["channel"] * 2
        if sim == "P":
            choices += ["channel"] * 2
        if sim in ("PF", "P") and len(active) >= 2:
            choices += ["measure", "postselect"]
            if sim == "P" and superposed and not lossy:
                # post-selected superpositions (terms of different particle numbers are
                # filtered inside PassiveState.state_vector): a region of its own
                choices += ["postselect"] * 4
        kind = draw(st.sampled_from(choices))
        if kind == "gate":
            names = list(P_GATES if sim == "P" else PF_GATES)
            if measured:
                names = [x for x in names if x != "SNAP"]
            if sim == "P" and (measured or lossy):
                if measured:
                    excl.append("C13:valid-crash:P:kerr-after-measurement")
                names = [x for x in names if x not in progs.KERR]
            g = draw(progs.gate(d, names, scale=0.5, pool=active))
            steps.append({"k": "gate", **g})
        elif kind == "channel":
            if sim == "F":
                m = draw(progs.ordered_modes(d, 1, active))
                steps.append({"k": "gate", "g": "Attenuator", "modes": m,
                              "p": {"theta": draw(progs.angle()),
                                    "mean_thermal_excitation": 0.0}})
            else:
                which = draw(st.sampled_from(["Loss", "UniformLoss", "UniformLoss",
                                              "LossyInterferometer"]))
                if which == "Loss":
                    m = draw(progs.ordered_modes(d, 1, active))
                    p = {"transmissivity": draw(st.sampled_from([0.0, 0.3, 0.5, 0.9, 1.0]))}
                elif which == "UniformLoss":
                    m = list(active) if draw(st.booleans()) else draw(
                        progs.ordered_modes(d, None, active))
                    p = {"transmissivity": draw(st.sampled_from([0.0, 0.3, 0.5, 0.9, 1.0]))}
                else:
                    m = draw(progs.ordered_modes(d, None, active))
                    p = {"seed": draw(st.integers(0, 2 ** 32)),
                         "smin": draw(st.sampled_from([0.0, 0.5])), "one": draw(st.booleans())}
                steps.append({"k": "gate", "g": which, "modes": m, "p": p})
                lossy = True
        elif kind == "measure":
            if sim == "P" and (nmeas >= 1 or superposed):
                excl.append("C03:exact:P:sequential-measurements:joint-weights"
                            if nmeas else "P:measurement-of-superposition-undocumented")
                continue
            k = draw(st.integers(1, len(active) - 1))
            modes = draw(progs.ordered_modes(d, k, active))
            steps.append({"k": "measure", "m": "ParticleNumberMeasurement", "modes": modes,
                          "p": {}})
            active = [a for a in active if a not in modes]
            measured = True
            nmeas += 1
        else:
            k = draw(st.integers(1, len(active) - 1))
            modes = draw(progs.ordered_modes(d, k, active))
            photons = [draw(st.integers(0, 1)) for _ in modes]
            steps.append({"k": "postselect", "modes": modes, "photons": photons})
            active = [a for a in active if a not in modes]
            measured = True
    if sim == "PF" and fock_dim(d, cutoff) <= 56 and draw(st.integers(0, 2)) == 0:
        m = draw(progs.ordered_modes(d, 1, active))
        steps.append({"k": "gate", "g": "Attenuator", "modes": m,
                      "p": {"theta": draw(progs.angle()), "mean_thermal_excitation": 0.0}})
        excl.append(B_PF_ATT)
    if sim == "F" and draw(st.integers(0, 2)) == 0:
        k = draw(st.integers(1, len(active)))
        steps.append({"k": "measure", "m": "ParticleNumberMeasurement", "p": {},
                      "modes": draw(progs.ordered_modes(d, k, active))})
    if not steps:
        steps.append({"k": "gate", **draw(progs.gate(d, ["Phaseshifter"], pool=active))})
    return {"sim": sim, "d": d, "cutoff": cutoff, "hbar": hbar, "prep": prep, "steps": steps,
            "seed": draw(st.integers(1, 2 ** 20)), "excl": excl}


@st.composite
def fermionic_gate(draw, sim, npos):
    """gate on consecutive ascending positions of the active modes."""
    names = ["Interferometer", "Beamsplitter", "Phaseshifter", "Squeezing2", "IsingXX"]
    if sim == "FG":
        names += ["GaussianHamiltonian", "GaussianHamiltonian"]
    else:
        names += ["ControlledPhase", "Beamsplitter5050", "MachZehnder", "Fourier"]
    if npos < 2:
        names = [n for n in names if n in ("Interferometer", "Phaseshifter", "Fourier",
                                           "GaussianHamiltonian")]
    name = draw(st.sampled_from(names))
    if name == "Interferometer":
        k = draw(st.integers(1, npos))
        lo = draw(st.integers(0, npos - k))
        return name, list(range(lo, lo + k)), {
            "seed": draw(st.integers(0, 2 ** 32)),
            "kind": draw(st.sampled_from(["haar", "haar", "haar", "perm", "diag", "real"]))}
    if name == "GaussianHamiltonian":
        pos = draw(progs.ordered_modes(npos))
        return name, pos, {"seed": draw(st.integers(0, 2 ** 32)),
                           "scale": draw(st.sampled_from([0.1, 0.5, 1.0, 2.0])),
                           "passive": draw(st.integers(0, 3)) == 0}
    if name in ("Phaseshifter", "Fourier"):
        pos = [draw(st.integers(0, npos - 1))]
        return name, pos, ({"phi": draw(progs.angle())} if name == "Phaseshifter" else {})
    lo = draw(st.integers(0, npos - 2))
    pos = [lo, lo + 1]
    if name == "Beamsplitter":
        p = {"theta": draw(progs.angle()), "phi": draw(progs.angle())}
    elif name == "Squeezing2":
        p = {"r": draw(progs.angle()), "phi": draw(progs.angle())}
    elif name == "MachZehnder":
        p = {"int_": draw(progs.angle()), "ext": draw(progs.angle())}
    elif name == "Beamsplitter5050":
        p = {}
    else:
        p = {"phi": draw(progs.angle())}
    return name, pos, p


@st.composite
def fermionic_sequence(draw, sim):
    d = draw(st.sampled_from([1, 2, 3, 3, 4, 4]))
    occ = [draw(st.integers(0, 1)) for _ in range(d)]
    prep = {"kind": "number", "occ": occ}
    if sim == "FG" and draw(st.integers(0, 2)) == 0:
        prep = {"kind": "parent", "seed": draw(st.integers(0, 2 ** 32)),
                "scale": draw(st.sampled_from([0.2, 0.7, 1.5]))}
    if sim == "FPF" and d >= 2 and draw(st.integers(0, 2)) == 0:
        o2 = list(occ)
        i, j = draw(st.integers(0, d - 1)), draw(st.integers(0, d - 1))
        if i != j:
            o2[i], o2[j] = 1 - o2[i], 1 - o2[j]   # same parity
            a = draw(st.sampled_from([0.6, 0.8, 0.28]))
            prep = {"kind": "super", "terms": [[occ, [a, 0.0]],
                                               [o2, [0.0, math.sqrt(1 - a * a)]]]}
    active = list(range(d))
    steps = []
    for _ in range(draw(st.integers(1, 8))):
        if sim == "FPF" and len(active) >= 2 and draw(st.integers(0, 5)) == 0:
            k = draw(st.integers(1, len(active) - 1))
            modes = draw(progs.ordered_modes(d, k, active))
            steps.append({"k": "measure", "m": "ParticleNumberMeasurement", "modes": modes,
                          "p": {}})
            active = sorted(a for a in active if a not in modes)
            continue
        name, pos, p = draw(fermionic_gate(sim, len(active)))
        steps.append({"k": "gate", "g": name, "modes": [active[i] for i in pos], "p": p})
    if sim == "FG" and draw(st.integers(0, 2)) == 0:
        k = draw(st.integers(1, d))
        steps.append({"k": "measure", "m": "ParticleNumberMeasurement", "p": {},
                      "modes": sorted(draw(progs.ordered_modes(d, k)))})
    nmax = max([sum(occ)] + ([sum(t[0]) for t in prep["terms"]] if prep["kind"] == "super"
                             else []))
    passive_only = all(s["k"] != "gate" or s["g"] not in ("Squeezing2", "IsingXX",
                                                           "ControlledPhase")
                       for s in steps)
    cutoff = d + 1
    if sim == "FPF" and passive_only:
        cutoff = draw(st.sampled_from(sorted({nmax + 1, d + 1, d + 1, d + 2})))
    return {"sim": sim, "d": d, "cutoff": cutoff, "hbar": draw(st.sampled_from(HBARS)),
            "prep": prep, "steps": steps, "shots": 2, "seed": draw(st.integers(1, 2 ** 20))}


# ------------------------------------------------------------------ validator part

@st.composite
def validator_case(draw):
    d = draw(st.integers(1, 3))
    return {"g": {"d": d, "seed": draw(st.integers(0, 2 ** 32)),
                  "kind": draw(st.sampled_from(["pure", "mixed", "partial", "vacuum"])),
                  "displaced": draw(st.booleans()), "layers": draw(st.sampled_from([0, 1, 2])),
                  "rmax": 0.8},
            "hbar": draw(st.sampled_from(HBARS)),
            "defect": draw(st.sampled_from(["none", "none", "shrink", "asym", "negative"])),
            "eps": draw(st.sampled_from([1e-3, 1e-2, 0.3]))}


def prop_validator(case, ctx):
    """GaussianState.validate() agrees with the harness invariant in both directions."""
    d, hbar = case["g"]["d"], case["hbar"]
    mu0, s0 = gg.dimensionless(case["g"])
    cov = gg.mat_to_xpxp(s0) * hbar
    defect, eps = case["defect"], case["eps"]
    if defect == "shrink":
        cov = cov * (1 - eps)          # violates the uncertainty relation
    elif defect == "negative":
        w, v = np.linalg.eigh(cov)
        w[0] = -eps * hbar             # not even positive
        cov = (v * w) @ v.T
    elif defect == "asym":
        cov = cov.copy()
        cov[0, -1] += eps * hbar
    ctx.case(case, defect != "none", [f"validator_{defect}", f"hbar_{hbar}"])
    lam = float(np.linalg.eigvalsh((cov + cov.T) / (2 * hbar) + 1j * omega_xpxp(d)).min())
    physical = defect == "none"
    if physical != (lam >= -1e-9 * (1 + np.linalg.norm(cov, 2) / hbar)) and defect != "asym":
        return  # (cannot happen: 'shrink' of a physical state is unphysical by >= eps)
    sim = pq.GaussianSimulator(d=d, config=pq.Config(hbar=hbar, validate=False))
    with pq.Program() as program:
        pq.Q() | pq.Vacuum()
        pq.Q() | pq.Covariance(cov / hbar)
    with warnings.catch_warnings():
        warnings.simplefilter("ignore")
        try:
            state = sim.execute(program).state
        except Exception as e:
            raise Violation(f"C08:validator:raises:{type(e).__name__}", str(e)[:200])
        raised = None
        try:
            state.validate()
        except InvalidState as e:
            raised = e
    if physical and raised is not None:
        raise Violation("C08:G:validate-disagrees",
                        f"physical covariance (min eig {lam:.3e}, hbar={hbar}) rejected by "
                        f"validate(): {str(raised)[:150]}")
    if not physical and raised is None:
        raise Violation("C08:G:validate-accepts-unphysical",
                        f"{defect} covariance (min eig(sigma/hbar + i Omega) = {lam:.3e}, "
                        f"hbar={hbar}) accepted by validate()")


# ------------------------------------------------------------------ dgc validity part

def dgc_cases(tier):
    out = []
    for style in ("identity", "loss", "amplifier", "rotation", "zero", "symplectic",
                  "conjugation", "generic"):
        for seed in range(4 if tier == "quick" else 12):
            for margin in (0.0, 0.05, -0.05):
                out.append({"style": style, "seed": seed, "margin": margin, "k": 1 + seed % 2})
    return out


def prop_dgc(case, ctx):
    k, style, margin = case["k"], case["style"], case["margin"]
    if style == "identity":
        x = np.eye(2 * k)
    elif style == "loss":
        x = 0.6 * np.eye(2 * k)
    elif style == "amplifier":
        x = 1.4 * np.eye(2 * k)
    else:
        x = dgc_x(k, {"seed": case["seed"], "style": style, "c": 0.8})
    om = omega_xpxp(k)
    y = abs_of_i_antisym(x @ om @ x.T - om) + margin * np.eye(2 * k)
    y = (y + y.T) / 2
    lam = float(np.linalg.eigvalsh(y + 1j * om - 1j * x @ om @ x.T).min())
    valid = lam >= -1e-12
    ctx.case(case, True, [f"dgc_{style}", "dgc_valid" if valid else "dgc_invalid"])
    if abs(lam) < 1e-12 and margin != 0.0:
        return
    sim = pq.GaussianSimulator(d=k, config=pq.Config(hbar=2.0))
    with pq.Program() as program:
        pq.Q() | pq.Vacuum()
        pq.Q(*range(k)) | pq.DeterministicGaussianChannel(X=x, Y=y)
    try:
        with warnings.catch_warnings():
            warnings.simplefilter("ignore")
            state = sim.execute(program).state
        accepted = True
    except InvalidParameter:
        accepted = False
    except InvalidState:
        accepted = None  # accepted as a channel, output rejected by the state validation
    except Exception as e:
        raise Violation(f"C08:G:dgc:raises:{type(e).__name__}", str(e)[:200])
    what = (f"{style} channel on {k} mode(s), X={np.round(x, 3).tolist()}, "
            f"Y={np.round(y, 3).tolist()}: min eig(Y + i Omega - i X Omega X^T) = {lam:.3e}")
    if valid and margin >= 0 and accepted is not True:
        raise Violation(B_DGC_REFUSED,
                        f"{what} (a CP map by the documented condition) is refused with "
                        f"{'InvalidParameter' if accepted is False else 'InvalidState'}")
    if not valid and accepted is not False:
        raise Violation(B_DGC_ACCEPTED,
                        f"{what} (not completely positive) passes the instruction's "
                        f"validation" + ("" if accepted else " and only fails in the state"))
    if accepted:
        inv_gaussian(state, 2.0, 3, progs.rng_of(1), False, "[dgc]", heavy=False)


# ------------------------------------------------------------------ known regions

def pf_att_cases(tier):
    return [{"gate": g, "theta": t} for g in ("Phaseshifter", "Kerr", "Squeezing")
            for t in (0.0, 0.3)]


def prop_pf_att(case, ctx):
    ctx.case(case, False, ["pf_gate_after_attenuator"])
    with pq.Program() as program:
        pq.Q() | pq.NumberState([1, 1])
        pq.Q(0) | pq.Attenuator(case["theta"])
        pq.Q(0) | {"Phaseshifter": pq.Phaseshifter(0.3), "Kerr": pq.Kerr(0.3),
                   "Squeezing": pq.Squeezing(0.1)}[case["gate"]]
    sim = pq.PureFockSimulator(d=2, config=pq.Config(cutoff=3))
    try:
        with warnings.catch_warnings():
            warnings.simplefilter("ignore")
            state = sim.execute(program).state
    except PiquassoException:
        ctx.count("rejected_with_library_exception")
        return
    except Exception as e:
        raise Violation(B_PF_ATT,
                        f"PureFockSimulator: NumberState([1,1]); Attenuator({case['theta']}) "
                        f"on mode 0; {case['gate']} on mode 0 raises {type(e).__name__}: "
                        f"{str(e)[:150]} (the attenuator replaces the pure state by a "
                        f"FockState that the pure-state steps cannot handle)")
    inv_fock_mixed(state, progs.rng_of(1), "[PF after attenuator + gate]")


def f_validate_cases(tier):
    return [{"r": r, "phi": phi, "cutoff": c} for c in (8, 6) for r in (-0.0105, 0.05)
            for phi in (1.0, 3.24)]


def prop_f_validate(case, ctx):
    ctx.case(case, False, ["f_validate_rounding"])
    with pq.Program() as program:
        pq.Q() | pq.Vacuum()
        pq.Q(0, 1) | pq.Squeezing2(case["r"], case["phi"])
    with warnings.catch_warnings():
        warnings.simplefilter("ignore")
        state = pq.FockSimulator(d=2, config=pq.Config(cutoff=case["cutoff"])).execute(
            program).state
    rho, tr, w = inv_density("F", state, "[f_validate]")
    diag = float(np.real(np.diag(rho)).min())
    if abs(tr - 1) > 1e-9:
        ctx.count("truncated")
        return
    try:
        state.validate()
    except InvalidState as e:
        raise Violation(B_F_VALIDATE if "positive semidefinite" in str(e) and diag > -1e-12
                        else "C08:F:validate-disagrees",
                        f"FockSimulator(d=2, cutoff={case['cutoff']}): Vacuum; Squeezing2(r="
                        f"{case['r']}, phi={case['phi']}) on (0,1): Hermitian, eigenvalues >= "
                        f"{w.min():.1e}, trace {tr!r}, smallest diagonal entry {diag:.3e}, but "
                        f"validate() raises InvalidState: {str(e)[:60]}")


def fpf_small_cases(tier):
    return [{"gate": g, "d": d, "cutoff": c, "modes": m}
            for g in ("ControlledPhase", "IsingXX", "Squeezing2")
            for d, c in ((3, 2), (3, 3), (4, 3)) for m in ([0, 1], [d - 2, d - 1])]


def prop_fpf_small(case, ctx):
    ctx.case(case, False, ["fpf_small_cutoff"])
    d, c = case["d"], case["cutoff"]
    occ = [1] * (c - 1) + [0] * (d - c + 1)
    desc = {"sim": "FPF", "d": d, "cutoff": c, "hbar": 2.0,
            "prep": {"kind": "number", "occ": occ[::-1] if case["modes"][0] else occ},
            "steps": [{"k": "gate", "g": "Beamsplitter", "modes": case["modes"],
                       "p": {"theta": 0.4, "phi": 0.2}},
                      {"k": "gate", "g": case["gate"], "modes": case["modes"],
                       "p": {"phi": 0.7, "r": 0.3} if case["gate"] == "Squeezing2"
                       else {"phi": 0.7}}]}
    try:
        state = execute(desc, 2).state
    except Exception as e:
        raise Violation(B_FPF_SMALL,
                        f"fermionic PureFockSimulator(d={d}, cutoff={c}): NumberState("
                        f"{desc['prep']['occ']}); Beamsplitter; {case['gate']} on "
                        f"{tuple(case['modes'])} raises {type(e).__name__}: {str(e)[:120]}")
    inv_fermionic_fock(state, progs.rng_of(1), False, "[fpf_small_cutoff]")


def p_ps_super_cases(tier):
    return [{"terms": t} for t in (
        [[[0, 0], 0.6], [[1, 0], 0.8]], [[[1, 0], 0.8], [[0, 0], 0.6]],
        [[[0, 0], 0.6], [[1, 1], 0.8]], [[[1, 1], 0.8], [[0, 0], 0.6]],
        [[[1, 0], 0.6], [[1, 1], 0.8]], [[[1, 1], 0.48], [[0, 1], 0.6], [[1, 0], 0.64]])]


def prop_p_ps_super(case, ctx):
    """PostSelectPhotons((1,)) on mode 0 of a superposition of different particle numbers
    (no gate): the remaining state is sum of the terms with n_0 = 1."""
    ctx.case(case, True, ["p_postselect_superposition"])
    terms = {tuple(o): a for o, a in case["terms"]}
    n = max(sum(o) for o in terms)
    with pq.Program() as program:
        pq.Q() | pq.FockStateVector(terms)
        pq.Q(0) | pq.PostSelectPhotons((1,))
    what = f"PassiveSimulator(d=2, cutoff={n + 1}): FockStateVector({terms}); " \
           f"PostSelectPhotons((1,)) on mode 0"
    want = {}
    for o, a in terms.items():
        if o[0] == 1:
            want[(o[1],)] = want.get((o[1],), 0.0) + a * a
    with warnings.catch_warnings():
        warnings.simplefilter("ignore")
        state = pq.PassiveSimulator(d=2, config=pq.Config(cutoff=n + 1)).execute(
            program, shots=None).state
        try:
            got = {k: float(v) for k, v in state.fock_probabilities_map.items()}
        except Exception as e:
            raise Violation(B_P_PS_SUPER, f"{what}: state.fock_probabilities raises "
                                          f"{type(e).__name__}: {str(e)[:100]}")
    bad = max(abs(got.get(k, 0.0) - want.get(k, 0.0)) for k in set(got) | set(want))
    if bad > 1e-9:
        raise Violation(B_P_PS_SUPER, f"{what}: fock_probabilities_map {got}, the "
                                      f"projection of the input gives {want}")


def p_lossy_cases(tier):
    out = []
    for what in ("validate-uniform", "validate-nonuniform", "table-nonuniform",
                 "postselect-uniform", "measure-uniform"):
        for occ in ([1, 1, 0], [1, 1, 1], [2, 0, 1]):
            out.append({"what": what, "occ": occ})
    return out


def prop_p_lossy(case, ctx):
    what, occ = case["what"], case["occ"]
    ctx.case(case, True, ["p_lossy_" + what])
    n = sum(occ)
    with pq.Program() as program:
        pq.Q() | pq.NumberState(occ)
        pq.Q(0, 1) | pq.Beamsplitter(0.4, 0.1)
        if "nonuniform" in what:
            pq.Q(1) | pq.Loss(0.5)
        else:
            pq.Q() | pq.UniformLoss(0.5)
        pq.Q(1, 2) | pq.Beamsplitter(0.7, 0.3)
        if what.startswith("postselect"):
            pq.Q(0) | pq.PostSelectPhotons((1,))
        if what.startswith("measure"):
            pq.Q(0) | pq.ParticleNumberMeasurement()
    sim = pq.PassiveSimulator(d=3, config=pq.Config(cutoff=n + 1))
    desc = (f"PassiveSimulator: NumberState({occ}); Beamsplitter(0.4,0.1) on (0,1); "
            + ("Loss(0.5) on mode 1" if "nonuniform" in what else "UniformLoss(0.5) on all")
            + "; Beamsplitter(0.7,0.3) on (1,2)")
    with warnings.catch_warnings():
        warnings.simplefilter("ignore")
        try:
            res = sim.execute(program, shots=None)
        except NotImplementedCalculation:
            ctx.count("documented_unsupported")
            return
    for b in res.branches:
        state = b.state
        if what.startswith("validate"):
            tot = float(np.sum(state.fock_probabilities))
            if "nonuniform" in what and abs(tot - 1) > 1e-9:
                continue  # the table itself is wrong there (other bucket)
            try:
                state.validate()
            except InvalidState as e:
                raise Violation(B_P_VALIDATE_LOSSY,
                                f"{desc}: probabilities non-negative, total {tot!r}, norm "
                                f"{fl(state.norm)!r}, but validate() raises InvalidState: {e}")
        elif what == "table-nonuniform":
            fp = check_prob_array("P", "fock_probabilities", state.fock_probabilities)
            if abs(fp.sum() - 1) > 1e-9:
                raise Violation(B_P_TABLE_TOTAL,
                                f"{desc}: fock_probabilities sums to {fp.sum()!r} over the "
                                f"complete basis (cutoff {n + 1})")
        else:
            try:
                fp = state.fock_probabilities
            except NotImplementedCalculation:
                ctx.count("documented_unsupported")
                continue
            except Exception as e:
                raise Violation(B_P_LOSSY_POSTSEL,
                                f"{desc}; {'PostSelectPhotons((1,))' if 'postselect' in what else 'ParticleNumberMeasurement'} "
                                f"on mode 0: state.fock_probabilities (and state.norm) raise "
                                f"{type(e).__name__}: {str(e)[:120]}")
            fp = check_prob_array("P", "fock_probabilities", fp)
            if fp.sum() > 1 + 1e-9:
                raise Violation("C08:P:table-total>1", f"{desc}: total {fp.sum()!r}")


# ------------------------------------------------------------------ parts

def single_origin(prop):
    """Re-raise every Violation from ONE source line.  Hypothesis keys distinct failures
    on the raise location and shrinks each of them separately; with the many raise sites of
    this module that would spend the 45 s shrink budget of the quick tier on several
    targets at once.  One origin -> one shrink target per round; other buckets are found
    in the driver's later rounds (collect-then-shrink)."""
    def wrapped(case, ctx):
        err = None
        try:
            prop(case, ctx)
        except Violation as v:
            err = (v.bucket, v.message)
        if err is not None:
            raise Violation(*err)
    wrapped.__name__ = prop.__name__
    return wrapped


def parts(tier):
    ex = lambda q, t: {"quick": q, "thorough": t}
    bud = lambda q, t: {"quick": q, "thorough": t}
    search = [
        Part("validator", single_origin(prop_validator), strategy=validator_case(),
             examples=ex(400, 4000), budget_s=bud(15, 200)),
        # moments only (no Fock/threshold probabilities, hence no compiled kernels): the
        # physicality of the covariance matrix is decided even when a cold numba cache or
        # a loaded machine eats the wall-clock budget of the full G part
        Part("G_cov", single_origin(prop_sequence),
             strategy=st.one_of(gaussian_sequence(), gaussian_sequence(correlated=True),
                                gaussian_sequence(correlated=True)).map(
                 lambda c: {**c, "light": True}),
             examples=ex(640, 8000), budget_s=bud(25, 600)),
        Part("F_att", single_origin(prop_sequence),
             strategy=st.one_of(attenuated_coherence_sequence("F"),
                                attenuated_coherence_sequence("PF")),
             examples=ex(320, 4000), budget_s=bud(20, 400)),
        Part("G", single_origin(prop_sequence),
             strategy=st.one_of(gaussian_sequence(), gaussian_sequence(),
                                gaussian_sequence(correlated=True)),
             examples=ex(480, 8000), budget_s=bud(35, 1200)),
        Part("PF", single_origin(prop_sequence), strategy=fock_sequence("PF"),
             examples=ex(480, 6000), budget_s=bud(25, 900)),
        Part("F", single_origin(prop_sequence), strategy=fock_sequence("F"),
             examples=ex(320, 5000), budget_s=bud(30, 900)),
        Part("P", single_origin(prop_sequence), strategy=fock_sequence("P"),
             examples=ex(400, 5000), budget_s=bud(20, 600)),
        Part("FG", single_origin(prop_sequence), strategy=fermionic_sequence("FG"),
             examples=ex(320, 5000), budget_s=bud(20, 600)),
        Part("FPF", single_origin(prop_sequence), strategy=fermionic_sequence("FPF"),
             examples=ex(320, 5000), budget_s=bud(15, 600)),
    ]
    # small dedicated parts for the regions that the searches exclude by construction
    known = [
        Part("pf_gate_after_attenuator", prop_pf_att, kind="enum", cases=pf_att_cases),
        Part("p_lossy", prop_p_lossy, kind="enum", cases=p_lossy_cases),
        Part("p_postselect_superposition", prop_p_ps_super, kind="enum",
             cases=p_ps_super_cases),
        Part("dgc_validity", prop_dgc, kind="enum", cases=dgc_cases),
        Part("f_validate", prop_f_validate, kind="enum", cases=f_validate_cases),
        Part("fpf_small_cutoff", prop_fpf_small, kind="enum", cases=fpf_small_cases),
    ]
    if os.environ.get("C08_SEARCH_ONLY"):  # sensitivity runs: only the searches
        return search
    return search + known
