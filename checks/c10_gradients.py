"""C10 — automatic derivatives equal the true derivatives.

Oracle: central finite differences with Richardson extrapolation (steps 1e-4 and 5e-5,
float64) of the *NumPy-connector* simulation of the same program description; it shares
no code with any custom gradient rule.  A mismatch is only reported after the oracle was
recomputed with the step pair (2e-4, 1e-4) and both extrapolations agree (otherwise the
case is counted as `fd_unreliable`, never as a violation).

Compared with (rtol 1e-5, atol 1e-7, element-wise on the Jacobian):
  tf   eager      tape.gradient per output component  (custom gradients, concrete upstream)
       eager-jac  tape.jacobian (pfor: custom gradients with symbolic upstream)
       decorate   TensorflowConnector(decorate_with=tf.function)  (TF autodiff)
       function   everything inside @tf.function incl. tape.jacobian (TF autodiff)
  jax  eager      jax.grad / jax.jacrev
       fwd        jax.jacfwd
       jit        jax.jit(jax.jacrev(f))
Permanent: jax.grad of Re/Im perm(A, rows, cols), jit, vmap, jacobian, against finite
differences of an exact permanent and the identity d perm/dA_ij = r_i c_j perm(A; r-e_i,
c-e_j).  Isolated rules: gradients.py matrix gradients and the Fock-space interferometer
gradient against finite differences of the matrices they differentiate.

Every shard imports only one of TensorFlow / JAX (even shards: TF, odd shards: JAX).
"""

from __future__ import annotations

import math
import os
import sys

# the native permanent opens an OpenMP team of up to 4 x hardware_concurrency threads on
# every call; spinning waits make that very slow on a shared machine
os.environ.setdefault("OMP_WAIT_POLICY", "passive")
os.environ.setdefault("GOMP_SPINCOUNT", "0")

import numpy as np  # noqa: E402
from hypothesis import strategies as st  # noqa: E402

from lib import bootstrap, progs  # noqa: E402
from lib import c10_core as K  # noqa: E402
from lib.harness import VERIF as _VERIF, Part, Violation  # noqa: E402

pq = bootstrap.load()

try:  # the exact integer-arithmetic permanent of C04, if present
    from lib import oracles as _O

    def perm_exact(A, rows, cols):
        return complex(_O.permanent_ref(np.asarray(A, dtype=complex), rows, cols))

    HAVE_ORACLES = True
except Exception:  # pragma: no cover
    _O = None
    HAVE_ORACLES = False

    def perm_exact(A, rows, cols):
        return K.permanent_small(A, rows, cols)


PID = "C10"
LEVEL = "exploration"
SHARDS = {"quick": 8, "thorough": 16}
RULE = (
    "circuits: Hypothesis-drawn descriptions (d<=3, cutoff 3..7, 1..6 gates from the "
    "differentiable set, single state or BatchPrepare/BatchApply, output selector, 1-2 "
    "parameter points in [-1.5,1.5]^k incl. 0 and the box corners) -> Jacobian from the "
    "TF / JAX connector in the drawn mode vs Richardson finite differences of the NumPy "
    "connector. Non-trivial = >=2 parameters, depth>=2, |J_fd| > 1e-6; distinct by hash of "
    "the case. Permanent: every (rows, cols) multiplicity pattern with total<=6 on <=3 "
    "rows (quick; <=8 thorough) on square shapes and total<=3 (<=5) on every wide and tall "
    "shape up to 3x3 (tall ones after a child-process canary) plus Hypothesis samples up "
    "to total 20, complex Gaussian matrix from a seed; non-trivial = total>=2 and a "
    "multiplicity>1. Gaussian/JAX: 2-3 modes, Squeezing(r, phi!=0) on every mode (r from "
    "disjoint bands), Displacement on >=1 mode, 1-2 Beamsplitter(theta, phi!=0), jax.grad "
    "of get_particle_detection_probability(n), |n| in {1,2}, w.r.t. all parameters (class "
    "gauss_eigvec_region = displaced+squeezed+complex angles+2 photons). Isolated rules: Hypothesis-drawn (r, phi, cutoff) / (unitary seed, d, "
    "cutoff) with random complex upstream."
)
ASSUMPTIONS = [
    "the NumPy-connector PureFockSimulator is the reference for values; its derivative is "
    "estimated by Richardson-extrapolated central differences (h=1e-4, 5e-5), confirmed "
    "with (2e-4, 1e-4) before a violation is raised",
    "tolerance atol 1e-7 + rtol 1e-5 |J_fd| per Jacobian entry (circuits, FD comparisons); "
    "1e-9 (1 + magnitude sum) against the exact analytic permanent derivative",
    "JAX convention: grad of a real function u of complex A is du/dx - i du/dy",
    "float64 / complex128 only (tf.float64 variables, jax x64)",
    "lib/oracles.permanent_ref (exact integer arithmetic) is the permanent oracle",
]
# only judged on quiet full runs (the permanent enumeration dominates the evaluations)
FLOORS = {"gauss_eigvec_region": 0.003}

RTOL, ATOL = 1e-5, 1e-7
# Debug / sensitivity aid: C10_PARTS=rule_matrices,tf_eager restricts a run to the named
# parts (independent parts: own Hypothesis seeds, own budgets).
_ONLY_PARTS = [p for p in os.environ.get("C10_PARTS", "").split(",") if p]

# --------------------------------------------------------------------------------------
# which framework does this process serve?


def _argv_int(flag):
    if flag in sys.argv:
        try:
            return int(sys.argv[sys.argv.index(flag) + 1])
        except Exception:
            return None
    return None


_SHARD, _NSHARDS = _argv_int("--shard"), _argv_int("--nshards")
if _SHARD is None or not _NSHARDS or _NSHARDS < 2:
    FW = None  # parent / replay / single shard: both, imported on demand
    _FW_RANK, _FW_COUNT = 0, 1
else:
    FW = "tf" if _SHARD % 2 == 0 else "jax"
    _FW_RANK = _SHARD // 2
    _FW_COUNT = (_NSHARDS + 1) // 2 if FW == "tf" else _NSHARDS // 2


# --------------------------------------------------------------------------------------
# TensorFlow backend

_tf_mod = None


def _tf():
    global _tf_mod
    if _tf_mod is None:
        import tensorflow as tf

        _tf_mod = tf
    return _tf_mod


def _unitary_tf(vals, k):
    tf = _tf()
    B = tf.constant(K.hermitian_basis(k), dtype=tf.complex128)
    v = tf.cast(tf.stack(vals), tf.complex128)
    H = tf.tensordot(v, B, 1)
    return tf.linalg.expm(tf.complex(tf.constant(0.0, tf.float64),
                                     tf.constant(1.0, tf.float64)) * H)


def tf_jacobian(circ, theta, mode):
    """(value vector, Jacobian (m, k)) through the TensorFlow connector."""
    tf = _tf()
    d, cutoff = circ["d"], circ["cutoff"]
    dim = K.fock_dim(d, cutoff)
    batch = K.is_batch(circ)
    connector = (pq.TensorflowConnector(decorate_with=tf.function) if mode == "decorate"
                 else pq.TensorflowConnector())
    sim = pq.PureFockSimulator(d=d, config=pq.Config(cutoff=cutoff), connector=connector)

    def f(v):
        program = K.build_program(pq, circ, v, _unitary_tf)
        state = sim.execute(program).state
        items = K.output_items(state, circ["out"], connector.np, batch, dim)
        return tf.concat([tf.reshape(tf.cast(x, tf.float64), [-1]) for x in items], 0)

    zero = tf.UnconnectedGradients.ZERO
    if mode == "function":
        @tf.function
        def gf(v):
            with tf.GradientTape() as tape:
                tape.watch(v)
                y = f(v)
            return y, tape.jacobian(y, v, unconnected_gradients=zero)

        y, J = gf(tf.constant(np.asarray(theta, dtype=float), dtype=tf.float64))
        return np.asarray(y), np.asarray(J)
    v = tf.Variable(np.asarray(theta, dtype=float), dtype=tf.float64)
    if mode == "eager-jac":
        with tf.GradientTape() as tape:
            y = f(v)
        J = tape.jacobian(y, v, unconnected_gradients=zero)
        return np.asarray(y), np.asarray(J)
    with tf.GradientTape(persistent=True) as tape:
        y = f(v)
        comps = [y[i] for i in range(int(y.shape[0]))]
    J = [np.asarray(tape.gradient(c, v, unconnected_gradients=zero)) for c in comps]
    del tape
    return np.asarray(y), np.stack(J)


# --------------------------------------------------------------------------------------
# JAX backend

_jax_mod = None


def _jax():
    global _jax_mod
    if _jax_mod is None:
        import jax

        jax.config.update("jax_enable_x64", True)
        _jax_mod = jax
    return _jax_mod


def _unitary_jax(vals, k):
    jax = _jax()
    jnp = jax.numpy
    B = jnp.asarray(K.hermitian_basis(k))
    H = jnp.tensordot(jnp.stack(vals).astype(jnp.complex128), B, 1)
    return jax.scipy.linalg.expm(1j * H)


_JAX_FN_CACHE: dict = {}


def jax_function(circ, mode):
    """Jacobian function of the circuit (cached per circuit so that several parameter
    points reuse one trace / one compilation)."""
    from lib.harness import case_hash

    key = (case_hash(circ), mode)
    if key in _JAX_FN_CACHE:
        return _JAX_FN_CACHE[key]
    jax = _jax()
    jnp = jax.numpy
    d, cutoff = circ["d"], circ["cutoff"]
    dim = K.fock_dim(d, cutoff)
    batch = K.is_batch(circ)
    connector = pq.JaxConnector()
    sim = pq.PureFockSimulator(d=d, config=pq.Config(cutoff=cutoff), connector=connector)

    def f(v):
        program = K.build_program(pq, circ, v, _unitary_jax)
        state = sim.execute(program).state
        items = K.output_items(state, circ["out"], jnp, batch, dim)
        return jnp.concatenate([jnp.ravel(jnp.asarray(x, dtype=jnp.float64))
                                for x in items])

    if mode == "fwd":
        jf = jax.jacfwd(f)
    elif mode == "jit":
        jf = jax.jit(jax.jacrev(f))
    else:
        jf = jax.jacrev(f)
    if len(_JAX_FN_CACHE) > 4:
        _JAX_FN_CACHE.clear()
    _JAX_FN_CACHE[key] = (f, jf)
    return f, jf


def jax_jacobian(circ, theta, mode):
    jax = _jax()
    jnp = jax.numpy
    f, jf = jax_function(circ, mode)
    x = jnp.asarray(np.asarray(theta, dtype=float))
    m = len(K.out_labels(circ))
    if mode == "eager" and m == 1:
        J = np.asarray(jax.grad(lambda v: f(v)[0])(x))[None, :]
        return np.asarray(f(x)), J
    return np.asarray(f(x)), np.asarray(jf(x))


# --------------------------------------------------------------------------------------
# forward-only evaluation (used to name the gate at which a connector's *value* departs)


def framework_forward(fw, circ, theta, mode="eager"):
    d, cutoff = circ["d"], circ["cutoff"]
    dim = K.fock_dim(d, cutoff)
    batch = K.is_batch(circ)
    if fw == "tf":
        tf = _tf()
        connector = (pq.TensorflowConnector(decorate_with=tf.function)
                     if mode == "decorate" else pq.TensorflowConnector())
        xp, unitary = connector.np, _unitary_tf
        th = tf.constant(np.asarray(theta, dtype=float), dtype=tf.float64)
    else:
        jax = _jax()
        connector = pq.JaxConnector()
        xp, unitary = jax.numpy, _unitary_jax
        th = jax.numpy.asarray(np.asarray(theta, dtype=float))
    sim = pq.PureFockSimulator(d=d, config=pq.Config(cutoff=cutoff), connector=connector)
    state = sim.execute(K.build_program(pq, circ, th, unitary)).state
    items = K.output_items(state, circ["out"], xp, batch, dim)
    return np.concatenate([np.ravel(np.asarray(x, dtype=float)) for x in items])


def locate_forward_divergence(fw, mode, circ, theta):
    """Name of the first main-list gate after which the connector's state vector differs
    from the NumPy connector's (or 'batch' / 'output')."""
    if K.is_batch(circ):
        return "batch"
    used = 0
    for i, g in enumerate(circ["gates"]):
        used += K.gate_nparams(g)
        sub = dict(circ, gates=circ["gates"][: i + 1], out={"kind": "state"})
        try:
            a = K.numpy_output(pq, sub, theta[:used])
            b = framework_forward(fw, sub, theta[:used], mode)
        except Exception:
            return g["g"]
        if not np.allclose(a, b, rtol=1e-8, atol=1e-9):
            return g["g"]
    return "output"


# --------------------------------------------------------------------------------------
# the circuit property


def _fmt_circ(circ):
    def g2s(g):
        if g["g"] == "BatchApply":
            return "BatchApply[" + " | ".join(
                ", ".join(g2s(h) for h in sub) for sub in g["subs"]) + "]"
        return f"{g['g']}{tuple(g['modes'])}"

    s = f"d={circ['d']} cutoff={circ['cutoff']} "
    if K.is_batch(circ):
        s += "batch[" + " | ".join(
            f"{b['prep']}: " + ", ".join(g2s(g) for g in b["gates"]) for b in circ["batch"]
        ) + "] "
    else:
        s += f"prep={circ['prep']} "
    return s + "gates=[" + ", ".join(g2s(g) for g in circ["gates"]) + f"] out={circ['out']}"


def _oracle(circ, theta):
    f = lambda x: K.numpy_output(pq, circ, x)  # noqa: E731
    return f, K.richardson(f, theta, 1e-4)


def prop_circuit(case, ctx):
    fw, mode, circ = case["fw"], case["mode"], case["circ"]
    sl = K.slots(circ)
    k = len(sl)
    labels = K.out_labels(circ)
    batch = K.is_batch(circ)
    tag = f"C10:{fw}:{mode}"
    classes = [f"{fw}:{mode}", "batch" if batch else "single", "out_" + circ["out"]["kind"]]
    classes += sorted({"gate_" + s[0] for s in sl})
    any_nontrivial = False
    first = True
    for theta in case["points"]:
        theta = [float(t) for t in theta]
        if len(theta) != k:
            raise AssertionError("parameter vector does not match the circuit")
        try:
            fnp, J_fd = _oracle(circ, theta)
            y_np = fnp(np.asarray(theta))
        except Exception as e:  # the reference itself cannot run this program
            if first:
                ctx.case(case, False, classes + ["oracle_raises"])
            ctx.count("oracle_raises:" + type(e).__name__)
            return
        if not (np.all(np.isfinite(J_fd)) and np.all(np.isfinite(y_np))):
            if first:
                ctx.case(case, False, classes + ["oracle_nonfinite"])
            return
        try:
            y, J = (tf_jacobian if fw == "tf" else jax_jacobian)(circ, theta, mode)
        except Violation:
            raise
        except Exception as e:
            if first:
                ctx.case(case, False, classes)
            names = sorted({s[0] for s in sl})
            raise Violation(
                f"{tag}:raises:{type(e).__name__}" + (":batch" if batch else ""),
                f"{_fmt_circ(circ)} theta={theta}: NumPy connector evaluates this program "
                f"but {fw}/{mode} raised {type(e).__name__}: {str(e)[:300]} (gates {names})")
        J = np.asarray(J, dtype=float).reshape(len(labels), k)
        nontrivial = k >= 2 and K.depth(circ) >= 2 and float(np.max(np.abs(J_fd))) > 1e-6
        any_nontrivial |= nontrivial
        if first:
            ctx.case(case, nontrivial, classes + (["nontrivial"] if nontrivial else []))
            first = False
        else:
            ctx.count("extra_points")
        # the forward value must agree as well (otherwise the derivative of something else
        # is being compared)
        if not np.allclose(np.asarray(y, dtype=float), y_np, rtol=1e-8, atol=1e-9):
            where = locate_forward_divergence(fw, mode, circ, theta)
            raise Violation(f"{tag}:forward:{where}",
                            f"{_fmt_circ(circ)} theta={theta}: the value itself differs "
                            f"between connectors (first after gate {where}): {fw} "
                            f"{np.asarray(y)} vs NumPy {y_np}; the derivative returned is "
                            f"that of a different function")
        tol = ATOL + RTOL * np.abs(J_fd)
        finite = np.isfinite(J)
        err = np.where(finite, np.abs(J - J_fd), np.inf)
        bad = err > tol
        if not bad.any():
            continue
        # confirm the oracle with another step pair before blaming the gradient
        J_fd2 = K.richardson(fnp, theta, 2e-4)
        if np.any(np.abs(J_fd2 - J_fd) > 0.1 * tol):
            ctx.count("fd_unreliable")
            continue
        i, j = np.unravel_index(int(np.argmax(np.where(bad, err / tol, 0))), err.shape)
        gname, pname, where = sl[j]
        kind = "nonfinite" if not finite[i, j] else "mismatch"
        bucket = f"{tag}:{gname}:{pname}" + (":batch" if batch else "") + \
            (":nonfinite" if kind == "nonfinite" else "")
        if fw == "tf" and gname == "Squeezing2_phi0" and pname == "r" and theta[j] == 0.0 \
                and J[i, j] == 0.0:
            # known finding: at r = 0 exactly TensorFlow returns a zero derivative through
            # the polar / Takagi step of the Euler decomposition (degenerate point)
            bucket = f"{tag}:Squeezing2_phi0:r:zero-derivative-at-r-equal-0"
        raise Violation(
            bucket,
            f"{_fmt_circ(circ)} theta={theta}: d {labels[i]} / d {gname}.{pname} "
            f"[{where}, parameter #{j}] = {J[i, j]!r} from {fw}/{mode}, finite differences "
            f"of the NumPy simulation give {J_fd[i, j]!r} (second step pair "
            f"{J_fd2[i, j]!r}); {int(bad.sum())} of {bad.size} Jacobian entries differ; "
            f"J_ad={np.array2string(J, precision=6)} J_fd={np.array2string(J_fd, precision=6)}")


# --------------------------------------------------------------------------------------
# circuit generator

ATOM_VALUES = [0.0, 1.5, -1.5, 1.0, -1.0, math.pi / 4, -math.pi / 4, 0.5]


def param_value():
    return st.one_of(
        st.floats(-1.5, 1.5, allow_nan=False, width=64),
        st.floats(-1.5, 1.5, allow_nan=False, width=64),
        st.floats(-1.5, 1.5, allow_nan=False, width=64),
        st.sampled_from(ATOM_VALUES),
    ).map(lambda v: 0.0 if abs(v) < 1e-12 else v)


# gates offered per (framework, mode, batch?)  -- see the module docstring of the report
SINGLE_GATES = ["Displacement", "Squeezing", "Phaseshifter", "Beamsplitter", "MachZehnder",
                "Interferometer", "Kerr", "CrossKerr", "Squeezing2", "QuadraticPhase",
                "CubicPhase", "PositionDisplacement", "MomentumDisplacement",
                "Beamsplitter5050", "Fourier"]
BATCH_GATES = ["Displacement", "Squeezing", "Phaseshifter", "Beamsplitter", "MachZehnder",
               "Interferometer", "Kerr", "PositionDisplacement", "MomentumDisplacement",
               "Beamsplitter5050", "Fourier"]
WEIGHT = {"Displacement": 3, "Squeezing": 3, "Interferometer": 2, "Beamsplitter": 2}


# Not offered, with the reason (the trigger regions are probed by dedicated parts):
#  * jax + Squeezing2 / QuadraticPhase: the `linear` step goes through `connector.schur`,
#    for which JAX has no differentiation rule (NotImplementedError: an explicit refusal,
#    not a wrong derivative) -> not part of what the JAX connector differentiates.
#  * tf + Squeezing2 with a free angle: after the polar fix (35578e8) the state still
#    differs from the NumPy connector's (known finding C10:tf:eager:forward:Squeezing2,
#    part tf_linear_gates).  Squeezing2 with the angle held at 0 agrees in value and in
#    derivative (measured on 35578e8+: 8/8 circuits, all input kinds) and is offered as
#    the pseudo-gate Squeezing2_phi0.
#  * tf + QuadraticPhase: the value agrees since 35578e8, but TensorFlow's derivative
#    through the Euler decomposition (polar / logm / takagi on eig-based helpers) is wrong
#    in every TF mode (custom gradients are not involved): Vacuum, QuadraticPhase(0.264),
#    d=1, cutoff 4: d Im psi[2]/ds = 0.34294 vs 0.33119.  Bucket
#    C10:tf:eager:QuadraticPhase:s, part tf_linear_gates; excluded from the main generator
#    so that the search continues behind it.
B_TF_QP_GRAD = "C10:tf:eager:QuadraticPhase:s"


def gate_pool(fw, mode, batch):
    pool = list(BATCH_GATES if batch else SINGLE_GATES)
    if fw == "jax":
        pool = [g for g in pool if g not in ("Squeezing2", "QuadraticPhase")]
    if fw == "tf":
        pool = [g for g in pool if g != "QuadraticPhase"]
        pool = ["Squeezing2_phi0" if g == "Squeezing2" else g for g in pool]
    return pool


def jax_batch_normalize_cases(tier):
    circ = {"d": 1, "cutoff": 3,
            "batch": [{"prep": {"kind": "vacuum"}, "gates": []},
                      {"prep": {"kind": "number", "occ": [1]}, "gates": []}],
            "gates": [{"g": "Displacement", "modes": [0]}],
            "out": {"kind": "mean_photon", "normalize": True}}
    return [{"fw": "jax", "mode": "eager", "circ": circ, "points": [[0.3, 0.2]]}]


def tf_linear_cases(tier):
    """Trigger regions of the TF `linear` step: the known Squeezing2 value finding, the
    QuadraticPhase derivative finding (the same case is the regression of the fixed value
    bucket C10:tf:eager:forward:QuadraticPhase), and a Squeezing2(phi=0) regression."""
    # after 35578e8 the vacuum and |1,0> inputs agree in value; |1,1> does not (|0,2>
    # amplitude off by 2.8e-2 at cutoff 4)
    sq2 = {"d": 2, "cutoff": 4, "prep": {"kind": "number", "occ": [1, 1]},
           "gates": [{"g": "Squeezing2", "modes": [0, 1]}],
           "out": {"kind": "amp", "idx": [5]}}
    qp = {"d": 1, "cutoff": 4, "prep": {"kind": "vacuum"},
          "gates": [{"g": "QuadraticPhase", "modes": [0]}],
          "out": {"kind": "amp", "idx": [2]}}
    sq0 = {"d": 2, "cutoff": 5, "prep": {"kind": "number", "occ": [1, 1]},
           "gates": [{"g": "Squeezing2_phi0", "modes": [1, 0]}],
           "out": {"kind": "amp", "idx": [4, 0]}}
    return [{"fw": "tf", "mode": "eager", "circ": sq2, "points": [[0.3, 0.7]]},
            {"fw": "tf", "mode": "eager", "circ": qp, "points": [[0.264]]},
            {"fw": "tf", "mode": "eager", "circ": sq0, "points": [[-1.05]]}]


@st.composite
def one_gate(draw, d, names):
    names = [n for n in names if (K.GATES[n][0] or 1) <= d]
    weighted = [n for n in names for _ in range(WEIGHT.get(n, 1))]
    name = draw(st.sampled_from(weighted))
    ar = K.GATES[name][0]
    if name == "Interferometer":
        ar = draw(st.integers(1, min(d, 3)))
    modes = draw(progs.ordered_modes(d, ar))
    return {"g": name, "modes": modes}


@st.composite
def circuit_case(draw, fw, modes, max_gates=6, max_d=3, max_cutoff=7, max_points=2,
                 batch_prob=0.3):
    mode = draw(st.sampled_from(modes))
    d = draw(st.integers(1, max_d))
    cutoff = draw(st.integers(3, max_cutoff))
    if d == 3 and cutoff > 6:
        cutoff = 6
    batch = draw(st.floats(0, 1)) < batch_prob
    pool = gate_pool(fw, mode, batch)
    circ = {"d": d, "cutoff": cutoff}
    nmax = min(cutoff - 1, 3)
    ng = draw(st.integers(1, max_gates))
    if batch:
        nb = draw(st.integers(2, 3))
        circ["batch"] = [
            {"prep": draw(progs.prep(d, nmax)),
             "gates": draw(st.lists(one_gate(d, pool), min_size=0, max_size=2))}
            for _ in range(nb)
        ]
        gates = draw(st.lists(one_gate(d, pool), min_size=1, max_size=ng))
        if draw(st.booleans()):
            pos = draw(st.integers(0, len(gates)))
            subs = [draw(st.lists(one_gate(d, pool), min_size=0, max_size=2))
                    for _ in range(nb)]
            gates.insert(pos, {"g": "BatchApply", "subs": subs})
        circ["gates"] = gates
    else:
        circ["prep"] = draw(progs.prep(d, nmax))
        circ["gates"] = draw(st.lists(one_gate(d, pool), min_size=1, max_size=ng))
    dim = K.fock_dim(d, cutoff)
    kinds = ["prob", "prob", "mean_photon", "mean_position", "fidelity", "norm", "amp"]
    kind = draw(st.sampled_from(kinds))
    out = {"kind": kind}
    if kind in ("prob", "amp"):
        out["idx"] = draw(st.lists(st.integers(0, dim - 1), min_size=1,
                                   max_size=2 if kind == "prob" else 1, unique=True))
    if kind == "mean_position":
        out["mode"] = draw(st.integers(0, d - 1))
    if kind == "fidelity":
        out["seed"] = draw(st.integers(0, 2**20))
    if kind != "norm":
        out["normalize"] = draw(st.sampled_from([False, False, True]))
    circ["out"] = out
    k = len(K.slots(circ))
    if k == 0:
        circ["gates"].append({"g": "Phaseshifter", "modes": [0]})
        k = 1
    npts = draw(st.integers(1, max_points))
    points = [draw(st.lists(param_value(), min_size=k, max_size=k)) for _ in range(npts)]
    return {"fw": fw, "mode": mode, "circ": circ, "points": points}


# --------------------------------------------------------------------------------------
# Gaussian simulator under JAX: detection probabilities go through the loop hafnian and the
# custom VJP of `eig` (piquasso/_math/jax/utils.py).  The eigen*vectors* only carry
# cotangent when the state is displaced AND squeezed, and the rule's conjugations only
# matter when the eigenvalues are complex (non-zero squeezing angle / beamsplitter phase):
# that region is built by construction here.

EPS_EIG = 1e-6  # Lorentzian broadening built into the pristine rule (utils.EPS_EIG)
# squeezing amplitudes are drawn from disjoint bands, so that the moduli tanh(r_i) of the
# eigenvalues of the loop-hafnian matrix stay apart (|l_a - l_b| >= ||l_a| - |l_b||)
R_BANDS = [(0.25, 0.40), (0.50, 0.65), (0.75, 0.90)]


def _gauss_theta(case):
    th = []
    for r, phi in case["sq"]:
        th += [r, phi]
    for _m, a, phi in case["disp"]:
        th += [a, phi]
    for _m1, _m2, t, phi in case["bs"]:
        th += [t, phi]
    return [float(x) for x in th]


def _gauss_slots(case):
    sl = []
    for i, _ in enumerate(case["sq"]):
        sl += [("Squeezing", "r", f"mode{i}"), ("Squeezing", "phi", f"mode{i}")]
    for m, _a, _p in case["disp"]:
        sl += [("Displacement", "r", f"mode{m}"), ("Displacement", "phi", f"mode{m}")]
    for m1, m2, _t, _p in case["bs"]:
        sl += [("Beamsplitter", "theta", f"modes{m1}{m2}"),
               ("Beamsplitter", "phi", f"modes{m1}{m2}")]
    return sl


def _gauss_function(case, connector):
    d, occ = case["d"], tuple(case["occ"])

    def f(th):
        k = 0
        sim = pq.GaussianSimulator(d=d, connector=connector)
        with pq.Program() as program:
            pq.Q() | pq.Vacuum()
            for i in range(len(case["sq"])):
                pq.Q(i) | pq.Squeezing(r=th[k], phi=th[k + 1])
                k += 2
            for m, _a, _p in case["disp"]:
                pq.Q(m) | pq.Displacement(r=th[k], phi=th[k + 1])
                k += 2
            for m1, m2, _t, _p in case["bs"]:
                pq.Q(m1, m2) | pq.Beamsplitter(theta=th[k], phi=th[k + 1])
                k += 2
        state = sim.execute(program).state
        return state.get_particle_detection_probability(occ)

    return f


_GAUSS_NP = None


def prop_gaussian(case, ctx):
    global _GAUSS_NP
    jax = _jax()
    jnp = jax.numpy
    if _GAUSS_NP is None:
        _GAUSS_NP = pq.NumpyConnector()
    theta = _gauss_theta(case)
    sl = _gauss_slots(case)
    displaced = any(abs(a) > 0.05 for _m, a, _p in case["disp"])
    squeezed = all(abs(r) > 0.05 for r, _p in case["sq"])
    complex_ev = any(abs(p) > 0.1 for _r, p in case["sq"]) or \
        any(abs(p) > 0.1 for *_x, p in case["bs"])
    region = displaced and squeezed and complex_ev and sum(case["occ"]) >= 2
    fnp = _gauss_function(case, _GAUSS_NP)
    fn = lambda x: np.array([float(fnp([float(t) for t in x]))])  # noqa: E731
    J_fd = K.richardson(fn, theta, 1e-4)[0]
    p0 = float(fn(np.asarray(theta))[0])
    ctx.case(case, region and float(np.max(np.abs(J_fd))) > 1e-6,
             ["jax:gaussian", "gauss_photons_%d" % sum(case["occ"])]
             + (["gauss_eigvec_region"] if region else [])
             + (["gauss_repeated_occupation"] if max(case["occ"]) > 1 else []))
    fj = _gauss_function(case, pq.JaxConnector())
    x = jnp.asarray(np.asarray(theta))
    try:
        val = float(fj(x))
        J = np.asarray(jax.grad(fj)(x), dtype=float)
    except Exception as e:
        raise Violation(f"C10:jax:gaussian:raises:{type(e).__name__}",
                        f"{case}: NumPy evaluates the detection probability but the JAX "
                        f"connector raised {type(e).__name__}: {str(e)[:300]}")
    if abs(val - p0) > 1e-9 * (1 + abs(p0)):
        raise Violation("C10:jax:gaussian:forward",
                        f"{case}: detection probability {val!r} (JAX) vs {p0!r} (NumPy)")
    # tolerance: the finite-difference tolerance plus the error of the pristine rule's own
    # broadening 1/D -> conj(D)/(|D|^2 + eps): relative eps/|D|^2 on the eigenvector
    # terms, D >= the smallest gap between the moduli {0, tanh r_i} of the eigenvalues
    t = sorted([0.0] + [math.tanh(abs(r)) for r, _p in case["sq"]])
    gap = min(b - a for a, b in zip(t, t[1:]))
    scale = max(float(np.max(np.abs(J_fd))), abs(p0))
    # NOTE (correction after a false alarm in the thorough tier): the moduli {0, tanh r_i}
    # bound the eigenvalue gaps only before the beamsplitters mix the modes; afterwards
    # pairs as close as ~0.015 occur and the rule's own documented broadening then costs
    # up to eps/|D|^2 ~ 4e-3 of the Jacobian scale (measured on the pristine tree: worst
    # 2e-4 of the scale over 1100 cases).  The library documents the broadening, so this is
    # not asserted as a defect: entries are compared to 2 % of the Jacobian scale, which
    # still separates structural errors (dropped conjugate: 10-100 % of the scale).
    tol = ATOL + RTOL * np.abs(J_fd) + max(4.0 * EPS_EIG / max(gap, 1e-3) ** 2, 2e-2) * scale
    err = np.where(np.isfinite(J), np.abs(J - J_fd), np.inf)
    bad = err > tol
    if not bad.any():
        return
    J_fd2 = K.richardson(fn, theta, 2e-4)[0]
    if np.any(np.abs(J_fd2 - J_fd) > 0.1 * tol):
        ctx.count("fd_unreliable")
        return
    j = int(np.argmax(np.where(bad, err / tol, 0)))
    gname, pname, where = sl[j]
    raise Violation(
        f"C10:jax:gaussian:{gname}:{pname}",
        f"{case}: d P(n={case['occ']}) / d {gname}.{pname} [{where}] = {J[j]!r} from "
        f"jax.grad (GaussianSimulator, JaxConnector), finite differences of the NumPy "
        f"simulation give {J_fd[j]!r} (tolerance {tol[j]:.2e}, smallest eigenvalue-modulus "
        f"gap {gap:.3f}); J_ad={np.array2string(J, precision=6)} "
        f"J_fd={np.array2string(J_fd, precision=6)}")


def _away(lo, hi, excl):
    """float in [lo, hi] with |x| >= excl"""
    return st.floats(lo, hi, allow_nan=False, width=64).map(
        lambda v: (excl if v >= 0 else -excl) if abs(v) < excl else v)


@st.composite
def gaussian_case(draw):
    d = draw(st.sampled_from([2, 2, 3]))
    bands = draw(st.permutations(R_BANDS[:d] if d == 3 else R_BANDS))[:d]
    sq = [[draw(st.floats(lo, hi, allow_nan=False, width=64)), draw(_away(-1.5, 1.5, 0.2))]
          for lo, hi in bands]
    modes = draw(st.lists(st.integers(0, d - 1), min_size=1, max_size=d, unique=True))
    disp = [[m, draw(st.floats(0.2, 0.8, allow_nan=False, width=64)),
             draw(st.floats(-1.5, 1.5, allow_nan=False, width=64))] for m in sorted(modes)]
    nbs = draw(st.integers(1, 2))
    bs = []
    for _ in range(nbs):
        pair = draw(progs.ordered_modes(d, 2))
        bs.append([pair[0], pair[1], draw(_away(-1.5, 1.5, 0.1)), draw(_away(-1.5, 1.5, 0.2))])
    # 2 photons: the smallest output whose loop hafnian goes through `eig`.  3-photon
    # outputs are NOT generated: on the pristine tree the rule's eps=1e-6 broadening
    # already costs up to 4e-4 absolute / 4% relative there in ~2 of 25 states (d=2
    # n=[1,2]: 3.5e-5; d=3 n=[1,1,1]: 4.4e-4), which cannot be bounded from the case
    # description; with <= 2 photons the pristine error stayed <= 5e-7 in 40 states.
    total = draw(st.sampled_from([2, 2, 2, 1]))
    occ = [0] * d
    for _ in range(total):
        occ[draw(st.integers(0, d - 1))] += 1
    return {"d": d, "sq": sq, "disp": disp, "bs": bs, "occ": occ}


def gaussian_regress_cases(tier):
    """The 2-mode state of the seeded-change demo (squeezed + displaced, complex angles)."""
    return [{"d": 2, "sq": [[0.3, 0.4], [0.2, -0.3]], "disp": [[0, 0.4, 0.7], [1, 0.3, -0.2]],
             "bs": [[0, 1, 0.6, 0.5]], "occ": [1, 1]}]


# --------------------------------------------------------------------------------------
# permanent


def _perm_matrix(seed, nr, nc):
    rng = progs.rng_of(seed)
    return 0.6 * (rng.normal(size=(nr, nc)) + 1j * rng.normal(size=(nr, nc)))


def perm_analytic_grad(A, rows, cols, exact=True):
    """d perm / d A_ij = r_i c_j perm(A; r - e_i, c - e_j), and the matching magnitude
    sums r_i c_j perm(|A|; ...)."""
    A = np.asarray(A, dtype=complex)
    G = np.zeros(A.shape, dtype=complex)
    S = np.zeros(A.shape)
    absA = np.abs(A)
    f = perm_exact if exact else K.permanent_tables_float
    for i in range(A.shape[0]):
        for j in range(A.shape[1]):
            if rows[i] == 0 or cols[j] == 0:
                continue
            r2, c2 = list(rows), list(cols)
            r2[i] -= 1
            c2[j] -= 1
            G[i, j] = rows[i] * cols[j] * f(A, r2, c2)
            S[i, j] = rows[i] * cols[j] * abs(K.permanent_tables_float(absA, r2, c2))
    return G, S


def perm_fd_grads(A, rows, cols, h=1e-4):
    """JAX-convention gradients du/dx - i du/dy of u = Re perm and u = Im perm by
    Richardson-extrapolated central differences of the exact permanent."""
    A = np.asarray(A, dtype=complex)

    def D(step, direction):
        G = np.zeros(A.shape, dtype=complex)
        for i in range(A.shape[0]):
            for j in range(A.shape[1]):
                E = np.zeros(A.shape, dtype=complex)
                E[i, j] = step * direction
                G[i, j] = (perm_exact(A + E, rows, cols) - perm_exact(A - E, rows, cols)) \
                    / (2 * step)
        return G  # complex: d(Re perm) + i d(Im perm) along the direction

    dx = (4 * D(h / 2, 1.0) - D(h, 1.0)) / 3
    dy = (4 * D(h / 2, 1j) - D(h, 1j)) / 3
    return {"re": dx.real - 1j * dy.real, "im": dx.imag - 1j * dy.imag}


_PERM_FNS: dict = {}


def _perm_fns():
    if not _PERM_FNS:
        jax = _jax()
        jnp = jax.numpy
        from piquasso.jax_extensions import perm

        def re(M, r, c):
            return jnp.real(perm(M, r, c))

        def im(M, r, c):
            return jnp.imag(perm(M, r, c))

        _PERM_FNS.update(
            grad_re=jax.grad(re), grad_im=jax.grad(im),
            jit_re=jax.jit(jax.grad(re)), jit_im=jax.jit(jax.grad(im)),
            vmap_re=jax.vmap(jax.grad(re), in_axes=(0, None, None)),
            vmap_im=jax.vmap(jax.grad(im), in_axes=(0, None, None)),
            jac=jax.jacrev(lambda M, r, c: perm(M, r, c), holomorphic=True),
            jac_ri=jax.jacrev(lambda M, r, c: jnp.stack([re(M, r, c), im(M, r, c)])),
        )
        # compiled twins (one compilation per matrix shape); the traced-every-call
        # originals are used on every 8th pattern only
        for name in ("vmap_re", "vmap_im", "jac", "jac_ri"):
            _PERM_FNS[name + ":jit"] = jax.jit(_PERM_FNS[name])
    return _PERM_FNS


B_NONSQUARE = "C10:jax:perm:nonsquare-gradient"


_TALL_CANARY: dict = {}


def _tall_canary():
    """Before dc97934 the backward pass of a tall matrix read and wrote out of bounds and
    aborted the interpreter.  One tall pattern is therefore evaluated in a child process
    first (once per process); only if that child survives are tall patterns evaluated
    in-process.  Returns None if safe, else the child's failure message."""
    if "msg" not in _TALL_CANARY:
        _TALL_CANARY["msg"] = _run_perm_child({"rows": [1, 1], "cols": [2], "seed": 10})
    return _TALL_CANARY["msg"]


def _run_perm_child(case):
    import json as _json
    import subprocess

    code = ("import sys; sys.path.insert(0, %r); import checks.c10_gradients as m; "
            "m._child_perm(sys.argv[1])" % str(_VERIF))
    try:
        r = subprocess.run([sys.executable, "-c", code, _json.dumps(case)],
                           capture_output=True, text=True, timeout=900, cwd=str(_VERIF))
    except subprocess.TimeoutExpired:
        return None  # inconclusive: never a violation
    if "C10-CHILD-OK" in r.stdout:
        return None
    if "C10-CHILD-VIOLATION" in r.stdout:
        return r.stdout.split("C10-CHILD-VIOLATION", 1)[1].strip()
    return (f"rows={case['rows']} cols={case['cols']} seed={case['seed']}: the process "
            f"evaluating jax.grad(perm) on this {len(case['rows'])}x{len(case['cols'])} "
            f"matrix died with return code {r.returncode}: {r.stderr[-400:]!r}")


def prop_perm(case, ctx):
    if len(case["rows"]) > len(case["cols"]) and not os.environ.get("C10_CHILD"):
        msg = _tall_canary()
        if msg is not None:
            ctx.case(case, True, ["perm_nonsquare", "perm_tall_guarded"])
            raise Violation(B_NONSQUARE, "[tall-matrix canary in a child process] " + msg)
    jax = _jax()
    jnp = jax.numpy
    F0 = _perm_fns()
    slow = case["seed"] % 8 == 0
    F = {k: (v if slow or k + ":jit" not in F0 else F0[k + ":jit"]) for k, v in F0.items()}
    rows, cols = [int(r) for r in case["rows"]], [int(c) for c in case["cols"]]
    nr, nc = len(rows), len(cols)
    total = sum(rows)
    A = _perm_matrix(case["seed"], nr, nc)
    square = nr == nc
    nontrivial = total >= 2 and (max(rows) > 1 or max(cols) > 1)
    ctx.case(case, nontrivial, ["perm_total_%02d" % total,
                                "perm_square" if square else "perm_nonsquare"]
             + ([] if square else ["perm_tall" if nr > nc else "perm_wide"])
             + (["perm_mult_gt1"] if nontrivial else [])
             + (["perm_has_zero_mult"] if (0 in rows or 0 in cols) else []))
    jr = jnp.asarray(rows, dtype=jnp.uint64)
    jc = jnp.asarray(cols, dtype=jnp.uint64)
    jA = jnp.asarray(A)
    G_exact, S = perm_analytic_grad(A, rows, cols)
    expected = {"re": G_exact, "im": -1j * G_exact}
    tol_exact = 1e-9 * (1.0 + S)
    desc = f"rows={rows} cols={cols} seed={case['seed']} A={np.array2string(A, precision=4)}"

    def bucket(how):
        return f"C10:jax:perm:{how}" if square else B_NONSQUARE

    def compare(G, exp, tol, how, what):
        G = np.asarray(G)
        ok = G.shape == exp.shape and bool(np.all(np.isfinite(G))) \
            and not np.any(np.abs(G - exp) > tol)
        if not ok:
            raise Violation(
                bucket(how),
                f"{desc}: {what} = {np.array2string(G, precision=6)}, expected "
                f"{np.array2string(exp, precision=6)} ({how})")

    fd = perm_fd_grads(A, rows, cols) if total <= case.get("fd_max_total", 8) else None
    odd = case["seed"] % 2
    for part in ("re", "im"):
        G = F["grad_" + part](jA, jr, jc)
        if fd is not None:
            # finite differences of the exact permanent (independent of the identity)
            compare(G, fd[part], ATOL + RTOL * np.abs(fd[part]) + 1e-9 * S, "grad-vs-fd",
                    f"jax.grad of {part} perm")
            ctx.count("perm_fd_compared")
        compare(G, expected[part], tol_exact, "grad-vs-analytic", f"jax.grad of {part} perm")
    # the remaining transformations alternate between Re and Im with the seed parity
    part, fac = (("re", 1.0), ("im", -1j))[odd]
    compare(F["jit_" + part](jA, jr, jc), expected[part], tol_exact, "jit-vs-analytic",
            f"jit(grad) of {part} perm")
    As = np.stack([A * (0.5 + 0.25j), A + 0.1])
    Gs = np.asarray(F["vmap_" + part](jnp.asarray(As), jr, jc))
    for b in range(len(As)):
        Gb, Sb = perm_analytic_grad(As[b], rows, cols, exact=total <= 8)
        compare(Gs[b], fac * Gb, 1e-9 * (1.0 + np.maximum(Sb, float(np.max(np.abs(Gb))))),
                "vmap-vs-analytic",
                f"vmap(grad {part} perm)[{b}]")
    # Jacobians: holomorphic, or of the stacked (Re, Im) output (vmap over cotangents)
    if odd:
        compare(F["jac"](jA, jr, jc), G_exact, tol_exact, "jacobian-vs-analytic",
                "jacrev(perm, holomorphic=True)")
    else:
        Jri = np.asarray(F["jac_ri"](jA, jr, jc))
        compare(Jri[0], expected["re"], tol_exact, "jacobian-vs-analytic",
                "jacrev([Re,Im] perm)[0]")
        compare(Jri[1], expected["im"], tol_exact, "jacobian-vs-analytic",
                "jacrev([Re,Im] perm)[1]")


def _shuffled(cases, seed):
    order = progs.rng_of(seed).permutation(len(cases))
    return [cases[int(i)] for i in order]


NONSQUARE_SHAPES = ((1, 2), (2, 1), (2, 3), (3, 2), (1, 3), (3, 1))


def perm_patterns(tier):
    """Square shapes 1x1..3x3 with total <= 6 (8 thorough) and every non-square shape up
    to 3 rows / columns, wide and tall, with total <= 3 (5 thorough)."""
    tmax = 6 if tier == "quick" else 8
    tmax_ns = 3 if tier == "quick" else 5
    cases = []
    seed = 0
    for total in range(1, tmax + 1):
        for nr in (1, 2, 3):
            for r, c in K.patterns(total, nr):
                seed += 1
                cases.append({"rows": r, "cols": c, "seed": seed})
    seed = 10_000
    for total in range(1, tmax_ns + 1):
        for nr, nc in NONSQUARE_SHAPES:
            for r, c in K.patterns(total, nr, nc):
                seed += 1
                cases.append({"rows": r, "cols": c, "seed": seed})
    # a deterministic shuffle: whatever a time budget cuts off is a random subset
    return _shuffled(cases, 20260923)


def perm_nonsquare_regress(tier):
    return [{"rows": [2], "cols": [1, 1], "seed": 9}, {"rows": [1, 1], "cols": [1, 0, 1],
                                                      "seed": 7}]


def _mine(cases):
    """Place this framework-shard's share of an enumeration at the indices the driver
    gives to this shard (index % nshards == shard); other positions are never evaluated."""
    if FW is None:
        return cases
    mine = cases[_FW_RANK::_FW_COUNT]
    out = []
    for c in mine:
        out += [None] * _SHARD + [c] + [None] * (_NSHARDS - _SHARD - 1)
    return out


def tall_cases(tier):
    """One tall regression pattern per JAX shard (evaluated in a child process; its result
    doubles as the canary that allows tall patterns in-process in the `perm` part)."""
    base = [([1, 1], [2]), ([1, 0, 1], [1, 1]), ([2, 1], [3]), ([1, 1, 1], [2, 1]),
            ([0, 2], [2]), ([1, 2, 0], [2, 1]), ([1, 1, 1], [3]), ([2, 0, 1], [1, 2])]
    n = max(2, _FW_COUNT if FW == "jax" else 2)
    return [{"rows": r, "cols": c, "seed": 10 + i} for i, (r, c) in enumerate(base[:n])]


def _child_perm(case_json):  # entry point of the child process
    import json as _json

    os.environ["C10_CHILD"] = "1"

    from lib.harness import Ctx

    try:
        prop_perm(_json.loads(case_json), Ctx(PID, "quick", 0, 0, 1, {}))
    except Violation as v:
        print("C10-CHILD-VIOLATION " + v.message[:1500])
        return
    print("C10-CHILD-OK")


def prop_perm_tall(case, ctx):
    """Regression of dc97934: the same property as prop_perm on a tall matrix, evaluated
    in a child process (the unfixed tree aborted the interpreter)."""
    ctx.case(case, True, ["perm_nonsquare_tall_child"])
    msg = _run_perm_child(case)
    _TALL_CANARY.setdefault("msg", msg)
    if msg is not None:
        raise Violation(B_NONSQUARE, msg)


@st.composite
def perm_large_case(draw):
    nr = draw(st.integers(1, 3))
    total = draw(st.integers(7, 20))

    def comp(n, k):
        cuts = sorted(draw(st.lists(st.integers(0, n), min_size=k - 1, max_size=k - 1)))
        parts = [b - a for a, b in zip([0] + cuts, cuts + [n])]
        return parts

    return {"rows": comp(total, nr), "cols": comp(total, nr),
            "seed": draw(st.integers(0, 2**30)), "fd_max_total": 0}


def prop_perm_large(case, ctx):
    if _O is not None and _O.binomial_overflow_bound(case["rows"]) >= 2**31:
        ctx.exclude("C04:permanent:binomial-int-overflow")
        return
    prop_perm(case, ctx)


# --------------------------------------------------------------------------------------
# isolated rules (TensorFlow shards: the rules take a tf upstream)


def _rand_complex(rng, shape):
    return rng.normal(size=shape) + 1j * rng.normal(size=shape)


def prop_matrix_rule(case, ctx):
    """gradients.py: <upstream, dM/dr>, <upstream, dM/dphi> against finite differences of
    the displacement / squeezing matrix itself."""
    tf = _tf()
    from piquasso._math import gradients as G
    from piquasso._math import gate_matrices as GM

    which, r, phi, cutoff = case["which"], float(case["r"]), float(case["phi"]), case["cutoff"]
    ctx.case(case, abs(r) > 1e-3, ["rule_" + which, "rule_" + case["upstream"]])
    connector = pq.TensorflowConnector()
    npc = pq.NumpyConnector()
    if which == "displacement":
        make = lambda rr, pp: np.asarray(GM.create_single_mode_displacement_matrix(  # noqa
            rr, pp, cutoff, np.complex128, connector=npc))
        factory = G.create_single_mode_displacement_gradient
    else:
        make = lambda rr, pp: np.asarray(GM.create_single_mode_squeezing_matrix(  # noqa
            rr, pp, cutoff, complex_dtype=np.complex128, connector=npc))
        factory = G.create_single_mode_squeezing_gradient
    M = make(r, phi)
    up = _rand_complex(progs.rng_of(case["seed"]), M.shape)
    grad_fn = factory(r, phi, cutoff, M, connector)
    if case["upstream"] == "static":
        gr, gphi = grad_fn(tf.constant(up))
    else:
        # symbolic upstream: the branch taken under tape.jacobian / tf.function
        @tf.function
        def sym(u):
            return grad_fn(u)

        gr, gphi = sym(tf.constant(up))
    got = np.array([float(gr), float(gphi)])

    def D(h):
        dr = (make(r + h, phi) - make(r - h, phi)) / (2 * h)
        dp = (make(r, phi + h) - make(r, phi - h)) / (2 * h)
        return dr, dp

    d1, d2 = D(1e-4), D(5e-5)
    dr, dp = (4 * d2[0] - d1[0]) / 3, (4 * d2[1] - d1[1]) / 3
    # TensorFlow convention for a complex intermediate: Re sum(upstream * conj(dM/dx))
    exp = np.array([np.real(np.sum(up * np.conj(dr))), np.real(np.sum(up * np.conj(dp)))])
    tol = ATOL + RTOL * np.abs(exp)
    for idx, name in enumerate(("r", "phi")):
        if not np.isfinite(got[idx]) or abs(got[idx] - exp[idx]) > tol[idx]:
            raise Violation(
                f"C10:rule:{which}_matrix_gradient:{name}:{case['upstream']}",
                f"{which} matrix r={r} phi={phi} cutoff={cutoff} upstream seed "
                f"{case['seed']}: rule gives {got[idx]!r}, finite differences of the matrix "
                f"give {exp[idx]!r}")


@st.composite
def matrix_rule_case(draw):
    return {"which": draw(st.sampled_from(["displacement", "squeezing"])),
            "r": draw(param_value()), "phi": draw(param_value()),
            "cutoff": draw(st.integers(2, 9)), "seed": draw(st.integers(0, 2**30)),
            "upstream": draw(st.sampled_from(["static", "static", "symbolic"]))}


def prop_interferometer_rule(case, ctx):
    """_calculate_interferometer_gradient_on_fock_space against finite differences of the
    block representation computed by the connector."""
    tf = _tf()
    PL = sys.modules["piquasso._simulators.fock.pure.simulation_steps.passive_linear"]
    from piquasso._simulators.fock.simulation_steps import (
        calculate_interferometer_helper_indices,
    )

    d, cutoff = case["d"], case["cutoff"]
    rng = progs.rng_of(case["seed"])
    if case["kind"] == "unitary":
        U = progs.haar_unitary(d, case["seed"])
    else:  # the rule is a statement about a polynomial map of the entries
        U = 0.5 * _rand_complex(rng, (d, d))
    ctx.case(case, d >= 2 and cutoff >= 3, ["rule_interferometer", "rule_if_" + case["kind"],
                                            "rule_" + case.get("upstream", "static")])
    npc = pq.NumpyConnector()
    connector = pq.TensorflowConnector()
    index_tuple = calculate_interferometer_helper_indices(d=d, cutoff=cutoff)

    def rep(M):
        return [np.asarray(x) for x in
                npc.calculate_interferometer_on_fock_space(np.asarray(M, dtype=complex),
                                                           index_tuple)]

    reps = rep(U)
    ups = [_rand_complex(rng, np.shape(x)) for x in reps]
    grad_fn = PL._calculate_interferometer_gradient_on_fock_space(
        U, connector, reps, index_tuple)
    if case.get("upstream", "static") == "static":
        got = np.asarray(grad_fn(*[tf.constant(u) for u in ups]))
    else:
        @tf.function
        def sym(*u):
            return grad_fn(*u)

        got = np.asarray(sym(*[tf.constant(u) for u in ups]))

    # TF convention, for a holomorphic map: grad_kl = sum_p <up_p, conj(d rep_p / d U_kl)>
    def phi_of(M):
        return sum(np.sum(u * np.conj(x)) for u, x in zip(ups, rep(M)))

    exp = np.zeros((d, d), dtype=complex)
    for kk in range(d):
        for ll in range(d):
            def D(h):
                E = np.zeros((d, d), dtype=complex)
                E[kk, ll] = h
                # rep is holomorphic in U, so the real direction determines d rep/dU_kl
                gx = (phi_of(U + E) - phi_of(U - E)) / (2 * h)
                return gx

            exp[kk, ll] = (4 * D(5e-5) - D(1e-4)) / 3
    tol = ATOL + RTOL * np.abs(exp)
    if got.shape != exp.shape or np.any(~np.isfinite(got)) or np.any(np.abs(got - exp) > tol):
        raise Violation(
            "C10:rule:interferometer_gradient_on_fock_space:" + case.get("upstream", "static"),
            f"d={d} cutoff={cutoff} kind={case['kind']} seed={case['seed']}: rule gives "
            f"{np.array2string(got, precision=6)}, finite differences of the block "
            f"representation give {np.array2string(exp, precision=6)}")


@st.composite
def interferometer_rule_case(draw):
    d = draw(st.integers(1, 3))
    return {"d": d, "cutoff": draw(st.integers(3, 6 if d == 3 else 7)),
            "seed": draw(st.integers(0, 2**30)),
            "kind": draw(st.sampled_from(["unitary", "generic"])),
            "upstream": draw(st.sampled_from(["static", "static", "static", "symbolic"]))}


def prop_apply_rule(case, ctx):
    """The VJPs of applying a single-mode matrix / the Fock-space blocks of an
    interferometer to a (batched) state vector, against the explicit Jacobian: both maps
    are linear in the state and in the matrices, so d out/d x_k = F(e_k) exactly, with F
    the NumPy forward pass of the same step."""
    tf = _tf()
    from piquasso._simulators.fock.pure import simulation_steps as SS
    PL = sys.modules["piquasso._simulators.fock.pure.simulation_steps.passive_linear"]
    from piquasso._simulators.fock.simulation_steps import (
        calculate_index_list_for_appling_interferometer,
        calculate_state_index_matrix_list,
    )

    d, cutoff, kind, nb = case["d"], case["cutoff"], case["kind"], case["batch"]
    rng = progs.rng_of(case["seed"])
    dim = K.fock_dim(d, cutoff)
    shape = (dim, nb) if nb else (dim,)
    psi = _rand_complex(rng, shape)
    up = _rand_complex(rng, shape)
    npc = pq.NumpyConnector()
    connector = pq.TensorflowConnector()
    modes = tuple(case["modes"])
    ctx.case(case, d >= 2, ["rule_apply_" + kind, "rule_" + case["upstream"],
                            "rule_apply_batch" if nb else "rule_apply_single"])
    if kind == "active":
        idx = calculate_state_index_matrix_list(d, cutoff, modes[0])
        mats = [_rand_complex(rng, (cutoff, cutoff))]

        def forward(x, ms):
            return np.asarray(SS._calculate_state_vector_after_apply_active_gate(
                x, ms[0], idx, npc))

        grad_fn = SS._create_linear_active_gate_gradient_function(psi, mats[0], idx,
                                                                  connector)
    else:
        idx = calculate_index_list_for_appling_interferometer(modes, d, cutoff)
        k = len(modes)
        mats = [_rand_complex(rng, (math.comb(n + k - 1, k - 1),) * 2)
                for n in range(cutoff)]

        def forward(x, ms):
            return np.asarray(PL._calculate_state_vector_after_interferometer(
                x, ms, idx, npc))

        grad_fn = PL._create_linear_passive_gate_gradient_function(psi, mats, idx,
                                                                   connector)
    if case["upstream"] == "static":
        res = grad_fn(tf.constant(up))
    else:
        @tf.function
        def sym(u):
            return grad_fn(u)

        res = sym(tf.constant(up))
    g_state = np.asarray(res[0])
    g_mats = [np.asarray(res[1])] if kind == "active" else [np.asarray(m) for m in res[1]]

    def contract(y):  # TensorFlow convention: sum(upstream * conj(d out))
        return np.sum(up * np.conj(y))

    exp_state = np.zeros(shape, dtype=complex)
    for pos in np.ndindex(*shape):
        e = np.zeros(shape, dtype=complex)
        e[pos] = 1.0
        exp_state[pos] = contract(forward(e, mats))
    tag = f"C10:rule:apply_{kind}_gate"
    suffix = (":batch" if nb else "") + ":" + case["upstream"]
    info = f"d={d} cutoff={cutoff} modes={modes} batch={nb} seed={case['seed']}"
    if g_state.shape != exp_state.shape or \
            np.any(np.abs(g_state - exp_state) > 1e-9 * (1 + np.abs(exp_state))):
        raise Violation(tag + ":state" + suffix,
                        f"{info}: VJP w.r.t. the initial state differs from the explicit "
                        f"Jacobian by {np.max(np.abs(g_state - exp_state)):.3g}")
    for n, M in enumerate(mats):
        exp = np.zeros(M.shape, dtype=complex)
        for pos in np.ndindex(*M.shape):
            ms = [np.zeros_like(m) for m in mats]
            ms[n][pos] = 1.0
            exp[pos] = contract(forward(psi, ms))
        got = g_mats[n]
        if got.shape != exp.shape or np.any(np.abs(got - exp) > 1e-9 * (1 + np.abs(exp))):
            raise Violation(tag + ":matrix" + suffix,
                            f"{info}: VJP w.r.t. matrix #{n} differs from the explicit "
                            f"Jacobian by {np.max(np.abs(got - exp)):.3g}")


@st.composite
def apply_rule_case(draw):
    d = draw(st.sampled_from([1, 2, 2, 3, 3]))
    kind = draw(st.sampled_from(["active", "passive"]))
    # one-mode passive blocks are 1x1 (blind to transposition slips): prefer >= 2 modes
    k = 1 if kind == "active" else draw(st.sampled_from([d, d, max(1, d - 1)]))
    return {"d": d, "cutoff": draw(st.integers(2, 5 if d == 3 else 6)), "kind": kind,
            "modes": draw(progs.ordered_modes(d, k)),
            "batch": draw(st.sampled_from([0, 0, 2, 3])),
            "seed": draw(st.integers(0, 2**30)),
            "upstream": draw(st.sampled_from(["static", "static", "symbolic"]))}


# --------------------------------------------------------------------------------------
# parts

TF_EAGER = ["eager", "eager", "eager-jac"]
TF_COMPILED = ["decorate", "decorate", "function"]
JAX_EAGER = ["eager", "eager", "fwd"]
JAX_COMPILED = ["jit"]


def parts(tier):
    both = FW is None
    mult = 1 if both else 2  # only every second shard runs a framework's parts
    ps = []

    def ex(q, t):
        return {"quick": q * mult, "thorough": t * mult}

    if both or FW == "tf":
        ps += [
            Part("rule_matrices", prop_matrix_rule, strategy=matrix_rule_case(),
                 examples=ex(160, 4000), budget_s={"quick": 25, "thorough": 1200}),
            Part("rule_apply", prop_apply_rule, strategy=apply_rule_case(),
                 examples=ex(60, 1500), budget_s={"quick": 25, "thorough": 1200}),
            Part("rule_interferometer", prop_interferometer_rule,
                 strategy=interferometer_rule_case(),
                 examples=ex(40, 1000), budget_s={"quick": 25, "thorough": 1200}),
            Part("tf_linear_gates", prop_circuit, kind="enum",
                 cases=lambda t: _mine(tf_linear_cases(t)),
                 budget_s={"quick": 60, "thorough": 600}),
            Part("tf_eager", prop_circuit, strategy=circuit_case("tf", TF_EAGER),
                 examples=ex(24, 420), budget_s={"quick": 110, "thorough": 6000}),
            Part("tf_compiled", prop_circuit,
                 strategy=circuit_case("tf", TF_COMPILED, max_gates=3, max_d=2, max_cutoff=4,
                                       max_points=1),
                 examples=ex(8, 80), budget_s={"quick": 80, "thorough": 6000},
                 shrink=False),
        ]
    if both or FW == "jax":
        ps += [
            Part("jax_gaussian_regress", prop_gaussian, kind="enum",
                 cases=lambda t: _mine(gaussian_regress_cases(t)),
                 budget_s={"quick": 120, "thorough": 600}),
            Part("jax_gaussian", prop_gaussian, strategy=gaussian_case(),
                 examples=ex(16, 300), budget_s={"quick": 90, "thorough": 3000},
                 shrink=False),
            Part("perm_nonsquare_tall", prop_perm_tall, kind="enum",
                 cases=lambda t: _mine(tall_cases(t)),
                 budget_s={"quick": 120, "thorough": 1200}),
            Part("perm", prop_perm, kind="enum", cases=lambda t: _mine(perm_patterns(t)),
                 budget_s={"quick": 70, "thorough": 6000}),
            Part("perm_nonsquare_regress", prop_perm, kind="enum",
                 cases=lambda t: _mine(perm_nonsquare_regress(t)),
                 budget_s={"quick": 30, "thorough": 300}),
            Part("perm_large", prop_perm_large, strategy=perm_large_case(),
                 examples=ex(24, 600), budget_s={"quick": 20, "thorough": 3000}),
            Part("jax_batch_normalize", prop_circuit, kind="enum",
                 cases=lambda t: _mine(jax_batch_normalize_cases(t)),
                 budget_s={"quick": 60, "thorough": 600}),
            Part("jax_eager", prop_circuit, strategy=circuit_case("jax", JAX_EAGER),
                 examples=ex(20, 400), budget_s={"quick": 100, "thorough": 6000}),
            Part("jax_jit", prop_circuit,
                 strategy=circuit_case("jax", JAX_COMPILED, max_gates=4),
                 examples=ex(8, 100), budget_s={"quick": 70, "thorough": 6000},
                 shrink=False),
        ]
    if _ONLY_PARTS:
        ps = [p for p in ps if p.name in _ONLY_PARTS]
    if os.environ.get("C10_NOSHRINK"):  # sensitivity runs only need the bucket
        for p in ps:
            p.shrink = False
    return ps
