"""Rebuild piquasso's native extension modules from the *working tree* of the repository.

The interpreter's site-packages holds pre-built copies of `permanent`, `torontonian`,
`pfaffian` and `_jax_perm_core` which do not follow edits under <repo>/src.  Every check
therefore compiles them from the repository sources (cached by content hash under
/verif/.build) and `lib.bootstrap` pre-seeds `sys.modules` with the fresh modules.
"""

from __future__ import annotations

import hashlib
import os
import shutil
import subprocess
import sys
import sysconfig
from pathlib import Path

VERIF = Path(__file__).resolve().parent.parent
BUILD = VERIF / ".build"

PYBIND_INC = "/venv/lib/python3.12/site-packages/tensorflow/include/external/pybind11/include"

MODULES = {
    # module name -> (wrapper, [library sources], qualified name, needs_xla)
    "permanent": (
        "piquasso/_math/permanent.cpp",
        ["src/permanent.cpp", "src/permanent_laplace.cpp"],
        "piquasso._math.permanent",
        False,
    ),
    "torontonian": (
        "piquasso/_math/torontonian.cpp",
        ["src/torontonian.cpp", "src/loop_torontonian.cpp", "src/torontonian_common.cpp"],
        "piquasso._math.torontonian",
        False,
    ),
    "pfaffian": (
        "piquasso/_math/pfaffian.cpp",
        ["src/pfaffian.cpp"],
        "piquasso._math.pfaffian",
        False,
    ),
    "_jax_perm_core": (
        "src/jax_perm/jax_perm_core.cpp",
        ["src/permanent.cpp"],
        "piquasso.jax_extensions._jax_perm_core",
        True,
    ),
}


class NativeBuildError(RuntimeError):
    pass


def repo_root() -> Path:
    return Path(os.environ.get("PIQUASSO_REPO", "/repo"))


def _pybind_include() -> str:
    if os.path.isdir(PYBIND_INC):
        return PYBIND_INC
    try:
        import pybind11  # type: ignore

        return pybind11.get_include()
    except Exception as e:  # pragma: no cover
        raise NativeBuildError("pybind11 headers not found") from e


def _xla_include() -> str:
    # jax.ffi.include_dir() without importing the whole of jax when possible
    cand = "/venv/lib/python3.12/site-packages/jaxlib/include"
    if os.path.isdir(cand):
        return cand
    import jax

    return jax.ffi.include_dir()


def _hash_sources(repo: Path, flags: list[str]) -> str:
    h = hashlib.sha256()
    for sub in ("src", "piquasso/_math", "src/jax_perm"):
        d = repo / sub
        for p in sorted(d.iterdir()):
            if p.suffix in (".cpp", ".hpp", ".h"):
                h.update(p.name.encode())
                h.update(p.read_bytes())
    h.update(" ".join(flags).encode())
    return h.hexdigest()[:20]


def _flags() -> list[str]:
    return ["-O2", "-std=c++17", "-fPIC", "-shared", "-fopenmp", "-fvisibility=hidden"]


def build(names: list[str] | None = None) -> dict[str, Path]:
    """Build (or fetch from cache) the requested native modules; returns name -> .so"""
    repo = repo_root()
    names = names or list(MODULES)
    flags = _flags()
    digest = _hash_sources(repo, flags)
    out_dir = BUILD / "native" / digest
    out_dir.mkdir(parents=True, exist_ok=True)
    ext = sysconfig.get_config_var("EXT_SUFFIX") or ".so"
    pyinc = sysconfig.get_paths()["include"]
    result: dict[str, Path] = {}
    for name in names:
        wrapper, libs, _qual, needs_xla = MODULES[name]
        so = out_dir / f"{name}{ext}"
        result[name] = so
        if so.exists():
            continue
        cmd = ["g++", *flags, f"-I{pyinc}", f"-I{_pybind_include()}", f"-I{repo / 'src'}"]
        if needs_xla:
            cmd.append(f"-I{_xla_include()}")
        cmd += [str(repo / wrapper), *[str(repo / s) for s in libs]]
        tmp = out_dir / f".{name}.{os.getpid()}{ext}"
        cmd += ["-o", str(tmp)]
        proc = subprocess.run(cmd, capture_output=True, text=True)
        if proc.returncode != 0:
            raise NativeBuildError(
                f"building {name} failed:\n{' '.join(cmd)}\n{proc.stderr[-4000:]}"
            )
        os.replace(tmp, so)
    _prune(out_dir)
    return result


def _prune(keep: Path) -> None:
    root = BUILD / "native"
    try:
        dirs = sorted(
            (d for d in root.iterdir() if d.is_dir()), key=lambda d: d.stat().st_mtime
        )
    except OSError:
        return
    import time

    for d in dirs[:-3]:
        # never remove a directory another run may still be building into
        try:
            if d != keep and time.time() - d.stat().st_mtime > 6 * 3600:
                shutil.rmtree(d, ignore_errors=True)
        except OSError:  # removed by a concurrent run
            pass


def build_parallel(names: list[str] | None = None) -> dict[str, Path]:
    """Build modules concurrently (one compiler process each)."""
    from concurrent.futures import ThreadPoolExecutor

    names = names or list(MODULES)
    with ThreadPoolExecutor(len(names)) as ex:
        parts = list(ex.map(lambda n: build([n]), names))
    out: dict[str, Path] = {}
    for p in parts:
        out.update(p)
    return out


if __name__ == "__main__":
    for k, v in build_parallel(sys.argv[1:] or None).items():
        print(k, v)
