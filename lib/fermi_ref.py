"""Independent dense reference for fermionic circuits on d <= 5 modes (C17).

Everything is built from the textbook Jordan-Wigner definition

    f_k = Z^{(x)k} (x) s (x) 1^{(x)(d-k-1)},   s = |0><1| = [[0, 1], [0, 0]],

on C^{2^d} with the computational basis |n_0 n_1 ... n_{d-1}> (mode 0 is the most
significant bit), so that |n> = (f_0^+)^{n_0} ... (f_{d-1}^+)^{n_{d-1}} |vac> with a plus
sign.  Gates are `scipy.linalg.expm` of the generators *documented* in piquasso
(`piquasso/instructions/gates.py`, `piquasso/fermionic/instructions.py`); no piquasso code
is imported here.

Conventions that the documentation does not fix unambiguously (see ASSUMPTIONS of
checks/c17_fermionic.py) are collected in the two constants below; each was calibrated
once on a one-gate / zero-gate program and is then used for every multi-gate case.

MAJORANA_ORDER = "xpxp"
    The package docstring defines m = [x_1..x_d, p_1..p_d] (Eq. "majorana") and both
    `covariance_matrix` docstrings refer to it, but `get_majorana_operators`,
    `_transform_to_majorana_basis` and the IsingXX docstring ("X(x)X = -i m_2 m_3", which
    under Jordan-Wigner is only true for m = [x_1, p_1, x_2, p_2]) use the interleaved
    order.  Calibrated on NumberState([1, 0]) with no gate.

QUADRATIC_FORM = "F H F^+ with F = [f_1..f_d, f_1^+..f_d^+]"
    GaussianHamiltonian documents H^ = **f** H **f**^+ with the package-level
    **f** = [f_1^+..f_d^+, f_1..f_d]; ParentHamiltonian documents H^ = **f**^+ H **f**.
    The second reading (equivalently F H F^+ with F = **f**^+) is what
    `get_fermionic_hamiltonian` spells out; it is used for both instructions.
    Calibrated on GaussianHamiltonian(diag(-a, a)) on one mode.
"""

from __future__ import annotations

import itertools

import numpy as np
from scipy.linalg import expm, schur

MAJORANA_ORDER = "xpxp"

_Z = np.diag([1.0, -1.0]).astype(complex)
_I = np.eye(2, dtype=complex)
_S = np.array([[0, 1], [0, 0]], dtype=complex)  # annihilates: s|1> = |0>


def _kron(ops):
    out = np.array([[1.0 + 0j]])
    for o in ops:
        out = np.kron(out, o)
    return out


_LADDER_CACHE: dict[int, tuple[list, list]] = {}


def ladder(d: int):
    """(f, fdag): lists of 2^d x 2^d Jordan-Wigner matrices."""
    if d not in _LADDER_CACHE:
        fs = [_kron([_Z] * k + [_S] + [_I] * (d - k - 1)) for k in range(d)]
        _LADDER_CACHE[d] = (fs, [f.conj().T for f in fs])
    return _LADDER_CACHE[d]


def check_car(d: int) -> float:
    """Largest deviation from the canonical anticommutation relations."""
    fs, fd = ladder(d)
    dim = 2 ** d
    err = 0.0
    for i in range(d):
        for j in range(d):
            a = fs[i] @ fd[j] + fd[j] @ fs[i] - (np.eye(dim) if i == j else 0)
            b = fs[i] @ fs[j] + fs[j] @ fs[i]
            err = max(err, np.abs(a).max(), np.abs(b).max())
    return err


def majoranas(d: int, order: str = MAJORANA_ORDER):
    """x_k = f_k + f_k^+, p_k = -i (f_k - f_k^+) in the requested ordering."""
    fs, fd = ladder(d)
    xs = [fs[k] + fd[k] for k in range(d)]
    ps = [-1j * (fs[k] - fd[k]) for k in range(d)]
    if order == "xxpp":
        return xs + ps
    return [m for k in range(d) for m in (xs[k], ps[k])]


def occupations(d: int):
    """All occupation tuples in the order of the computational basis."""
    return list(itertools.product((0, 1), repeat=d))


def basis_index(occ) -> int:
    i = 0
    for n in occ:
        i = 2 * i + int(n)
    return i


def basis_state(occ) -> np.ndarray:
    v = np.zeros(2 ** len(occ), dtype=complex)
    v[basis_index(occ)] = 1.0
    return v


def number_operator_total(d: int) -> np.ndarray:
    return np.diag([float(sum(o)) for o in occupations(d)]).astype(complex)


def parity_operator(d: int) -> np.ndarray:
    return np.diag([(-1.0) ** sum(o) for o in occupations(d)]).astype(complex)


# ---------------------------------------------------------------------------- generators

def hermitian_log(u: np.ndarray) -> np.ndarray:
    """A self-adjoint A with exp(iA) = u for a unitary (normal) u.

    Complex Schur of a normal matrix is diagonal with an orthonormal basis even for
    degenerate spectra (permutations, identity); the branch of the angles is irrelevant
    for the many-body operator because occupation numbers are integers.
    """
    t, v = schur(np.asarray(u, dtype=complex), output="complex")
    theta = np.angle(np.diag(t))
    return (v * theta) @ v.conj().T


def gen_interferometer(d: int, modes, u: np.ndarray) -> np.ndarray:
    """i * sum_ab A_ab f_{modes[a]}^+ f_{modes[b]} with u = exp(iA)."""
    fs, fd = ladder(d)
    a = hermitian_log(u)
    g = np.zeros((2 ** d, 2 ** d), dtype=complex)
    for x, mx in enumerate(modes):
        for y, my in enumerate(modes):
            g += 1j * a[x, y] * fd[mx] @ fs[my]
    return g


def beamsplitter_matrix(theta: float, phi: float) -> np.ndarray:
    """The documented transfer matrix [[t, -conj(r)], [r, t]]."""
    t = np.cos(theta)
    r = np.exp(1j * phi) * np.sin(theta)
    return np.array([[t, -np.conj(r)], [r, t]], dtype=complex)


def gen_beamsplitter_formula(d: int, modes, theta: float, phi: float) -> np.ndarray:
    """The documented exponent theta e^{i phi} f_i^+ f_j - theta e^{-i phi} f_j^+ f_i."""
    fs, fd = ladder(d)
    i, j = modes
    return (theta * np.exp(1j * phi) * fd[i] @ fs[j]
            - theta * np.exp(-1j * phi) * fd[j] @ fs[i])


def gen_phaseshifter(d: int, modes, phi: float) -> np.ndarray:
    fs, fd = ladder(d)
    (i,) = modes
    return 1j * phi * fd[i] @ fs[i]


def gen_squeezing2(d: int, modes, r: float, phi: float) -> np.ndarray:
    """(conj(z) f_j f_i - z f_i^+ f_j^+) / 2.

    The docstring says "the bosonic ladder operators are just exchanged to fermionic
    ones" in (conj(z) a_i a_j - z a_i^+ a_j^+)/2; taken literally that operator is
    self-adjoint for fermions (a_i a_j = -a_j a_i), so its exponential is not unitary.
    The anti-Hermitian ordering used here is the one that reproduces the action the same
    docstring prints for |00> and |11> (asserted in `selftest`).
    """
    fs, fd = ladder(d)
    i, j = modes
    z = r * np.exp(1j * phi)
    return 0.5 * (np.conj(z) * fs[j] @ fs[i] - z * fd[i] @ fd[j])


def gen_ising_xx(d: int, modes, phi: float) -> np.ndarray:
    """i phi (-i m_2 m_3) on the two modes, m = [x_i, p_i, x_j, p_j] (1-based m_2 m_3)."""
    fs, fd = ladder(d)
    i, j = modes
    p_i = -1j * (fs[i] - fd[i])
    x_j = fs[j] + fd[j]
    return 1j * phi * (-1j) * p_i @ x_j


def quadratic_operator(d: int, modes, h: np.ndarray) -> np.ndarray:
    """F H F^+ with F = [f_m.., f_m^+..] over the listed modes (see module docstring)."""
    fs, fd = ladder(d)
    k = len(modes)
    big_f = [fs[m] for m in modes] + [fd[m] for m in modes]
    op = np.zeros((2 ** d, 2 ** d), dtype=complex)
    for a in range(2 * k):
        for b in range(2 * k):
            if h[a, b] != 0:
                op += h[a, b] * big_f[a] @ big_f[b].conj().T
    return op


def gen_gaussian_hamiltonian(d: int, modes, h: np.ndarray) -> np.ndarray:
    return 1j * quadratic_operator(d, modes, h)


def gate_unitary(d: int, gate: dict, matrix_of=None) -> np.ndarray:
    """Dense unitary of one gate description {"g", "modes", "p"}.

    `matrix_of(gate)` supplies the (deterministically rebuilt) matrix for Interferometer
    and GaussianHamiltonian descriptions.
    """
    g, modes, p = gate["g"], list(gate["modes"]), gate.get("p", {})
    if g == "Interferometer":
        gen = gen_interferometer(d, modes, matrix_of(gate))
    elif g == "Beamsplitter":
        gen = gen_interferometer(d, modes, beamsplitter_matrix(p["theta"], p["phi"]))
    elif g == "Phaseshifter":
        gen = gen_phaseshifter(d, modes, p["phi"])
    elif g == "Squeezing2":
        gen = gen_squeezing2(d, modes, p["r"], p["phi"])
    elif g == "IsingXX":
        gen = gen_ising_xx(d, modes, p["phi"])
    elif g == "GaussianHamiltonian":
        gen = gen_gaussian_hamiltonian(d, modes, matrix_of(gate))
    else:
        raise ValueError(f"no reference for gate {g}")
    return expm(gen)


# ---------------------------------------------------------------------------- states

def thermal_state(d: int, h: np.ndarray) -> np.ndarray:
    """rho = e^{H^}/Tr e^{H^} with H^ = **f**^+ H **f** (ParentHamiltonian docstring)."""
    op = quadratic_operator(d, list(range(d)), h)
    op = (op + op.conj().T) / 2
    w, v = np.linalg.eigh(op)
    e = np.exp(w - w.max())
    rho = (v * e) @ v.conj().T
    return rho / np.trace(rho).real


def probabilities(rho: np.ndarray) -> np.ndarray:
    """Occupation probabilities in computational-basis order (see `occupations`)."""
    return np.real(np.diag(rho)).copy()


def covariance(rho: np.ndarray, d: int, order: str = MAJORANA_ORDER) -> np.ndarray:
    """Sigma_ij = -i Tr(rho [m_i, m_j]) / 2."""
    ms = majoranas(d, order)
    rm = [rho @ m for m in ms]
    out = np.zeros((2 * d, 2 * d))
    for i in range(2 * d):
        for j in range(2 * d):
            if i != j:
                c = np.trace(rm[i] @ ms[j]) - np.trace(rm[j] @ ms[i])
                out[i, j] = np.real(-0.5j * c)
    return out


def parity(rho: np.ndarray, d: int) -> float:
    return float(np.real(np.trace(rho @ parity_operator(d))))


def number_distribution(probs: np.ndarray, d: int) -> np.ndarray:
    out = np.zeros(d + 1)
    for o, p in zip(occupations(d), probs):
        out[sum(o)] += p
    return out


def run(d: int, occ, gates, matrix_of=None, rho0=None):
    """Density matrix after the gate sequence, starting from |occ><occ| or rho0."""
    if rho0 is None:
        v = basis_state(occ)
        rho = np.outer(v, v.conj())
    else:
        rho = rho0
    for g in gates:
        u = gate_unitary(d, g, matrix_of)
        rho = u @ rho @ u.conj().T
    return rho


def run_vector(d: int, vec: np.ndarray, gates, matrix_of=None) -> np.ndarray:
    for g in gates:
        vec = gate_unitary(d, g, matrix_of) @ vec
    return vec


# ---------------------------------------------------------------------------- self test

def selftest() -> None:
    """Internal consistency of the reference with the statements printed in the docs."""
    for d in (1, 2, 3):
        assert check_car(d) < 1e-14
    # |n> = prod (f_k^+)^{n_k} |vac> in ascending order, plus sign
    d = 3
    fs, fd = ladder(d)
    for occ in occupations(d):
        v = basis_state((0,) * d)
        for k in reversed(range(d)):
            if occ[k]:
                v = fd[k] @ v
        assert np.allclose(v, basis_state(occ))
    # Squeezing2 docstring: S|00> = cos(r/2)|00> - e^{i phi} sin(r/2)|11>, etc.
    r, phi = 0.7, 0.4
    s = expm(gen_squeezing2(2, [0, 1], r, phi))
    assert np.allclose(s @ s.conj().T, np.eye(4))
    assert np.allclose(s @ basis_state((0, 0)),
                       np.cos(r / 2) * basis_state((0, 0))
                       - np.exp(1j * phi) * np.sin(r / 2) * basis_state((1, 1)))
    assert np.allclose(s @ basis_state((1, 1)),
                       np.cos(r / 2) * basis_state((1, 1))
                       + np.exp(-1j * phi) * np.sin(r / 2) * basis_state((0, 0)))
    # IsingXX docstring: exp(i phi X(x)X) = cos phi + i sin phi X(x)X, X(x)X = -i m_2 m_3
    x = np.array([[0, 1], [1, 0]], dtype=complex)
    xx = np.kron(x, x)
    assert np.allclose(expm(gen_ising_xx(2, [0, 1], phi)),
                       np.cos(phi) * np.eye(4) + 1j * np.sin(phi) * xx)
    # Interferometer: U is the one-particle unitary
    rng = np.random.Generator(np.random.PCG64(5))
    zm = rng.normal(size=(3, 3)) + 1j * rng.normal(size=(3, 3))
    u, _ = np.linalg.qr(zm)
    big = expm(gen_interferometer(3, [0, 1, 2], u))
    one = [basis_state(o) for o in ((1, 0, 0), (0, 1, 0), (0, 0, 1))]
    got = np.array([[a.conj() @ big @ b for b in one] for a in one])
    assert np.allclose(got, u)
    assert np.allclose(expm(1j * hermitian_log(np.eye(3)[[1, 2, 0]])), np.eye(3)[[1, 2, 0]])
    # Phaseshifter
    assert np.allclose(expm(gen_phaseshifter(1, [0], phi)), np.diag([1, np.exp(1j * phi)]))


selftest()
