"""Independent qubit state-vector reference for JSON circuit descriptions (used by C19).

Trusted base: the gate *matrices* are Qiskit's own definitions (`gate.to_matrix()` of the
standard-library gate classes, cross-checked once against `quantum_info.Operator(gate)`);
everything else (state evolution, little-endian bookkeeping, measurement branching,
classically conditioned blocks) is written here and does not call a Qiskit simulator.

Circuit description (plain JSON):

    {"n": 2, "ncl": 2, "ops": [
        {"g": "h",  "q": [0]},
        {"g": "rx", "q": [1], "p": [0.3]},
        {"g": "cz", "q": [0, 1]},
        {"g": "measure", "q": [0], "c": 0},
        {"g": "if", "c": 0, "v": 1, "body": [{"g": "x", "q": [1]}], "orelse": []},
    ]}

Bit order: Qiskit is little-endian, i.e. the computational-basis index of a state is
`sum(bit[q] << q)` and the matrix of a gate applied as `gate(a, b)` is indexed by
`bit[a] + 2*bit[b]`.  Here the state is an n-axis tensor whose axis `n-1-q` is qubit `q`
(so that `tensor.reshape(-1)[index]` is the little-endian amplitude) and this convention
is applied explicitly in `apply_gate`.

Measurement semantics: `measure(q -> c)` splits every branch into the outcomes of non-zero
probability, writes the bit into clbit `c` and leaves the (collapsed) qubit in place;
`if` applies `body` when clbit `c` (0 if never written) equals `v`, else `orelse`.
"""

from __future__ import annotations

import itertools
from dataclasses import dataclass, field

import numpy as np

GATE_ARITY = {
    "h": (1, 0), "x": (1, 0), "y": (1, 0), "z": (1, 0),
    "rx": (1, 1), "ry": (1, 1), "rz": (1, 1), "p": (1, 1), "u": (1, 3),
    "cz": (2, 0), "cx": (2, 0),
}
ENTANGLING = ("cz", "cx")
#: probabilities below this are treated as "outcome impossible" when branching
P_ZERO = 1e-300


def _gate_class(name: str):
    from qiskit.circuit import library as L

    return {
        "h": L.HGate, "x": L.XGate, "y": L.YGate, "z": L.ZGate,
        "rx": L.RXGate, "ry": L.RYGate, "rz": L.RZGate, "p": L.PhaseGate, "u": L.UGate,
        "cz": L.CZGate, "cx": L.CXGate,
    }[name]


def qiskit_gate(name: str, params=()):
    """The Qiskit standard-library gate object for a description entry."""
    nq, npar = GATE_ARITY[name]
    if len(params) != npar:
        raise ValueError(f"gate {name} takes {npar} parameters, got {len(params)}")
    return _gate_class(name)(*[float(x) for x in params])


def gate_matrix(name: str, params=()) -> np.ndarray:
    """Matrix of the gate as defined by Qiskit (little-endian for two-qubit gates)."""
    return np.asarray(qiskit_gate(name, params).to_matrix(), dtype=complex)


def apply_gate(state: np.ndarray, mat: np.ndarray, qubits, n: int) -> np.ndarray:
    """Apply `mat` (2^k x 2^k, Qiskit little-endian over `qubits`) to an n-axis tensor."""
    k = len(qubits)
    if len(set(qubits)) != k:
        raise ValueError(f"repeated qubits {qubits}")
    # matrix index = sum(bit[qubits[j]] << j): as a tensor its first output axis is the
    # most significant bit, i.e. qubits[k-1]; same for the input axes.
    m = mat.reshape((2,) * (2 * k))
    in_axes_of_m = list(range(k, 2 * k))                 # m's input axes: qubits[k-1..0]
    state_axes = [n - 1 - qubits[k - 1 - j] for j in range(k)]
    out = np.tensordot(m, state, axes=(in_axes_of_m, state_axes))
    # tensordot puts m's output axes (qubits[k-1..0]) first, then the untouched axes in
    # their original order; move them back.
    return np.moveaxis(out, list(range(k)), state_axes)


@dataclass
class RefBranch:
    prob: float                                  # probability of this measurement record
    clbits: tuple                                # value of every clbit (0 if unwritten)
    written: tuple                               # which clbits were written
    record: tuple = field(default_factory=tuple)  # ((qubit, clbit, bit), ...) in time order
    state: np.ndarray | None = None              # normalised n-axis tensor

    def probabilities(self) -> np.ndarray:
        """Little-endian computational-basis probabilities of the final state."""
        return (np.abs(self.state) ** 2).reshape(-1)


def _apply_ops(branches, ops, n):
    for op in ops:
        g = op["g"]
        if g == "measure":
            (q,), c = op["q"], op["c"]
            ax = n - 1 - q
            new = []
            for b in branches:
                for bit in (0, 1):
                    sl = [slice(None)] * n
                    sl[ax] = 1 - bit
                    proj = b.state.copy()
                    proj[tuple(sl)] = 0.0
                    p = float(np.vdot(proj, proj).real)
                    if p <= P_ZERO:
                        continue
                    cl = list(b.clbits)
                    cl[c] = bit
                    wr = list(b.written)
                    wr[c] = True
                    new.append(RefBranch(b.prob * p, tuple(cl), tuple(wr),
                                         b.record + ((q, c, bit),), proj / np.sqrt(p)))
            branches = new
        elif g == "if":
            c, v = op["c"], op["v"]
            hit = [b for b in branches if b.clbits[c] == v]
            miss = [b for b in branches if b.clbits[c] != v]
            hit = _apply_ops(hit, op.get("body", []), n)
            miss = _apply_ops(miss, op.get("orelse", []) or [], n)
            branches = hit + miss
        else:
            mat = gate_matrix(g, op.get("p", ()))
            if len(op["q"]) != GATE_ARITY[g][0]:
                raise ValueError(f"gate {g} on qubits {op['q']}")
            for b in branches:
                b.state = apply_gate(b.state, mat, op["q"], n)
    return branches


def simulate(desc) -> list[RefBranch]:
    """Exact enumeration of all measurement branches of a circuit description."""
    n, ncl = int(desc["n"]), int(desc.get("ncl", desc["n"]))
    psi = np.zeros((2,) * n, dtype=complex)
    psi[(0,) * n] = 1.0
    start = RefBranch(1.0, (0,) * ncl, (False,) * ncl, (), psi)
    return _apply_ops([start], desc["ops"], n)


def clbit_distribution(desc) -> dict:
    """Exact distribution of the classical register (tuple indexed by clbit)."""
    out: dict = {}
    for b in simulate(desc):
        out[b.clbits] = out.get(b.clbits, 0.0) + b.prob
    return out


def qubit_outcome_distribution(desc) -> dict:
    """Joint distribution over one bit per qubit: the recorded outcome for a qubit that was
    measured (every qubit may be measured at most once and must not be touched afterwards),
    the final computational-basis bit for the others.  Key: tuple indexed by qubit."""
    n = int(desc["n"])
    out: dict = {}
    for b in simulate(desc):
        fixed = {}
        for q, _c, bit in b.record:
            if q in fixed:
                raise ValueError(f"qubit {q} measured twice")
            fixed[q] = bit
        probs = b.probabilities()
        for idx in range(2 ** n):
            p = float(probs[idx])
            if p <= 0.0:
                continue
            bits = tuple((idx >> q) & 1 for q in range(n))
            if any(bits[q] != v for q, v in fixed.items()):
                raise AssertionError("collapsed qubit changed after its measurement")
            out[bits] = out.get(bits, 0.0) + b.prob * p
    return out


def final_probabilities(desc) -> np.ndarray:
    """Little-endian probabilities of the final state averaged over the branches."""
    n = int(desc["n"])
    acc = np.zeros(2 ** n)
    for b in simulate(desc):
        acc += b.prob * b.probabilities()
    return acc


def iter_gates(ops):
    """All non-control-flow entries, recursing into conditioned blocks."""
    for op in ops:
        if op["g"] == "if":
            yield from iter_gates(op.get("body", []))
            yield from iter_gates(op.get("orelse", []) or [])
        else:
            yield op


_selftest_done = False


def selftest() -> None:
    """Harness health check (raises AssertionError): the hand-written little-endian
    evolution reproduces `qiskit.quantum_info.Operator` on fixed unitary circuits, and
    `to_matrix()` equals `Operator(gate)` for every gate of the set."""
    global _selftest_done
    if _selftest_done:
        return
    from qiskit import QuantumCircuit
    from qiskit.quantum_info import Operator

    for name, (nq, npar) in GATE_ARITY.items():
        params = [0.37 + 0.61 * j for j in range(npar)]
        a = gate_matrix(name, params)
        b = np.asarray(Operator(qiskit_gate(name, params)).data)
        assert np.allclose(a, b, atol=1e-14), f"to_matrix != Operator for {name}"
    ops = [
        {"g": "h", "q": [0]}, {"g": "ry", "q": [2], "p": [0.7]}, {"g": "cx", "q": [0, 2]},
        {"g": "u", "q": [1], "p": [0.3, -1.1, 2.2]}, {"g": "cx", "q": [2, 1]},
        {"g": "rz", "q": [0], "p": [0.9]}, {"g": "cz", "q": [1, 0]}, {"g": "rx", "q": [2], "p": [-0.4]},
        {"g": "p", "q": [1], "p": [1.3]}, {"g": "y", "q": [0]}, {"g": "cx", "q": [1, 2]},
    ]
    qc = QuantumCircuit(3)
    for op in ops:
        qc.append(qiskit_gate(op["g"], op.get("p", ())), op["q"])
    want = np.asarray(Operator(qc).data)[:, 0]
    (b,) = simulate({"n": 3, "ncl": 0, "ops": ops})
    assert np.allclose(b.state.reshape(-1), want, atol=1e-12), "little-endian evolution wrong"
    for perm in itertools.permutations(range(3), 2):
        for g in ENTANGLING:
            qc = QuantumCircuit(3)
            pre = [{"g": "ry", "q": [j], "p": [0.4 + j]} for j in range(3)]
            for op in pre:
                qc.append(qiskit_gate(op["g"], op["p"]), op["q"])
            qc.append(qiskit_gate(g), list(perm))
            want = np.asarray(Operator(qc).data)[:, 0]
            (b,) = simulate({"n": 3, "ncl": 0, "ops": pre + [{"g": g, "q": list(perm)}]})
            assert np.allclose(b.state.reshape(-1), want, atol=1e-12), (g, perm)
    _selftest_done = True
