"""C10 helpers: circuit descriptions with an explicit parameter vector, builders that work
for the NumPy / TensorFlow / JAX connectors alike, output selectors, the finite-difference
oracle and the exact permanent helpers.

A *circuit* is a JSON dict

    {"d": 2, "cutoff": 5,
     "prep": {...progs.prep...}                      # single state, or
     "batch": [{"prep": {...}, "gates": [...]}, ...] # BatchPrepare sub-programs
     "gates": [{"g": "Squeezing", "modes": [1]}, ...,
               {"g": "BatchApply", "subs": [[...gates...], [...]]}],
     "out": {"kind": "prob", "idx": [3, 0], "normalize": false}}

Gates carry no values: every real gate parameter is an entry of the parameter vector
`theta`, enumerated by `slots(circ)` in program order (batch preparations first).  An
`Interferometer` on k modes owns k*k entries, the coordinates of a Hermitian H in a fixed
basis; the harness builds U = expm(i H) with the framework's own differentiable expm.
"""

from __future__ import annotations

import itertools
import math

import numpy as np

from . import progs

# gate -> (number of modes or None, parameter names)
GATES = {
    "Displacement": (1, ["r", "phi"]),
    "PositionDisplacement": (1, ["x"]),
    "MomentumDisplacement": (1, ["p"]),
    "Squeezing": (1, ["r", "phi"]),
    "Phaseshifter": (1, ["phi"]),
    "Beamsplitter": (2, ["theta", "phi"]),
    "MachZehnder": (2, ["int_", "ext"]),
    "Kerr": (1, ["xi"]),
    "CrossKerr": (2, ["xi"]),
    "Squeezing2": (2, ["r", "phi"]),
    "QuadraticPhase": (1, ["s"]),
    "CubicPhase": (1, ["gamma"]),
    "Interferometer": (None, None),
    # parameterless fillers (only the state-vector part of the rules is exercised)
    "Beamsplitter5050": (2, []),
    "Fourier": (1, []),
    # Squeezing2 with the angle held at 0 (see FIXED)
    "Squeezing2_phi0": (2, ["r"]),
}

# pseudo-gates: piquasso class and constant keyword arguments
FIXED = {"Squeezing2_phi0": ("Squeezing2", {"phi": 0.0})}


def gate_nparams(g) -> int:
    if g["g"] == "Interferometer":
        return len(g["modes"]) ** 2
    return len(GATES[g["g"]][1])


def all_gates(circ):
    """Gates in parameter order: batch preparations, then the main list (BatchApply
    expanded in place).  Yields (where, gate)."""
    for b, sub in enumerate(circ.get("batch") or []):
        for g in sub["gates"]:
            yield f"prep{b}", g
    for g in circ["gates"]:
        if g["g"] == "BatchApply":
            for b, sub in enumerate(g["subs"]):
                for h in sub:
                    yield f"apply{b}", h
        else:
            yield "main", g


def slots(circ):
    """[(gate name, parameter label, where)] for every entry of theta."""
    out = []
    for where, g in all_gates(circ):
        if g["g"] == "Interferometer":
            k = len(g["modes"])
            out += [("Interferometer", f"h{i}", where) for i in range(k * k)]
        else:
            out += [(g["g"], p, where) for p in GATES[g["g"]][1]]
    return out


def depth(circ) -> int:
    return sum(1 for _ in all_gates(circ))


def is_batch(circ) -> bool:
    return bool(circ.get("batch"))


# --------------------------------------------------------------------------------------
# Hermitian basis for the interferometer parametrisation


def hermitian_basis(k: int) -> np.ndarray:
    """(k*k, k, k) complex: E_ii, then (E_ij+E_ji), i(E_ij-E_ji) for i<j."""
    mats = []
    for i in range(k):
        m = np.zeros((k, k), dtype=complex)
        m[i, i] = 1
        mats.append(m)
    for i in range(k):
        for j in range(i + 1, k):
            m = np.zeros((k, k), dtype=complex)
            m[i, j] = m[j, i] = 1
            mats.append(m)
            m = np.zeros((k, k), dtype=complex)
            m[i, j] = 1j
            m[j, i] = -1j
            mats.append(m)
    return np.array(mats)


def unitary_numpy(vals, k):
    import scipy.linalg

    H = np.tensordot(np.asarray(vals, dtype=complex), hermitian_basis(k), 1)
    return scipy.linalg.expm(1j * H)


# --------------------------------------------------------------------------------------
# building programs


class _Counter:
    def __init__(self):
        self.k = 0


def _make_gate(pq, g, theta, cnt, unitary):
    name = g["g"]
    if name == "Interferometer":
        k = len(g["modes"])
        vals = [theta[cnt.k + i] for i in range(k * k)]
        cnt.k += k * k
        return pq.Interferometer(unitary(vals, k))
    cls, kw = FIXED.get(name, (name, {}))
    kw = dict(kw)
    for p in GATES[name][1]:
        kw[p] = theta[cnt.k]
        cnt.k += 1
    return getattr(pq, cls)(**kw)


def build_program(pq, circ, theta, unitary):
    """The piquasso Program of `circ` with parameters read from the indexable `theta`."""
    d = circ["d"]
    cnt = _Counter()
    subs = []
    for sub in circ.get("batch") or []:
        with pq.Program() as sp:
            progs.add_prep(pq, "PF", sub["prep"], d)
            for g in sub["gates"]:
                pq.Q(*g["modes"]) | _make_gate(pq, g, theta, cnt, unitary)
        subs.append(sp)
    # BatchApply sub-programs must exist before the main program context is entered
    applies = {}
    main_items = []
    # parameters are consumed in program order, so build the gate objects first
    for i, g in enumerate(circ["gates"]):
        if g["g"] == "BatchApply":
            sps = []
            for sub in g["subs"]:
                with pq.Program() as sp:
                    for h in sub:
                        pq.Q(*h["modes"]) | _make_gate(pq, h, theta, cnt, unitary)
                sps.append(sp)
            applies[i] = sps
            main_items.append(None)
        else:
            main_items.append(_make_gate(pq, g, theta, cnt, unitary))
    with pq.Program() as program:
        if subs:
            pq.Q() | pq.BatchPrepare(subs)
        else:
            progs.add_prep(pq, "PF", circ["prep"], d)
        for i, g in enumerate(circ["gates"]):
            if g["g"] == "BatchApply":
                pq.Q() | pq.BatchApply(applies[i])
            else:
                pq.Q(*g["modes"]) | main_items[i]
    return program


def fock_dim(d, cutoff):
    return math.comb(d + cutoff - 1, d)


def target_vector(seed, dim):
    rng = progs.rng_of(seed)
    t = rng.normal(size=dim) + 1j * rng.normal(size=dim)
    return t / np.linalg.norm(t)


def output_items(state, out, xp, batch: bool, dim: int):
    """List of framework tensors (real) selected by `out`; works for single and batch
    states through the public state interface."""
    kind = out["kind"]
    if out.get("normalize") and kind != "norm":
        state.normalize()
    if kind == "prob":
        fp = state.fock_probabilities
        if batch:
            return [p[i % dim] for p in fp for i in out["idx"]]
        return [fp[i % dim] for i in out["idx"]]
    if kind == "mean_photon":
        return [state.mean_photon_number()]
    if kind == "mean_position":
        return [state.mean_position(out["mode"])]
    if kind == "norm":
        n = state.norm
        return list(n) if batch else [n]
    sv = state.state_vector
    if kind == "fidelity":
        t = target_vector(out["seed"], dim)
        if batch:
            v = xp.sum(xp.conj(t)[:, None] * sv, axis=0)
        else:
            v = xp.sum(xp.conj(t) * sv)
        return [xp.real(v * xp.conj(v))]
    if kind == "state":
        return [xp.real(sv), xp.imag(sv)]
    if kind == "amp":
        items = []
        for i in out["idx"]:
            a = sv[i % dim]
            items += [xp.real(a), xp.imag(a)]
        return items
    raise KeyError(kind)


def out_labels(circ):
    """Human-readable label of every component of the output vector."""
    out, nb = circ["out"], len(circ.get("batch") or []) or 1
    kind = out["kind"]
    if kind == "state":
        n = 2 * fock_dim(circ["d"], circ["cutoff"]) * nb
        return [f"state[{i}]" for i in range(n)]
    if kind == "prob":
        return [f"p[{i}]@b{b}" for b in range(nb) for i in out["idx"]] if is_batch(circ) \
            else [f"p[{i}]" for i in out["idx"]]
    if kind == "amp":
        lab = []
        for i in out["idx"]:
            for part in ("re", "im"):
                lab += [f"{part} psi[{i}]@b{b}" for b in range(nb)] if is_batch(circ) \
                    else [f"{part} psi[{i}]"]
        return lab
    return [f"{kind}@b{b}" for b in range(nb)] if is_batch(circ) else [kind]


# --------------------------------------------------------------------------------------
# NumPy oracle

_NP_CONNECTOR = None


def numpy_output(pq, circ, theta) -> np.ndarray:
    global _NP_CONNECTOR
    if _NP_CONNECTOR is None:
        _NP_CONNECTOR = pq.NumpyConnector()
    d, cutoff = circ["d"], circ["cutoff"]
    sim = pq.PureFockSimulator(d=d, config=pq.Config(cutoff=cutoff),
                               connector=_NP_CONNECTOR)
    program = build_program(pq, circ, [float(t) for t in theta], unitary_numpy)
    state = sim.execute(program).state
    items = output_items(state, circ["out"], np, is_batch(circ), fock_dim(d, cutoff))
    return np.concatenate([np.ravel(np.asarray(x, dtype=float)) for x in items])


def central(f, x, h):
    x = np.asarray(x, dtype=float)
    cols = []
    for i in range(len(x)):
        e = np.zeros(len(x))
        e[i] = h
        cols.append((f(x + e) - f(x - e)) / (2 * h))
    return np.stack(cols, axis=-1)  # (..., k)


def richardson(f, x, h=1e-4):
    """O(h^4) central difference from steps h and h/2."""
    return (4.0 * central(f, x, h / 2) - central(f, x, h)) / 3.0


# --------------------------------------------------------------------------------------
# exact permanent with multiplicities (independent of every piquasso kernel)


def expand_indices(mult):
    return [i for i, r in enumerate(mult) for _ in range(int(r))]


def permanent_small(A, rows, cols) -> complex:
    """Sum over permutations of the multiplicity-expanded matrix (total <= 8)."""
    ri, cj = expand_indices(rows), expand_indices(cols)
    n = len(ri)
    if n != len(cj):
        raise ValueError("sum(rows) != sum(cols)")
    if n == 0:
        return 1.0 + 0j
    B = np.asarray(A, dtype=complex)[np.ix_(ri, cj)]
    # Ryser would be faster; the literal definition is the point here
    total = 0j
    for sigma in itertools.permutations(range(n)):
        t = 1.0 + 0j
        for i in range(n):
            t *= B[i, sigma[i]]
        total += t
    return total


def patterns(total, nrows, ncols=None):
    """All (rows, cols) multiplicity vectors of the given lengths with equal sum."""
    ncols = nrows if ncols is None else ncols

    def comps(n, k):
        if k == 1:
            yield (n,)
            return
        for first in range(n + 1):
            for rest in comps(n - first, k - 1):
                yield (first,) + rest

    for r in comps(total, nrows):
        for c in comps(total, ncols):
            yield list(r), list(c)


def permanent_tables_float(A, rows, cols) -> complex:
    """Permanent with multiplicities by the contingency-table recursion

        per = prod_j c_j! * sum_M prod_i [ r_i! / prod_j m_ij! * prod_j A_ij^m_ij ],

    M over non-negative integer matrices with row sums `rows` and column sums `cols`
    (complex128 arithmetic; all terms of |A| are positive, so the value for |A| is also the
    magnitude sum of the value for A).  Shares nothing with piquasso's Glynn kernels."""
    A = np.asarray(A, dtype=complex)
    rows = [int(r) for r in rows]
    cols = [int(c) for c in cols]
    if sum(rows) != sum(cols):
        raise ValueError("sum(rows) != sum(cols)")
    ncol = len(cols)
    states = {tuple(cols): 1.0 + 0j}
    for i, r in enumerate(rows):
        if r == 0:
            continue
        new: dict = {}

        def rec(j, left, state, acc, out):
            if j == ncol - 1:
                if left > state[j]:
                    return
                v = acc * A[i, j] ** left if left else acc
                key = out + (state[j] - left,)
                new[key] = new.get(key, 0j) + v
                return
            cap = sum(state[j + 1:])
            for m in range(max(0, left - cap), min(left, state[j]) + 1):
                w = acc * (math.comb(left, m) * (A[i, j] ** m if m else 1.0))
                rec(j + 1, left - m, state, w, out + (state[j] - m,))

        for state, val in states.items():
            rec(0, r, state, val, ())
        states = new
    val = states.get(tuple(0 for _ in cols), 0j)
    fac = 1
    for c in cols:
        fac *= math.factorial(c)
    return complex(val * fac)
