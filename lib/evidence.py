"""Write /verif/evidence/<id>.json, validated against the evidence schema."""

from __future__ import annotations

import json
from pathlib import Path

VERIF = Path(__file__).resolve().parent.parent
SCHEMA_PATHS = [Path("/root/.vp/EVIDENCE.schema.json"), VERIF / "lib" / "EVIDENCE.schema.json"]


def _schema():
    for p in SCHEMA_PATHS:
        if p.exists():
            return json.loads(p.read_text())
    return None


def write(pid: str, doc: dict) -> Path:
    schema = _schema()
    if schema is not None:
        import jsonschema

        jsonschema.validate(doc, schema)
    d = VERIF / "evidence"
    d.mkdir(exist_ok=True)
    p = d / f"{pid}.json"
    tmp = d / f".{pid}.json.tmp"
    tmp.write_text(json.dumps(doc, indent=1, sort_keys=True) + "\n")
    tmp.replace(p)
    return p
