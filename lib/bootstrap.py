"""Import piquasso from the repository working tree with freshly built native modules.

Usage (first import of every check):

    from lib import bootstrap
    pq = bootstrap.load()          # returns the piquasso package

`PIQUASSO_REPO` selects another checkout (used by the sensitivity protocol); default
/repo.  Nothing is ever written into the repository: numba's cache is redirected.
"""

from __future__ import annotations

import importlib.util
import os
import sys
from pathlib import Path

from . import native_build

VERIF = Path(__file__).resolve().parent.parent
GUARD = "PIQUASSO_VERIF"

_loaded = None


def _python_sources_digest(repo: Path) -> str:
    """Digest of every Python source of the package.

    numba's on-disk cache is keyed by the file of the jitted function only: an edit of a
    jitted *callee* in another file does not invalidate the cached callers, which would
    make a check run against stale compiled code.  The cache directory is therefore
    keyed by the content of the whole package."""
    import hashlib

    h = hashlib.sha256()
    for p in sorted((repo / "piquasso").rglob("*.py")):
        h.update(str(p.relative_to(repo)).encode())
        h.update(p.read_bytes())
    return h.hexdigest()[:16]


def prepare_env(threads: int | None = 1) -> None:
    """Environment that must be set before numba / OpenMP / piquasso are imported."""
    if "NUMBA_CACHE_DIR" not in os.environ:
        root = VERIF / ".build" / "numba"
        cache = root / _python_sources_digest(native_build.repo_root())
        cache.mkdir(parents=True, exist_ok=True)
        os.environ["NUMBA_CACHE_DIR"] = str(cache)
        _prune_numba(root, cache)
    os.environ.setdefault(GUARD, "1")
    os.environ.setdefault("TF_CPP_MIN_LOG_LEVEL", "3")
    os.environ.setdefault("JAX_PLATFORMS", "cpu")
    os.environ.setdefault("CUDA_VISIBLE_DEVICES", "")
    if threads is not None:
        for k in ("OMP_NUM_THREADS", "NUMBA_NUM_THREADS", "OPENBLAS_NUM_THREADS",
                  "MKL_NUM_THREADS"):
            os.environ.setdefault(k, str(threads))


def _prune_numba(root: Path, keep: Path) -> None:
    import shutil
    import time

    try:
        dirs = sorted((d for d in root.iterdir() if d.is_dir()), key=lambda d: d.stat().st_mtime)
    except OSError:
        return
    for d in dirs[:-4]:
        try:
            if d != keep and time.time() - d.stat().st_mtime > 6 * 3600:
                shutil.rmtree(d, ignore_errors=True)
        except OSError:  # removed by a concurrent run
            pass


def repo_root() -> Path:
    return native_build.repo_root()


def _load_ext(qualname: str, path: Path):
    spec = importlib.util.spec_from_file_location(qualname, str(path))
    if spec is None or spec.loader is None:
        raise ImportError(f"cannot load {qualname} from {path}")
    mod = importlib.util.module_from_spec(spec)
    spec.loader.exec_module(mod)
    sys.modules[qualname] = mod
    return mod


def load(native: bool = True, threads: int | None = 1):
    """Return the piquasso package imported from the working tree."""
    global _loaded
    if _loaded is not None:
        return _loaded
    prepare_env(threads)
    repo = repo_root()
    # The scikit-build editable finder redirects `piquasso` to the install-time
    # checkout and its stale binaries; drop it so the path below decides.
    sys.meta_path[:] = [
        f for f in sys.meta_path if type(f).__name__ != "ScikitBuildRedirectingFinder"
    ]
    sys.path[:] = [p for p in sys.path if os.path.realpath(p or ".") != "/repo"]
    sys.path.insert(0, str(repo))
    if native:
        sos = native_build.build_parallel()
        for name, so in sos.items():
            qual = native_build.MODULES[name][2]
            _load_ext(qual, so)
    import piquasso  # noqa: E402

    got = Path(piquasso.__file__).resolve().parent.parent
    if got != repo.resolve():
        raise ImportError(f"piquasso imported from {got}, expected {repo}")
    if native:
        import piquasso._math.permanent as _p

        want = str(native_build.build(["permanent"])["permanent"])
        if getattr(_p, "__file__", None) != want:
            raise ImportError("stale native permanent module in use")
    _loaded = piquasso
    return piquasso
