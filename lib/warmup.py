"""Warm numba's on-disk cache (NUMBA_CACHE_DIR=/verif/.build/numba) by exercising the
jitted kernels once, so that the first quick check after a fresh restore does not pay the
compilation in every shard.  Best effort: failures are reported, never fatal."""
from __future__ import annotations

import time
import warnings


def main():
    t0 = time.time()
    from lib import aprogs, bootstrap, progs

    pq = bootstrap.load()
    warnings.simplefilter("ignore")
    import numpy as np

    descs = [
        {"d": 3, "prep": {"kind": "number", "occ": [1, 1, 0]}, "gates": [
            {"g": "Beamsplitter", "modes": [2, 0], "p": {"theta": 0.3, "phi": 0.2}},
            {"g": "Interferometer", "modes": [0, 1, 2], "p": {"seed": 1, "kind": "haar"}},
            {"g": "Kerr", "modes": [1], "p": {"xi": 0.2}},
            {"g": "CrossKerr", "modes": [1, 2], "p": {"xi": 0.2}}]},
        {"d": 2, "prep": {"kind": "vacuum"}, "gates": [
            {"g": "Squeezing", "modes": [0], "p": {"r": 0.2, "phi": 0.1}},
            {"g": "Displacement", "modes": [1], "p": {"r": 0.2, "phi": 0.1}},
            {"g": "Squeezing2", "modes": [1, 0], "p": {"r": 0.1, "phi": 0.3}},
            {"g": "QuadraticPhase", "modes": [0], "p": {"s": 0.1}},
            {"g": "GaussianTransform", "modes": [0, 1], "p": {"seed": 2, "rmax": 0.2}}]},
    ]
    done = 0
    for desc in descs:
        for kind in ("PF", "F", "P", "G"):
            if not all(g["g"] in progs.SUPPORT[kind] for g in desc["gates"]):
                continue
            if kind == "G" and desc["prep"]["kind"] != "vacuum":
                continue
            for c in (1, 2, 4):
                try:
                    s = progs.run(pq, desc, kind, max(c, progs.prep_max_photons(desc["prep"], desc["d"]) + 1))
                    _ = s.fock_probabilities
                    done += 1
                except Exception as e:  # noqa: BLE001
                    print("warmup:", kind, c, repr(e)[:100])
    # sampling paths
    for sim in ("PF", "P", "G", "F"):
        desc = {"sim": sim, "d": 3, "cutoff": 4,
                "prep": {"kind": "vacuum"} if sim == "G" else {"kind": "number", "occ": [1, 1, 1]},
                "steps": ([{"k": "gate", "g": "Squeezing", "modes": [0], "p": {"r": 0.4, "phi": 0.0}}]
                          if sim == "G" else []) + [
                    {"k": "gate", "g": "Interferometer", "modes": [0, 1, 2], "p": {"seed": 3, "kind": "haar"}},
                    {"k": "measure", "m": "ParticleNumberMeasurement", "modes": [0, 1, 2], "p": {}}]}
        try:
            program, s = aprogs.build(pq, desc, seed_sequence=1)
            s.execute(program, shots=5)
            if sim in ("PF", "P"):
                s.execute(program, shots=None)
            done += 1
        except Exception as e:  # noqa: BLE001
            print("warmup:", sim, repr(e)[:100])
    try:
        from piquasso._math.fock import get_fock_space_basis
        from piquasso._math.indices import get_index_in_fock_space_array
        from piquasso.fermionic._utils import get_fock_space_basis as fb

        get_index_in_fock_space_array(get_fock_space_basis(3, 4))
        fb(3, 4)
    except Exception as e:  # noqa: BLE001
        print("warmup:", repr(e)[:100])
    # Gaussian threshold / loop-hafnian sampling, fermionic simulators, TF/JAX-free extras
    try:
        for tor in (False, True):
            with pq.Program() as program:
                pq.Q() | pq.Vacuum()
                pq.Q(0) | pq.Squeezing(0.4, 0.3)
                pq.Q(1) | pq.Displacement(r=0.3, phi=0.2)
                pq.Q(0, 1) | pq.Beamsplitter(0.4, 0.2)
                pq.Q(0, 1) | pq.ThresholdMeasurement()
            pq.GaussianSimulator(d=2, config=pq.Config(seed_sequence=1, use_torontonian=tor,
                                                       measurement_cutoff=4)).execute(program, shots=4)
        with pq.Program() as program:
            pq.Q() | pq.Vacuum()
            pq.Q(0) | pq.Squeezing(0.4, 0.3)
            pq.Q(1) | pq.Displacement(r=0.3, phi=0.2)
            pq.Q(0, 1) | pq.Beamsplitter(0.4, 0.2)
        g = pq.GaussianSimulator(d=2, config=pq.Config(cutoff=4)).execute(program).state
        g.get_particle_detection_probability((1, 1))
        g.get_threshold_detection_probability((1, 0))
        g.wigner_function(positions=[0.1], momentums=[0.2], modes=(0,))
        g.fidelity(g)
        done += 1
    except Exception as e:  # noqa: BLE001
        print("warmup: gaussian extras", repr(e)[:100])
    try:
        import piquasso.fermionic as pf

        for simcls in (pf.PureFockSimulator, pf.GaussianSimulator):
            with pq.Program() as program:
                pq.Q() | pq.StateVector([1, 0, 1])
                pq.Q(0, 1, 2) | pq.Interferometer(progs.haar_unitary(3, 1, "haar"))
                pq.Q(0, 1) | pq.Squeezing2(0.2, 0.1)
            s = simcls(d=3, config=pq.Config(cutoff=4)).execute(program).state
            _ = s.fock_probabilities
            done += 1
    except Exception as e:  # noqa: BLE001
        print("warmup: fermionic", repr(e)[:100])
    print(f"numba warm-up: {done} runs in {time.time() - t0:.0f}s")
    import os
    from pathlib import Path

    cache = os.environ.get("NUMBA_CACHE_DIR")
    if cache:
        try:
            (Path(cache) / ".warm").write_text(str(int(time.time())))
        except OSError:
            pass


if __name__ == "__main__":
    import sys
    from pathlib import Path

    sys.path.insert(0, str(Path(__file__).resolve().parent.parent))
    main()
