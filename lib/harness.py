"""Shared driver: sharding, Hypothesis runs with collect-then-shrink, enumeration,
replay files, known findings, evidence.

A check module (checks/cXX_*.py) exposes

    PID, LEVEL, RULE, ASSUMPTIONS, SHARDS = {"quick": n, "thorough": m}
    def parts(tier) -> list[Part]
    FLOORS = {class_name: minimal fraction of evaluations}       (optional)

Every `Part` has a *property function* `prop(case, ctx)`: a plain function of a
JSON-serialisable case.  It raises `Violation(bucket, message)` when the property is
broken and calls `ctx.case(...)` to account for what it evaluated.
"""

from __future__ import annotations

import hashlib
import json
import os
import re
import time
import traceback
from collections import Counter
from dataclasses import dataclass, field
from pathlib import Path
from typing import Any, Callable, Iterable

VERIF = Path(__file__).resolve().parent.parent


class Violation(Exception):
    """The property under test does not hold for the current case."""

    def __init__(self, bucket: str, message: str):
        super().__init__(f"{bucket}: {message}")
        self.bucket = bucket
        self.message = message


class HarnessError(Exception):
    """The machinery itself is broken (never reported as a violation)."""


def jsonable(x: Any) -> Any:
    """Convert numpy / complex / tuple structures to plain JSON values."""
    import numpy as np
    from fractions import Fraction

    if isinstance(x, dict):
        return {str(k): jsonable(v) for k, v in x.items()}
    if isinstance(x, (list, tuple)):
        return [jsonable(v) for v in x]
    if isinstance(x, np.ndarray):
        return jsonable(x.tolist())
    if isinstance(x, (bool, np.bool_)):
        return bool(x)
    if isinstance(x, (int, np.integer)):
        return int(x)
    if isinstance(x, (float, np.floating)):
        f = float(x)
        if f != f or f in (float("inf"), float("-inf")):
            return repr(f)
        return f
    if isinstance(x, (complex, np.complexfloating)):
        return {"re": float(x.real), "im": float(x.imag)}
    if isinstance(x, Fraction):
        return f"{x.numerator}/{x.denominator}"
    if x is None or isinstance(x, str):
        return x
    return repr(x)


def case_hash(case: Any) -> int:
    s = json.dumps(jsonable(case), sort_keys=True, separators=(",", ":"))
    return int.from_bytes(hashlib.blake2b(s.encode(), digest_size=8).digest(), "big") >> 1


def derive_seed(*parts: Any) -> int:
    s = "/".join(str(p) for p in parts)
    return int.from_bytes(hashlib.blake2b(s.encode(), digest_size=8).digest(), "big") >> 2


@dataclass
class Part:
    name: str
    prop: Callable[[Any, "Ctx"], None]
    kind: str = "hyp"  # "hyp" | "enum" | "custom"
    strategy: Any = None  # hypothesis strategy or callable(tier) -> strategy
    cases: Callable[[str], Iterable[Any]] | None = None  # for enum
    examples: dict = field(default_factory=lambda: {"quick": 200, "thorough": 5000})
    budget_s: dict = field(default_factory=lambda: {"quick": 150, "thorough": 3000})
    run: Callable[["Ctx", str], None] | None = None  # for custom
    shrink: bool = True
    only_shard0: bool = False


def _cpu_seconds() -> float:
    t = os.times()
    return t.user + t.system + t.children_user + t.children_system


class Ctx:
    """Accounting for one shard of one run."""

    MAX_SAMPLES = 8

    def __init__(self, pid: str, tier: str, seed: int, shard: int, nshards: int,
                 known: dict[str, dict]):
        self.pid, self.tier, self.seed = pid, tier, seed
        self.shard, self.nshards = shard, nshards
        self.known = known
        self.evaluations = 0
        self.hashes: set[int] = set()
        self.classes: Counter = Counter()
        self.samples: list = []
        self.excluded: Counter = Counter()
        self.failures: list[dict] = []
        self.known_hits: Counter = Counter()
        self.known_examples: dict[str, Any] = {}
        self.notes: Counter = Counter()
        self.part = ""
        self.deadline = float("inf")
        self.replaying = False

    # -- accounting -------------------------------------------------------------
    def case(self, case: Any, nontrivial: bool, classes: Iterable[str] = (),
             sample: Any = None) -> None:
        self.evaluations += 1
        for c in classes:
            self.classes[c] += 1
        if nontrivial:
            h = case_hash(case)
            if h not in self.hashes:
                self.hashes.add(h)
                if len(self.samples) < self.MAX_SAMPLES and (
                    len(self.hashes) in (1, 2, 3) or len(self.hashes) % 97 == 0
                ):
                    self.samples.append(
                        {"part": self.part, "case": jsonable(sample if sample is not None else case)}
                    )

    def count(self, cls: str, n: int = 1) -> None:
        self.classes[cls] += n

    def exclude(self, bucket: str, n: int = 1) -> None:
        self.excluded[bucket] += n

    def out_of_time(self) -> bool:
        """A part is out of time when its wall-clock budget AND the same amount of CPU time
        (this process and its finished children) are used up, or at three times the wall
        budget.  On a quiet machine the two clocks agree; on an overloaded one the wall
        clock alone would cut a run before it has done any work."""
        now = time.monotonic()
        if now <= self._deadline:
            return False
        if now > self._hard_deadline:
            return True
        return _cpu_seconds() > self._cpu_deadline

    @property
    def deadline(self) -> float:
        return self._deadline

    @deadline.setter
    def deadline(self, value: float) -> None:
        now = time.monotonic()
        self._deadline = value
        budget = max(0.0, value - now) if value != float("inf") else float("inf")
        self._cpu_deadline = _cpu_seconds() + budget
        self._hard_deadline = now + 3 * budget if budget != float("inf") else float("inf")

    # -- failures ---------------------------------------------------------------
    def is_known(self, bucket: str) -> bool:
        e = self.known.get(bucket)
        return bool(e) and e.get("status") == "known"

    def add_failure(self, part: str, bucket: str, case: Any, message: str) -> None:
        self.failures.append(
            {"part": part, "bucket": bucket, "case": jsonable(case), "message": message}
        )

    def to_json(self) -> dict:
        return {
            "evaluations": self.evaluations,
            "hashes": sorted(self.hashes),
            "classes": dict(self.classes),
            "samples": self.samples,
            "excluded": dict(self.excluded),
            "failures": self.failures,
            "known_hits": dict(self.known_hits),
            "known_examples": jsonable(self.known_examples),
            "notes": dict(self.notes),
        }


def guarded(prop: Callable, case: Any, ctx: Ctx, seen: set[str] | None = None) -> Violation | None:
    """Run prop; route known-finding buckets to counters; return unknown Violation."""
    try:
        try:
            prop(case, ctx)
        except Violation:
            raise
        except Exception as e:  # noqa: BLE001
            # Every check feeds the library inputs it has constructed to be valid and
            # handles the refusals it expects itself; a Piquasso exception that escapes is
            # the library refusing a valid request (any other exception type is a bug of
            # the harness and stays a harness error).
            if type(e).__module__.split(".")[0] != "piquasso":
                raise
            tb = traceback.extract_tb(e.__traceback__)
            frame = next((f for f in reversed(tb) if "/piquasso/" in f.filename), tb[-1])
            raise Violation(
                f"{ctx.pid}:{ctx.part}:unexpected:{type(e).__name__}:"
                f"{frame.filename.split('/')[-1]}:{frame.name}",
                f"{type(e).__name__}: {str(e)[:300]}") from e
    except Violation as v:
        if ctx.is_known(v.bucket):
            ctx.known_hits[v.bucket] += 1
            ctx.known_examples.setdefault(v.bucket, {"case": case, "message": v.message})
            return None
        if seen is not None and v.bucket in seen:
            return None
        return v
    return None


def run_hyp_part(ctx: Ctx, part: Part, tier: str) -> None:
    import hypothesis
    from hypothesis import HealthCheck, Phase, given, settings

    total = part.examples[tier]
    n = max(1, total // ctx.nshards + (1 if ctx.shard < total % ctx.nshards else 0))
    strategy = part.strategy(tier) if callable(part.strategy) else part.strategy
    seen: set[str] = set()
    ctx.deadline = time.monotonic() + part.budget_s[tier]
    for rnd in range(5):
        box: dict = {}
        phases = [Phase.generate, Phase.shrink] if part.shrink else [Phase.generate]

        @hypothesis.seed(derive_seed(ctx.seed, ctx.pid, part.name, ctx.shard, rnd))
        @settings(
            max_examples=n,
            database=None,
            deadline=None,
            derandomize=False,
            report_multiple_bugs=False,
            suppress_health_check=list(HealthCheck),
            phases=phases,
            print_blob=False,
        )
        @given(strategy)
        def test(case):
            if ctx.out_of_time() and "v" not in box:
                ctx.notes["skipped_time_budget"] += 1
                return
            if "v" in box and time.monotonic() > box["shrink_deadline"] \
                    and case_hash(case) not in box["failing"]:
                # shrinking budget used up: let every candidate that has not already been
                # seen failing pass, so Hypothesis finishes with its current minimal case
                ctx.notes["shrink_budget_exhausted"] += 1
                return
            v = guarded(part.prop, case, ctx, seen)
            if v is not None:
                if "v" not in box:
                    box["shrink_deadline"] = time.monotonic() + (
                        45 if tier == "quick" else 400)
                box["v"], box["case"] = v, case
                box.setdefault("failing", set()).add(case_hash(case))
                raise v

        flaky = False
        try:
            test()
        except Violation:
            pass
        except hypothesis.errors.Flaky:
            # the property failed on a case and passed (or failed differently) when
            # Hypothesis re-executed it: the observed violation stands, it is a
            # nondeterministic one (e.g. unseeded randomness in the code under test)
            if "v" not in box:
                raise
            flaky = True
        if "v" in box:
            v = box["v"]
            ctx.add_failure(part.name, v.bucket, box["case"], v.message + (
                " [not reproduced when the same case was re-executed: the behaviour is "
                "nondeterministic]" if flaky else ""))
            seen.add(v.bucket)
            # shrinking may eat the budget; give the continuation a little more
            ctx.deadline = max(ctx.deadline, time.monotonic() + 20)
            n = max(1, n // 2)
            continue
        break


def run_enum_part(ctx: Ctx, part: Part, tier: str) -> None:
    ctx.deadline = time.monotonic() + part.budget_s[tier]
    seen: set[str] = set()
    for i, case in enumerate(part.cases(tier)):
        if i % ctx.nshards != ctx.shard:
            continue
        if ctx.out_of_time():
            ctx.notes["skipped_time_budget"] += 1
            ctx.notes["enumeration_incomplete"] += 1
            continue
        v = guarded(part.prop, case, ctx, seen)
        if v is not None:
            ctx.add_failure(part.name, v.bucket, case, v.message)
            seen.add(v.bucket)


def run_shard(mod, tier: str, seed: int, shard: int, nshards: int, known: dict,
              only: str | None = None) -> dict:
    ctx = Ctx(mod.PID, tier, seed, shard, nshards, known)
    t0 = time.monotonic()
    err = None
    try:
        if shard == 0 and not only:
            replay_regress(mod, ctx)
        for part in mod.parts(tier):
            if only and part.name != only:
                continue
            if part.only_shard0 and shard != 0:
                continue
            ctx.part = part.name
            if part.kind == "hyp":
                run_hyp_part(ctx, part, tier)
            elif part.kind == "enum":
                run_enum_part(ctx, part, tier)
            else:
                ctx.deadline = time.monotonic() + part.budget_s[tier]
                try:
                    part.run(ctx, tier)
                except Violation as v:  # custom parts may simply raise
                    if ctx.is_known(v.bucket):
                        ctx.known_hits[v.bucket] += 1
                    else:
                        ctx.add_failure(part.name, v.bucket, getattr(v, "case", None),
                                        v.message)
    except BaseException as e:  # harness error: report, exit 2
        if isinstance(e, KeyboardInterrupt):
            raise
        err = "".join(traceback.format_exception(type(e), e, e.__traceback__))[-6000:]
    out = ctx.to_json()
    out["wall_s"] = time.monotonic() - t0
    out["error"] = err
    out["shard"] = shard
    return out


def replay_regress(mod, ctx: Ctx) -> None:
    """Replay the committed shrunk reproductions (seconds) before searching."""
    d = VERIF / "regress" / mod.PID
    if not d.is_dir():
        return
    byname = {p.name: p for p in mod.parts("quick")}
    for f in sorted(d.glob("*.json")):
        data = json.loads(f.read_text())
        part = byname.get(data["part"])
        if part is None:
            raise HarnessError(f"regress file {f} names unknown part {data['part']}")
        ctx.part = "regress:" + f.name
        ctx.deadline = float("inf")
        v = guarded(part.prop, data["case"], ctx)
        ctx.count("regress_replayed")
        if v is not None:
            ctx.add_failure(part.name, v.bucket, data["case"],
                            f"[regress {f.name}] " + v.message)


# -- known findings --------------------------------------------------------------

def load_known(pid: str) -> dict[str, dict]:
    p = VERIF / "known_findings.json"
    if not p.exists():
        return {}
    data = json.loads(p.read_text())
    return {e["bucket"]: e for e in data.get("findings", []) if e.get("property") == pid}


# -- replay ------------------------------------------------------------------------

def bucket_filename(bucket: str) -> str:
    return re.sub(r"[^A-Za-z0-9_.-]+", "_", bucket)[:120]


def write_replay(pid: str, failure: dict) -> Path:
    d = VERIF / "replays" / pid
    d.mkdir(parents=True, exist_ok=True)
    p = d / (bucket_filename(failure["bucket"]) + ".json")
    p.write_text(json.dumps({"property": pid, **failure}, indent=1, sort_keys=True))
    return p


def replay(mod, path: Path, known: dict) -> int:
    data = json.loads(Path(path).read_text())
    ctx = Ctx(mod.PID, "quick", 0, 0, 1, {})
    ctx.replaying = True
    part = {p.name: p for p in mod.parts("quick")}[data["part"]]
    ctx.part = part.name
    try:
        part.prop(data["case"], ctx)
    except Violation as v:
        e = known.get(v.bucket)
        if e and e.get("status") == "known":
            print(f"KNOWN-FINDING: property={mod.PID} {e['what']}")
            print(f"replay reproduces known finding {v.bucket}: {v.message}")
            return 0
        print(f"VIOLATION property={mod.PID} replay={path}")
        print(f"  bucket={v.bucket}\n  {v.message}")
        return 1
    print(f"replay of {path}: property holds on this case")
    return 0
