"""Physical Gaussian states by construction, and independent phase-space linear algebra.

Nothing in this module calls piquasso.  Everything is written from the definitions

    x_j = sqrt(hbar/2) (a_j + a_j^dagger),   p_j = -i sqrt(hbar/2) (a_j - a_j^dagger),
    mu_k = <Y_k>,   sigma_kl = <Y_k Y_l + Y_l Y_k> - 2 <Y_k><Y_l>        (vacuum: hbar * 1)

with the two orderings  xxpp: Y = (x_1..x_d, p_1..p_d)  and  xpxp: R = (x_1,p_1,..,x_d,p_d).

State description (JSON-serialisable, replayable):

    {"d": 3, "seed": 123, "kind": "pure"|"mixed"|"partial"|"degenerate"|"thermal"|"vacuum",
     "displaced": bool, "layers": 0|1|2, "rmax": 1.2,             # all optional but d, seed
     "nus": [..d floats >= 1..]   (optional, overrides kind),
     "mu0": [..2d floats, xxpp..] (optional, overrides the drawn displacement)}

    sigma = hbar * S (nu_1,..,nu_d, nu_1,..,nu_d) S^T        (xxpp)
    S     = O_L Z_L ... O_1 Z_1 O_0,   O_l orthogonal symplectic (interferometer),
                                       Z_l = diag(e^{-r}) (+) diag(e^{r}),  |r_j| <= rmax
    mu    = sqrt(hbar) * mu0

Every such sigma satisfies sigma/hbar + i Omega >= 0 because nu_i >= 1 (Williamson), so no
rejection is needed; nu_i = 1 for all i gives a pure state.
"""

from __future__ import annotations

import math

import numpy as np

from .progs import haar_unitary, rng_of

KINDS = ("pure", "mixed", "partial", "degenerate", "thermal", "vacuum")
HBARS = (0.1, 0.5, 1.0, 2.0, 3.7, 10.0)


# --------------------------------------------------------------------------------------
# orderings


def perm_xxpp_to_xpxp(d: int) -> np.ndarray:
    """p such that v_xpxp = v_xxpp[p]  (x_j is entry j, p_j is entry d+j of xxpp)."""
    p = []
    for j in range(d):
        p.append(j)
        p.append(d + j)
    return np.array(p, dtype=int)


def perm_xpxp_to_xxpp(d: int) -> np.ndarray:
    """q such that v_xxpp = v_xpxp[q]."""
    return np.array([2 * j for j in range(d)] + [2 * j + 1 for j in range(d)], dtype=int)


def vec_to_xpxp(v_xxpp):
    v = np.asarray(v_xxpp)
    return v[perm_xxpp_to_xpxp(len(v) // 2)]


def vec_to_xxpp(v_xpxp):
    v = np.asarray(v_xpxp)
    return v[perm_xpxp_to_xxpp(len(v) // 2)]


def mat_to_xpxp(m_xxpp):
    m = np.asarray(m_xxpp)
    p = perm_xxpp_to_xpxp(len(m) // 2)
    return m[np.ix_(p, p)]


def mat_to_xxpp(m_xpxp):
    m = np.asarray(m_xpxp)
    q = perm_xpxp_to_xxpp(len(m) // 2)
    return m[np.ix_(q, q)]


def omega_xxpp(d: int) -> np.ndarray:
    """[Y_k, Y_l] = i hbar Omega_kl in the xxpp ordering."""
    o = np.zeros((2 * d, 2 * d))
    for j in range(d):
        o[j, d + j] = 1.0
        o[d + j, j] = -1.0
    return o


# --------------------------------------------------------------------------------------
# real symplectic matrices (xxpp) of the elementary transformations


def passive_xxpp(u: np.ndarray) -> np.ndarray:
    """a -> U a   <=>   (x + i p) -> U (x + i p)."""
    x, y = np.real(u), np.imag(u)
    return np.block([[x, -y], [y, x]])


def squeezers_xxpp(r) -> np.ndarray:
    r = np.asarray(r, dtype=float)
    return np.diag(np.concatenate([np.exp(-r), np.exp(r)]))


def complex_to_real_xxpp(passive: np.ndarray, active: np.ndarray) -> np.ndarray:
    """Real symplectic of  a -> P a + A a^dagger  on xxpp vectors (independent of hbar).

    With a = (x + i p)/sqrt(2 hbar):  x' + i p' = P (x + i p) + A (x - i p), hence
    x' = Re(P + A) x - Im(P - A) p,   p' = Im(P + A) x + Re(P - A) p.
    """
    s, m = passive + active, passive - active
    return np.block([[np.real(s), -np.imag(m)], [np.imag(s), np.real(m)]])


def embed_blocks(passive, active, modes, d: int):
    """Full d-mode complex-form blocks of a gate given on the ORDERED tuple `modes`.

    The gate maps a_{modes[i]} -> sum_j P_ij a_{modes[j]} + A_ij a_{modes[j]}^dagger and
    leaves all other modes alone.
    """
    modes = [int(m) for m in modes]
    k = len(modes)
    passive = np.asarray(passive, dtype=complex).reshape(k, k)
    active = (np.zeros((k, k), dtype=complex) if active is None
              else np.asarray(active, dtype=complex).reshape(k, k))
    if len(set(modes)) != k or min(modes) < 0 or max(modes) >= d:
        raise ValueError(f"bad modes {modes} for d={d}")
    pf = np.eye(d, dtype=complex)
    af = np.zeros((d, d), dtype=complex)
    for i, mi in enumerate(modes):
        pf[mi, mi] = 0.0
    for i, mi in enumerate(modes):
        for j, mj in enumerate(modes):
            pf[mi, mj] = passive[i, j]
            af[mi, mj] = active[i, j]
    return pf, af


def embed_symplectic(passive, active, modes, d: int, ordering: str = "xxpp") -> np.ndarray:
    """Real 2d x 2d symplectic acting on xxpp (or xpxp) vectors of the full system."""
    pf, af = embed_blocks(passive, active, modes, d)
    s = complex_to_real_xxpp(pf, af)
    if ordering == "xxpp":
        return s
    if ordering == "xpxp":
        return mat_to_xpxp(s)
    raise ValueError(ordering)


def complex_form(passive, active) -> np.ndarray:
    """S_(c) = [[P, A], [conj A, conj P]] acting on (a_1..a_k, a_1^dagger..a_k^dagger)."""
    p = np.asarray(passive, dtype=complex)
    a = np.zeros_like(p) if active is None else np.asarray(active, dtype=complex)
    return np.block([[p, a], [a.conj(), p.conj()]])


def k_form(k: int) -> np.ndarray:
    return np.diag([1.0] * k + [-1.0] * k)


# --------------------------------------------------------------------------------------
# the generator


def _nus(desc, rng) -> np.ndarray:
    d = desc["d"]
    if desc.get("nus") is not None:
        nus = np.array([float(x) for x in desc["nus"]], dtype=float)
        if len(nus) != d or np.any(nus < 1.0):
            raise ValueError("nus must be d numbers >= 1")
        return nus
    kind = desc.get("kind", "pure")
    # the rng is always advanced in the same way, so `kind` can shrink independently
    u = rng.uniform(1.0, 4.0, d)
    mask = rng.integers(0, 2, d).astype(bool)
    if kind in ("pure", "vacuum"):
        return np.ones(d)
    if kind == "mixed":
        return u
    if kind == "partial":
        nus = np.where(mask, u, 1.0)
        nus[0] = 1.0
        if d > 1:
            nus[-1] = u[-1]
        return nus
    if kind in ("degenerate", "thermal"):
        return np.full(d, u[0])
    raise ValueError(kind)


def symplectic_of(desc) -> np.ndarray:
    d = desc["d"]
    kind = desc.get("kind", "pure")
    rng = rng_of(desc["seed"] * 2 + 1)
    layers = int(desc.get("layers", 1))
    rmax = float(desc.get("rmax", 1.2))
    if kind in ("vacuum", "thermal"):
        return np.eye(2 * d)
    s = passive_xxpp(haar_unitary(d, int(rng.integers(2**60))))
    for _ in range(layers):
        r = rng.uniform(-rmax, rmax, d)
        o = passive_xxpp(haar_unitary(d, int(rng.integers(2**60))))
        s = o @ squeezers_xxpp(r) @ s
    return s


def dimensionless(desc):
    """(mu0, sigma0) in xxpp ordering: the state at hbar = 1."""
    d = desc["d"]
    rng = rng_of(desc["seed"])
    nus = _nus(desc, rng)
    s = symplectic_of(desc)
    sigma0 = s @ np.diag(np.concatenate([nus, nus])) @ s.T
    sigma0 = (sigma0 + sigma0.T) / 2
    drawn = rng.normal(size=2 * d) * float(desc.get("mu_scale", 1.0))
    if desc.get("mu0") is not None:
        mu0 = np.array([float(x) for x in desc["mu0"]], dtype=float)
        if len(mu0) != 2 * d:
            raise ValueError("mu0 must have 2d entries")
    elif desc.get("displaced", False):
        mu0 = drawn
    else:
        mu0 = np.zeros(2 * d)
    return mu0, sigma0


def moments(desc, hbar: float, ordering: str = "xxpp"):
    """(mu, sigma) of the described state for the given hbar."""
    mu0, sigma0 = dimensionless(desc)
    mu, sigma = math.sqrt(hbar) * mu0, hbar * sigma0
    if ordering == "xxpp":
        return mu, sigma
    if ordering == "xpxp":
        return vec_to_xpxp(mu), mat_to_xpxp(sigma)
    raise ValueError(ordering)


def is_physical(sigma_xxpp, hbar: float, tol: float = 1e-9) -> bool:
    d = len(sigma_xxpp) // 2
    m = np.asarray(sigma_xxpp) / hbar + 1j * omega_xxpp(d)
    return bool(np.min(np.linalg.eigvalsh((m + m.conj().T) / 2)) >= -tol * np.linalg.norm(m, 2))


def has_intermode_correlations(sigma_xxpp, tol: float = 1e-9) -> bool:
    s = np.asarray(sigma_xxpp)
    d = len(s) // 2
    for i in range(d):
        for j in range(d):
            if i != j:
                blk = [s[i, j], s[i, d + j], s[d + i, j], s[d + i, d + j]]
                if max(abs(x) for x in blk) > tol:
                    return True
    return False


# --------------------------------------------------------------------------------------
# conversions to the complex / ladder representations (from the definitions)


def ladder_moments(mu_xxpp, sigma_xxpp, hbar: float):
    """m_j = <a_j>,  C_ij = <a_i^dagger a_j> - conj(m_i) m_j,  G_ij = <a_i a_j> - m_i m_j.

    With dimensionless s = sigma/hbar = [[Sxx, Sxp], [Spx, Spp]] and
    <dx_i dp_j> = Sxp_ij/2 + (i/2) delta_ij:
        G = (Sxx - Spp)/4 + i (Sxp + Spx)/4,    C = (Sxx + Spp)/4 - 1/2 + i (Sxp - Spx)/4.
    """
    mu = np.asarray(mu_xxpp, dtype=float)
    s = np.asarray(sigma_xxpp, dtype=float) / hbar
    d = len(mu) // 2
    m = (mu[:d] + 1j * mu[d:]) / math.sqrt(2 * hbar)
    sxx, sxp, spx, spp = s[:d, :d], s[:d, d:], s[d:, :d], s[d:, d:]
    g = (sxx - spp) / 4 + 1j * (sxp + spx) / 4
    c = (sxx + spp) / 4 - np.eye(d) / 2 + 1j * (sxp - spx) / 4
    return m, c, g


def w_matrix(d: int) -> np.ndarray:
    i = np.eye(d)
    return np.block([[i, 1j * i], [i, -1j * i]]) / math.sqrt(2)


def complex_representation(mu_xxpp, sigma_xxpp, hbar: float):
    """mu_c = (<a>, <a^dagger>),  sigma_c,ij = <xi_i xi_j^dagger + xi_j^dagger xi_i> - 2<xi_i><xi_j^dagger>
    = W (sigma/hbar) W^dagger,  mu_c = W mu / sqrt(hbar)."""
    d = len(mu_xxpp) // 2
    w = w_matrix(d)
    return w @ np.asarray(mu_xxpp) / math.sqrt(hbar), w @ (np.asarray(sigma_xxpp) / hbar) @ w.conj().T


def rotate(mu_xxpp, sigma_xxpp, phi: float):
    """m -> e^{-i phi} m for every mode: x -> cos x + sin p, p -> -sin x + cos p."""
    d = len(mu_xxpp) // 2
    c, s = math.cos(phi), math.sin(phi)
    i = np.eye(d)
    r = np.block([[c * i, s * i], [-s * i, c * i]])
    return r @ np.asarray(mu_xxpp), r @ np.asarray(sigma_xxpp) @ r.T


def reduce(mu_xxpp, sigma_xxpp, modes):
    """Moments of the ordered subsystem `modes` (new mode i is old mode modes[i])."""
    d = len(mu_xxpp) // 2
    idx = [int(m) for m in modes] + [d + int(m) for m in modes]
    return np.asarray(mu_xxpp)[idx], np.asarray(sigma_xxpp)[np.ix_(idx, idx)]


def symplectic_eigenvalues(sigma_xxpp, hbar: float) -> np.ndarray:
    d = len(sigma_xxpp) // 2
    ev = np.linalg.eigvals(1j * omega_xxpp(d) @ (np.asarray(sigma_xxpp) / hbar))
    ev = np.sort(np.abs(ev.real))
    return ev[::2]


# --------------------------------------------------------------------------------------
# Hypothesis strategy for descriptions


def state_desc(dmax: int = 5, dmin: int = 1, kinds=KINDS, ds=None):
    from hypothesis import strategies as st

    return st.fixed_dictionaries({
        "d": st.sampled_from(list(ds)) if ds is not None else st.integers(dmin, dmax),
        "seed": st.integers(0, 2**32),
        "kind": st.sampled_from(list(kinds)),
        "displaced": st.booleans(),
        "layers": st.sampled_from([0, 1, 1, 2]),
    })
