"""C09 helpers: connector-primitive cases and the measured table of traceable gates."""

from __future__ import annotations

import itertools
import math

import numpy as np
import scipy.linalg
from hypothesis import strategies as st

from lib import bootstrap, progs
from lib.harness import Violation

pq = bootstrap.load()

# ------------------------------------------------------------------------------------
# Gates that can be traced (whole program inside tf.function / jax.jit with symbolic
# parameters).  Measured with the part `trace_support`; a gate outside the table raises at
# trace time (data-dependent Python control flow on traced values), which is loud and
# therefore not a wrong result; such gates are excluded from the compiled-mode generators
# by construction.

_PASSIVE = ["Phaseshifter", "Beamsplitter", "Beamsplitter5050", "MachZehnder", "Fourier",
            "Interferometer"]
TRACEABLE = {
    # MachZehnder raises OperatorNotAllowedInGraphError under tf.function; the Euler-
    # decomposed gates (takagi loops over traced singular values) raise in both frameworks
    ("PF", "tf", "function"): {"Phaseshifter", "Beamsplitter", "Beamsplitter5050", "Fourier",
                               "Interferometer", "Squeezing", "Displacement",
                               "PositionDisplacement", "MomentumDisplacement", "Kerr",
                               "CrossKerr", "SNAP", "CubicPhase"},
    ("PF", "jax", "jit"): set(_PASSIVE) | {"Squeezing", "Displacement",
                                           "PositionDisplacement", "MomentumDisplacement",
                                           "Kerr", "CrossKerr", "SNAP", "CubicPhase"},
    ("G", "jax", "jit"): set(_PASSIVE) | {"Squeezing", "QuadraticPhase", "Squeezing2",
                                          "GaussianTransform", "Displacement",
                                          "PositionDisplacement", "MomentumDisplacement",
                                          "ControlledX", "ControlledZ"},
    ("P", "jax", "jit"): set(_PASSIVE),
    ("FG", "jax", "jit"): {"Interferometer", "Beamsplitter", "Phaseshifter", "Squeezing2",
                           "IsingXX", "GaussianHamiltonian"},
    ("FF", "jax", "jit"): {"Interferometer", "Beamsplitter", "Phaseshifter", "Squeezing2",
                           "IsingXX", "ControlledPhase", "Fourier", "MachZehnder",
                           "Beamsplitter5050"},
}

# (sim, conn, gate) triples excluded from every generator (confirmed findings that would
# otherwise hide everything behind them; each is checked in a dedicated part)
EXCLUDED: set = set()

TOL = 1e-8

# ------------------------------------------------------------------------------------
# matrices


def _c(rng, *shape):
    return rng.normal(size=shape) + 1j * rng.normal(size=shape)


def from_svals(n, seed, svals):
    rng = progs.rng_of(seed)
    u = progs.haar_unitary(n, int(rng.integers(2 ** 60)))
    v = progs.haar_unitary(n, int(rng.integers(2 ** 60)))
    return u @ np.diag(svals) @ v


def gen_matrix(kind: str, n: int, seed: int) -> np.ndarray:
    rng = progs.rng_of(seed)
    eye = np.eye(n, dtype=complex)
    if kind == "identity":
        return eye
    if kind == "zero":
        return np.zeros((n, n), dtype=complex)
    if kind == "perm":
        return eye[rng.permutation(n)]
    if kind == "haar":
        return progs.haar_unitary(n, seed)
    if kind == "diag_phase":
        return progs.haar_unitary(n, seed, "diag")
    if kind == "hermitian":
        a = _c(rng, n, n)
        return (a + a.conj().T) / 2
    if kind == "small_hermitian":  # spectral norm < pi/2
        a = _c(rng, n, n)
        h = (a + a.conj().T) / 2
        return h / max(1e-9, np.linalg.norm(h, 2)) * rng.uniform(0.1, 1.5)
    if kind == "psd":
        u = progs.haar_unitary(n, seed)
        return (u * rng.uniform(0.2, 3.0, n)) @ u.conj().T
    if kind == "psd_degenerate":
        u = progs.haar_unitary(n, seed)
        vals = rng.choice([0.5, 2.0], size=n)
        return (u * vals) @ u.conj().T
    if kind == "psd_singular":
        u = progs.haar_unitary(n, seed)
        vals = rng.uniform(0.2, 3.0, n)
        vals[: max(1, n // 2)] = 0.0
        return (u * vals) @ u.conj().T
    if kind == "real_psd":
        q = progs.haar_unitary(n, seed, "real").real
        return ((q * rng.uniform(0.2, 3.0, n)) @ q.T).astype(float)
    if kind == "real_sym":
        a = rng.normal(size=(n, n))
        return (a + a.T) / 2
    if kind == "real_skew":
        a = rng.normal(size=(n, n))
        return (a - a.T) / 2
    if kind == "real_orthogonal":
        q = progs.haar_unitary(n, seed, "real").real
        if np.linalg.det(q) < 0:
            q[:, 0] = -q[:, 0]
        return q
    if kind == "complex_sym":
        a = _c(rng, n, n)
        return (a + a.T) / 2
    if kind == "unitary_sym":  # the Z = V^T W that takagi hands to schur
        u = progs.haar_unitary(n, seed)
        return u @ u.T
    if kind == "general":
        return from_svals(n, seed, rng.uniform(0.3, 3.0, n))
    if kind == "general_degenerate":  # repeated singular values
        return from_svals(n, seed, rng.choice([0.5, 2.0], size=n))
    if kind == "general_real":
        q1 = progs.haar_unitary(n, seed, "real").real
        q2 = progs.haar_unitary(n, seed + 1, "real").real
        return q1 @ np.diag(rng.uniform(0.3, 3.0, n)) @ q2
    if kind == "rank_deficient":
        s = rng.uniform(0.3, 3.0, n)
        s[n // 2:] = 0.0
        return from_svals(n, seed, s)
    if kind == "normal":
        u = progs.haar_unitary(n, seed)
        return (u * _c(rng, n)) @ u.conj().T
    if kind == "nilpotent":
        return np.triu(_c(rng, n, n), 1)
    if kind in ("symplectic", "symplectic_degenerate"):
        k = max(1, n // 2)
        if kind == "symplectic":
            pas, act = progs.gaussian_transform_blocks(k, seed, 0.8)
        else:
            u1 = progs.haar_unitary(k, seed)
            u2 = progs.haar_unitary(k, seed + 1)
            r = np.full(k, 0.4)
            pas = u2 @ np.diag(np.cosh(r)) @ u1
            act = u2 @ np.diag(np.sinh(r)) @ u1.conj()
        return np.block([[pas, act], [act.conj(), pas.conj()]])
    raise KeyError(kind)


def is_normal(kind):
    return kind in {"identity", "zero", "perm", "haar", "diag_phase", "hermitian",
                    "small_hermitian", "psd", "psd_degenerate", "psd_singular", "real_psd",
                    "real_sym", "real_skew", "real_orthogonal", "unitary_sym", "normal"}


# ------------------------------------------------------------------------------------
# brute-force definitions


def perm_bruteforce(m):
    n = m.shape[0]
    if n == 0:
        return 1.0 + 0j
    return sum(np.prod([m[i, p[i]] for i in range(n)]) for p in itertools.permutations(range(n)))


def repeat_rc(m, rows, cols):
    ri = [i for i, k in enumerate(rows) for _ in range(k)]
    ci = [j for j, k in enumerate(cols) for _ in range(k)]
    return np.asarray(m)[np.ix_(ri, ci)] if ri and ci else np.zeros((len(ri), len(ci)))


def loop_hafnian_bruteforce(m, loops=True):
    """Sum over all matchings of the index set (single-vertex loops use the diagonal)."""
    n = m.shape[0]

    def rec(rest):
        if not rest:
            return 1.0 + 0j
        i, rest = rest[0], rest[1:]
        tot = m[i, i] * rec(rest) if loops else 0.0
        for k, j in enumerate(rest):
            tot = tot + m[i, j] * rec(rest[:k] + rest[k + 1:])
        return tot

    return rec(tuple(range(n)))


def pfaffian_bruteforce(m):
    n = m.shape[0]
    if n == 0:
        return 1.0
    if n % 2:
        return 0.0

    def rec(idx):
        if not idx:
            return 1.0
        i, rest = idx[0], idx[1:]
        tot = 0.0
        for k, j in enumerate(rest):
            tot += (-1) ** k * m[i, j] * rec(rest[:k] + rest[k + 1:])
        return tot

    return rec(tuple(range(n)))


# ------------------------------------------------------------------------------------
# primitive cases

PRIMS = {
    # name: (connectors, kinds, sizes)
    "polar": (("tf", "jax"), ["symplectic", "symplectic", "symplectic_degenerate", "haar",
                               "identity", "perm", "psd", "general", "general_degenerate",
                               "general_real", "diag_phase"], (1, 2, 3, 4)),
    "expm": (("tf", "jax"), ["small_hermitian", "hermitian", "real_skew", "zero", "general",
                              "nilpotent", "identity", "normal"], (1, 2, 3, 4)),
    "logm": (("tf", "jax"), ["psd", "psd_degenerate", "identity", "symplectic",
                              "symplectic_degenerate", "real_psd"], (1, 2, 3, 4)),
    "logm_expm": (("tf", "jax"), ["small_hermitian"], (1, 2, 3, 4)),
    "powm": (("tf", "jax"), ["hermitian", "psd", "haar", "identity", "general", "nilpotent"],
             (1, 2, 3, 4)),
    "svd": (("tf", "jax"), ["general", "complex_sym", "general_degenerate", "psd_degenerate",
                             "zero", "identity", "perm", "rank_deficient", "unitary_sym",
                             "general_real"], (1, 2, 3, 4)),
    "schur": (("tf", "jax"), ["unitary_sym", "unitary_sym", "haar", "hermitian", "diag_phase",
                               "identity", "perm", "real_skew", "real_sym", "general",
                               "general_real", "normal"], (1, 2, 3, 4)),
    "sqrtm": (("tf", "jax"), ["psd", "psd_degenerate", "identity", "psd_singular", "real_psd",
                               "zero"], (1, 2, 3, 4)),
    "block": (("tf", "jax"), ["general", "identity", "zero", "general_real"], (1, 2, 3)),
    "block_diag": (("tf", "jax"), ["general", "identity", "general_real"], (1, 2, 3)),
    "assign": (("tf", "jax"), ["general"], (2, 3, 4, 5)),
    "scatter": (("tf", "jax"), ["general", "general_real"], (1, 2, 3, 4)),
    "embed_in_identity": (("tf", "jax"), ["haar", "general", "identity"], (1, 2, 3)),
    "gather_along_axis_1": (("tf", "jax"), ["general"], (1, 2, 3, 4)),
    "transpose": (("tf", "jax"), ["general"], (1, 2, 3)),
    "permanent": (("tf", "jax"), ["haar", "general", "identity", "zero", "perm",
                                   "general_real"], (1, 2, 3, 4)),
    "hafnian": (("tf", "jax"), ["complex_sym", "real_sym", "identity", "zero"], (2, 3, 4)),
    "loop_hafnian": (("tf", "jax"), ["complex_sym", "complex_sym", "real_sym", "identity",
                                      "zero", "perm_sym", "rank_one"], (1, 2, 3, 4)),
    "pfaffian": (("tf", "jax"), ["real_skew", "real_skew", "zero", "skew_perm"], (2, 4, 6)),
    "real_logm": (("jax",), ["real_orthogonal", "identity"], (2, 3, 4)),
    "fock_rep": (("tf", "jax"), ["haar", "haar", "perm", "diag_phase", "identity",
                                  "general_real"], (1, 2, 3)),
    "fermi_rep": (("jax",), ["haar", "haar", "perm", "diag_phase", "identity"], (1, 2, 3, 4)),
}

GRAPHABLE = {"polar", "expm", "logm", "logm_expm", "svd", "sqrtm", "block", "block_diag",
             "assign", "scatter", "gather_along_axis_1", "transpose",
             "permanent", "fock_rep", "fermi_rep", "schur", "powm"}


@st.composite
def prim_case(draw, conn):
    names = [n for n, (conns, _, _) in PRIMS.items() if conn in conns]
    # not implemented by the connector (NotImplementedError): drawn rarely, counted
    missing = {"tf": ["permanent", "hafnian", "loop_hafnian"], "jax": ["hafnian"]}[conn]
    if draw(st.integers(0, 24)) != 0:
        names = [n for n in names if n not in missing]
    name = draw(st.sampled_from(names))
    _, kinds, sizes = PRIMS[name]
    case = {"prim": name, "conn": conn, "kind": draw(st.sampled_from(kinds)),
            "n": draw(st.sampled_from(sizes)), "seed": draw(st.integers(0, 2 ** 32))}
    if name == "polar":
        case["side"] = draw(st.sampled_from(["left", "left", "right", "default"]))
    if name == "powm":
        case["power"] = draw(st.integers(0, 4))
    if name == "assign":
        forms = ["int", "index_matrix", "index_matrix_batch", "tuple", "ix", "modes"]
        if conn == "tf" and draw(st.integers(0, 9)) != 0:
            forms = forms[:3]  # the other index forms are not implemented for tensors
        case["form"] = draw(st.sampled_from(forms))
    if name == "embed_in_identity":
        case["form"] = draw(st.sampled_from(
            ["operator_index"] * (9 if conn == "tf" else 1) + ["ix"]))
        case["dim"] = case["n"] + draw(st.integers(0, 3))
    if name in ("permanent", "hafnian", "loop_hafnian"):
        case["mult"] = draw(st.lists(st.integers(0, 2), min_size=2 * case["n"],
                                     max_size=2 * case["n"]))
    if name == "fock_rep":
        case["cutoff"] = draw(st.integers(1, 5 if case["n"] < 3 else 4))
    if name == "fermi_rep":
        case["cutoff"] = draw(st.integers(1, case["n"] + 1))
    # graph=True: run the primitive inside jax.jit / tf.function (for TF additionally with
    # decorate_with set, so forward_pass_np is the TF NumPy API)
    case["graph"] = draw(st.sampled_from([False, False, True])) if name in GRAPHABLE else False
    return case


def sym_special(kind, n, seed):
    rng = progs.rng_of(seed)
    if kind == "perm_sym":  # a perfect-matching adjacency plus loops: many exact zeros
        m = np.zeros((n, n), dtype=complex)
        p = rng.permutation(n)
        for a in range(0, n - 1, 2):
            m[p[a], p[a + 1]] = m[p[a + 1], p[a]] = 1.0
        if n % 2:
            m[p[-1], p[-1]] = 1.0
        return m
    if kind == "rank_one":
        v = _c(rng, n)
        return np.outer(v, v)
    if kind == "skew_perm":
        m = np.zeros((n, n))
        p = rng.permutation(n)
        for a in range(0, n - 1, 2):
            s = rng.choice([-1.0, 1.0]) * rng.uniform(0.5, 2)
            m[p[a], p[a + 1]], m[p[a + 1], p[a]] = s, -s
        return m
    return gen_matrix(kind, n, seed)


class Skip(Exception):
    """documented non-support / outside the fed domain: counted, not a failure"""


def run_primitive(case, ctx, make_connector, to_numpy):
    name, conn, kind, n, seed = case["prim"], case["conn"], case["kind"], case["n"], case["seed"]
    graph = bool(case.get("graph"))
    tag = f"C09:prim:{conn}:{name}"
    NC = pq.NumpyConnector()
    C = make_connector(conn, "decorated" if (graph and conn == "tf") else "eager")
    xp = C.np

    def nat(a):
        return xp.array(a) if isinstance(a, np.ndarray) else a

    def wrap(f):
        if not graph:
            return f
        if conn == "jax":
            import jax

            return jax.jit(f)
        import tensorflow as tf

        return tf.function(f, jit_compile=False, autograph=False)

    checks = []  # (clause, got, want)

    def eq(clause, got, want):
        checks.append((clause, got, want))

    cl = [f"prim:{conn}:{name}", f"prim_kind:{kind}"] + (["prim_graph"] if graph else [])
    try:
        _PRIM_FUNCS[name](case, C, NC, nat, wrap, eq, to_numpy)
    except Skip as s:
        ctx.case(case, False, cl + [f"prim_skipped:{conn}:{name}"])
        ctx.exclude(f"{tag}:{s}")
        return
    except NotImplementedError:
        ctx.case(case, False, cl + [f"prim_not_implemented:{conn}:{name}"])
        return
    except Violation:
        ctx.case(case, True, cl)
        raise
    except Exception as e:  # noqa: BLE001
        ctx.case(case, True, cl)
        raise Violation(f"{tag}:raises:{type(e).__name__}",
                        f"{name} on a {kind} {n}x{n} matrix (graph={graph}) raises "
                        f"{type(e).__name__}: {str(e)[:300]}")
    ctx.case(case, True, cl)
    for clause, got, want in checks:
        got, want = np.asarray(to_numpy(got)), np.asarray(want)
        if got.shape != want.shape:
            if got.size == want.size:
                got = got.reshape(want.shape)
            else:
                raise Violation(f"{tag}:{clause}", f"shape {got.shape} vs {want.shape}")
        scale = float(np.max(np.abs(want))) if want.size else 0.0
        d = np.abs(got.astype(complex) - want.astype(complex))
        dmax = float(np.max(d)) if d.size else 0.0
        if not (dmax <= TOL * (1 + scale)):
            raise Violation(f"{tag}:{clause}",
                            f"{name}({kind} {n}x{n}, seed {seed}, graph={graph}): "
                            f"max deviation {dmax:.3e} > {TOL:g}*(1+{scale:.3g})")


# -- the primitives -----------------------------------------------------------------

def _herm(a):
    return np.conj(np.asarray(a)).T


def p_polar(case, C, NC, nat, wrap, eq, tn):
    m = gen_matrix(case["kind"], case["n"], case["seed"])
    side = case["side"]
    default_error = None
    if side == "default":
        side = "right"
        try:
            u, p = C.polar(nat(m))  # BaseConnector.polar(matrix, side="right")
        except TypeError as e:
            default_error = e
            u, p = C.polar(nat(m), side="right")
    else:
        u, p = wrap(lambda a: C.polar(a, side=side))(nat(m))
    u, p = tn(u), tn(p)
    ru, rp = NC.polar(m, side=side)
    # (the side is in the case description, not in the bucket: one bucket per clause)
    eq("reconstruction", u @ p if side == "right" else p @ u, m)
    eq("unitary", _herm(u) @ u, np.eye(len(m)))
    eq("hermitian", p, _herm(p))
    eq("vs_numpy:U", u, ru)
    eq("vs_numpy:P", p, rp)
    if default_error is not None:  # evaluated last, so the clauses above are still checked
        eq("default-side:raises:TypeError", np.nan, 0.0)


def p_expm(case, C, NC, nat, wrap, eq, tn):
    m = gen_matrix(case["kind"], case["n"], case["seed"])
    if case["kind"] in ("small_hermitian", "hermitian"):
        m = 1j * m
    if case["conn"] == "tf" and case["kind"] == "nilpotent":
        raise Skip("defective-input")
    got = tn(wrap(C.expm)(nat(m)))
    eq("vs_numpy", got, NC.expm(m))
    eq("inverse", got @ scipy.linalg.expm(-m), np.eye(len(m)))


def p_logm(case, C, NC, nat, wrap, eq, tn):
    m = gen_matrix(case["kind"], case["n"], case["seed"])
    if case["kind"].startswith("symplectic"):
        m = scipy.linalg.polar(m, side="left")[1]  # what euler() hands to logm
    got = tn(wrap(C.logm)(nat(m)))
    eq("expm_of_result", scipy.linalg.expm(got), m)
    eq("vs_numpy", got, NC.logm(m))


def p_logm_expm(case, C, NC, nat, wrap, eq, tn):
    h = 1j * gen_matrix("small_hermitian", case["n"], case["seed"])
    got = tn(wrap(lambda a: C.logm(C.expm(a)))(nat(h)))
    eq("roundtrip", got, h)


def p_powm(case, C, NC, nat, wrap, eq, tn):
    m = gen_matrix(case["kind"], case["n"], case["seed"])
    k = case["power"]
    if case["conn"] == "tf" and case["kind"] == "nilpotent":
        raise Skip("defective-input")
    got = tn(wrap(lambda a: C.powm(a, k))(nat(m)))
    eq("vs_numpy", got, np.linalg.matrix_power(m, k))


def p_svd(case, C, NC, nat, wrap, eq, tn):
    m = gen_matrix(case["kind"], case["n"], case["seed"])
    v, s, wh = (tn(x) for x in wrap(C.svd)(nat(m)))
    eq("reconstruction", v @ np.diag(s) @ wh, m)
    eq("vs_numpy:singular_values", s, np.linalg.svd(m)[1])
    eq("unitary:V", _herm(v) @ v, np.eye(len(m)))
    eq("unitary:W", wh @ _herm(wh), np.eye(len(m)))


def p_schur(case, C, NC, nat, wrap, eq, tn):
    kind = case["kind"]
    m = gen_matrix(kind, case["n"], case["seed"])
    if case["conn"] == "tf":
        # tensorflow_/connector.py: "Lazy Schur decomposition, only works for normal
        # matrices"; it is only ever handed the complex unitary symmetric Z of takagi()
        if not is_normal(kind):
            raise Skip("non-normal-input")
        m = m.astype(complex)
    t, z = (tn(x) for x in wrap(C.schur)(nat(m)))
    eq("reconstruction", z @ t @ _herm(z), m)
    eq("unitary", _herm(z) @ z, np.eye(len(m)))
    lower = np.tril(t, -2 if np.isrealobj(m) else -1)
    eq("triangular", lower, np.zeros_like(lower))
    if np.isrealobj(m) and case["conn"] != "tf":
        eq("real_output", np.imag(t), np.zeros(t.shape))
    ev = np.sort_complex(np.round(np.linalg.eigvals(t), 9))
    eq("eigenvalues", ev, np.sort_complex(np.round(np.linalg.eigvals(m), 9)))


def p_sqrtm(case, C, NC, nat, wrap, eq, tn):
    m = gen_matrix(case["kind"], case["n"], case["seed"])
    if case["conn"] == "tf" and case["kind"] in ("psd_singular", "zero"):
        # tf.linalg.sqrtm documents "the input matrix should be invertible" (returns NaN
        # otherwise); TensorflowConnector.sqrtm is only fed A A^dagger of invertible A
        raise Skip("singular-input")
    got = tn(wrap(C.sqrtm)(nat(m)))
    eq("square", got @ got, m)
    if case["kind"] not in ("psd_singular", "zero"):
        eq("vs_numpy", got, NC.sqrtm(m))


def _four(case):
    return [gen_matrix(case["kind"], case["n"], case["seed"] + i) for i in range(4)]


def p_block(case, C, NC, nat, wrap, eq, tn):
    a, b, c, d = _four(case)
    got = wrap(lambda a, b, c, d: C.block([[a, b], [c, d]]))(nat(a), nat(b), nat(c), nat(d))
    eq("vs_numpy", tn(got), np.block([[a, b], [c, d]]))


def p_block_diag(case, C, NC, nat, wrap, eq, tn):
    rng = progs.rng_of(case["seed"])
    sizes = [int(rng.integers(1, 4)) for _ in range(int(rng.integers(1, 4)))]
    arrs = [gen_matrix(case["kind"], k, case["seed"] + i) for i, k in enumerate(sizes)]
    got = wrap(lambda *xs: C.block_diag(*xs))(*[nat(x) for x in arrs])
    eq("vs_numpy", tn(got), scipy.linalg.block_diag(*arrs))


def p_assign(case, C, NC, nat, wrap, eq, tn):
    form, n = case["form"], case["n"]
    rng = progs.rng_of(case["seed"])
    if case["conn"] == "tf" and form in ("tuple", "ix", "modes"):
        # tensorflow_/connector.py: "This method is very limited"; only int and integer-
        # array indices are implemented and only those are used with TensorFlow
        raise Skip(f"index-form-{form}")
    if form == "int":
        arr, idx, val = _c(rng, n + 2), int(rng.integers(0, n + 2)), complex(_c(rng, 1)[0])
    elif form == "index_matrix":
        dim = n * n + 3
        arr = _c(rng, dim)
        idx = rng.permutation(dim)[: n * n].reshape(n, n)
        val = _c(rng, n, n)
    elif form == "index_matrix_batch":
        dim, batch = n * 2 + 1, int(rng.integers(1, 4))
        arr = _c(rng, dim, batch)
        idx = rng.permutation(dim)[: n * 2].reshape(n, 2)
        val = _c(rng, n, 2, batch)
    elif form == "tuple":
        arr, idx, val = _c(rng, n, n), (int(rng.integers(0, n)), int(rng.integers(0, n))), \
            complex(_c(rng, 1)[0])
    elif form == "ix":
        k = int(rng.integers(1, n + 1))
        modes = rng.permutation(n)[:k]
        arr, idx, val = _c(rng, n, n), np.ix_(modes, modes), _c(rng, k, k)
    else:
        k = int(rng.integers(1, n + 1))
        modes = rng.permutation(n)[:k]
        arr, idx, val = _c(rng, n), (modes,), _c(rng, k)
    want = arr.copy()
    want[idx] = val
    got = wrap(lambda a, v: C.assign(a, idx, v))(nat(arr.copy()), nat(val))
    eq(f"{form}", tn(got), want)


def p_scatter(case, C, NC, nat, wrap, eq, tn):
    n = case["n"]
    rng = progs.rng_of(case["seed"])
    m = gen_matrix(case["kind"], n, case["seed"])
    dim = n + int(rng.integers(0, 3))
    cells = [(i, j) for i in range(dim) for j in range(dim)]
    pick = rng.permutation(len(cells))[: n * n]
    indices = [list(cells[i]) for i in pick]
    flat = m.reshape(-1)
    want = np.zeros((dim, dim), dtype=complex)
    for (i, j), v in zip(indices, flat):
        want[i, j] = v
    got = wrap(lambda f: C.scatter(indices, [f[i] for i in range(n * n)], (dim, dim)))(nat(flat))
    eq("placement", tn(got), want)


def p_embed(case, C, NC, nat, wrap, eq, tn):
    from piquasso._math.indices import get_operator_index

    n, dim = case["n"], case["dim"]
    rng = progs.rng_of(case["seed"])
    modes = tuple(int(x) for x in rng.permutation(dim)[:n])
    m = gen_matrix(case["kind"], n, case["seed"])
    if case["form"] == "operator_index":
        idx = get_operator_index(modes)
    else:
        if case["conn"] == "tf":
            raise Skip("index-form-ix")  # TF is only used with get_operator_index
        idx = np.ix_(modes, modes)
    want = np.eye(dim, dtype=complex)
    want[np.ix_(modes, modes)] = m
    got = C.embed_in_identity(nat(m), idx, dim)
    eq("placement", tn(got), want)
    eq("vs_numpy", tn(got), NC.embed_in_identity(m.copy(), idx, dim))


def p_gather(case, C, NC, nat, wrap, eq, tn):
    n = case["n"]
    rng = progs.rng_of(case["seed"])
    arr = _c(rng, n + 1, n + 2)
    idx = rng.integers(0, n + 2, size=(n, 2))
    got = wrap(lambda a: C.gather_along_axis_1(a, indices=idx))(nat(arr))
    eq("vs_numpy", tn(got), arr[:, idx])


def p_transpose(case, C, NC, nat, wrap, eq, tn):
    rng = progs.rng_of(case["seed"])
    arr = _c(rng, case["n"], case["n"] + 1)
    eq("vs_numpy", tn(wrap(C.transpose)(nat(arr))), arr.T)


def _mults(case, n):
    mult = case["mult"]
    rows, cols = list(mult[:n]), list(mult[n: 2 * n])
    # equal totals, at most 6 particles
    while sum(rows) > 6:
        rows[int(np.argmax(rows))] -= 1
    while sum(cols) > sum(rows):
        cols[int(np.argmax(cols))] -= 1
    while sum(cols) < sum(rows):
        cols[int(np.argmin(cols))] += 1
    return rows, cols


def p_permanent(case, C, NC, nat, wrap, eq, tn):
    n = case["n"]
    m = gen_matrix(case["kind"], n, case["seed"])
    rows, cols = _mults(case, n)
    r, c = np.array(rows, dtype=np.uint64), np.array(cols, dtype=np.uint64)
    got = wrap(lambda a: C.permanent(a, r, c))(nat(m))
    want = perm_bruteforce(repeat_rc(m, rows, cols))
    eq("definition", tn(got), want)
    eq("vs_numpy", tn(got), NC.permanent(m, r, c))


def p_hafnian(case, C, NC, nat, wrap, eq, tn):
    n = case["n"]
    m = sym_special(case["kind"], n, case["seed"])
    red = np.array(case["mult"][:n])
    while red.sum() > 6:
        red[int(np.argmax(red))] -= 1
    got = C.hafnian(nat(m.astype(complex)), red)
    sub = repeat_rc(m, red, red)
    eq("definition", tn(got), loop_hafnian_bruteforce(sub, loops=False))
    eq("vs_numpy", tn(got), NC.hafnian(m.astype(complex), red))


def p_loop_hafnian(case, C, NC, nat, wrap, eq, tn):
    n = case["n"]
    m = sym_special(case["kind"], n, case["seed"]).astype(complex)
    rng = progs.rng_of(case["seed"] + 7)
    diag = _c(rng, n) if case["kind"] not in ("zero", "identity") else np.zeros(n, complex)
    if case["kind"] == "identity":
        diag = np.ones(n, complex)
    red = np.array(case["mult"][:n])
    while red.sum() > 6:
        red[int(np.argmax(red))] -= 1
    got = wrap(lambda a, dg: C.loop_hafnian(a, dg, red))(nat(m), nat(diag))
    # convention of every implementation (and of The Walrus): reduce A and the diagonal
    # separately, then fill: copies of one index are joined by A_ii, loops carry D_i
    sub = np.array(repeat_rc(m, red, red), dtype=complex)
    np.fill_diagonal(sub, [diag[i] for i, k in enumerate(red) for _ in range(k)])
    eq("definition", tn(got), loop_hafnian_bruteforce(sub, loops=True))
    eq("vs_numpy", tn(got), NC.loop_hafnian(m.copy(), diag.copy(), red))


def p_pfaffian(case, C, NC, nat, wrap, eq, tn):
    m = np.asarray(sym_special(case["kind"], case["n"], case["seed"]), dtype=float)
    if case["kind"] == "zero":
        m = np.zeros((case["n"], case["n"]))
    got = C.pfaffian(nat(m.copy()))
    eq("definition", tn(got), pfaffian_bruteforce(m))
    eq("vs_numpy", tn(got), NC.pfaffian(m.copy()))


def p_real_logm(case, C, NC, nat, wrap, eq, tn):
    m = gen_matrix(case["kind"], case["n"], case["seed"]).real
    got = tn(C.real_logm(nat(m)))
    eq("expm_of_result", scipy.linalg.expm(got), m)
    eq("real", np.imag(got), np.zeros(got.shape))
    eq("vs_numpy", got, NC.real_logm(m.copy()))


def p_fock_rep(case, C, NC, nat, wrap, eq, tn):
    from piquasso._simulators.fock.simulation_steps import (
        calculate_interferometer_helper_indices,
    )
    from piquasso._math.fock import get_fock_space_basis

    d, cutoff = case["n"], case["cutoff"]
    u = gen_matrix(case["kind"], d, case["seed"]).astype(complex)
    helper = calculate_interferometer_helper_indices(d, cutoff)
    # TensorFlow eager mode: the forward pass runs on NumPy arrays (custom gradients), the
    # simulator converts the matrix with preprocess_input_for_custom_gradient first
    arg = u if (case["conn"] == "tf" and not case.get("graph")) else nat(u)
    got = wrap(lambda a: C.calculate_interferometer_on_fock_space(a, helper))(arg)
    want = NC.calculate_interferometer_on_fock_space(u, helper)
    basis = [tuple(int(x) for x in r) for r in get_fock_space_basis(d, cutoff)]
    for k in range(min(cutoff, len(want))):
        g = tn(got[k])
        eq(f"vs_numpy:n={min(k, 2)}{'+' if k >= 2 else ''}", g, want[k])
        if k <= 3:
            sub = [b for b in basis if sum(b) == k]
            ref = np.array([[perm_bruteforce(repeat_rc(u, s, t))
                             / math.sqrt(np.prod([math.factorial(x) for x in s + t]))
                             for t in sub] for s in sub])
            eq(f"definition:n={min(k, 2)}{'+' if k >= 2 else ''}", g, ref)


def p_fermi_rep(case, C, NC, nat, wrap, eq, tn):
    d, cutoff = case["n"], case["cutoff"]
    u = gen_matrix(case["kind"], d, case["seed"]).astype(complex)
    v = progs.haar_unitary(d, case["seed"] + 11)
    f = C.calculate_interferometer_on_fermionic_fock_space
    got_u = [tn(x) for x in f(nat(u), cutoff)]
    got_v = [tn(x) for x in f(nat(v), cutoff)]
    got_uv = [tn(x) for x in f(nat(u @ v), cutoff)]
    want = NC.calculate_interferometer_on_fermionic_fock_space(u, cutoff)
    for k in range(len(want)):
        eq("vs_numpy", got_u[k], want[k])
        eq("cauchy_binet", got_u[k] @ got_v[k], got_uv[k])
    if len(want) == d + 1:
        eq("determinant", got_u[d], np.array([[np.linalg.det(u)]]))


_PRIM_FUNCS = {
    "polar": p_polar, "expm": p_expm, "logm": p_logm, "logm_expm": p_logm_expm,
    "powm": p_powm, "svd": p_svd, "schur": p_schur, "sqrtm": p_sqrtm, "block": p_block,
    "block_diag": p_block_diag, "assign": p_assign, "scatter": p_scatter,
    "embed_in_identity": p_embed, "gather_along_axis_1": p_gather, "transpose": p_transpose,
    "permanent": p_permanent, "hafnian": p_hafnian, "loop_hafnian": p_loop_hafnian,
    "pfaffian": p_pfaffian, "real_logm": p_real_logm, "fock_rep": p_fock_rep,
    "fermi_rep": p_fermi_rep,
}
